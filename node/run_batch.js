// V8 bridge: reads a JSON batch {modules:[hex,...], inputs:[[a,b],...]} and prints, for every
// module and input, the results / trap class, the probe/mark log and the exported global state.
const fs = require('fs');
const batch = JSON.parse(fs.readFileSync(process.argv[2], 'utf8'));
function hex2bytes(h) { const b = new Uint8Array(h.length / 2); for (let i = 0; i < b.length; i++) b[i] = parseInt(h.substr(2 * i, 2), 16); return b; }
function trapClass(e) {
  if (typeof WebAssembly.Exception !== 'undefined' && e instanceof WebAssembly.Exception) return 'exception';
  const m = String(e && e.message);
  if (/unreachable/.test(m)) return 'unreachable';
  if (/divide by zero/.test(m)) return 'div-by-zero';
  if (/integer overflow|unrepresentable/.test(m)) return 'int-overflow';
  if (/out of bounds/.test(m)) return 'out-of-bounds';
  if (/call stack|stack size/i.test(m)) return 'call-depth';
  return 'other:' + m;
}
const out = [];
for (const h of batch.modules) {
  let mod;
  try { mod = new WebAssembly.Module(hex2bytes(h)); } catch (e) { out.push({ compile_error: String(e.message) }); continue; }
  const runs = [];
  for (const [a, b] of batch.inputs) {
    const log = [];
    let inst;
    try {
      inst = new WebAssembly.Instance(mod, { env: { probe: (v) => { log.push([1, v]); }, mark: (v) => { log.push([0, v]); } } });
    } catch (e) { runs.push({ instantiate_error: String(e.message) }); continue; }
    let r;
    try {
      const v = inst.exports.main(a, b);
      const vals = v === undefined ? [] : (Array.isArray(v) ? v : [v]);
      r = { result: vals.map((x) => String(x)) };
    } catch (e) { r = { trap: trapClass(e) }; }
    r.log = log;
    runs.push(r);
  }
  out.push({ runs });
}
process.stdout.write(JSON.stringify(out));
