//! E5 "binding the interpreter to reality": a batch of modules is executed by node/V8 and by the
//! reference interpreter; results, traps and logs must be identical. Disagreement is a machinery
//! error (exit 2), never a verdict. If node is absent the cross-validation is skipped and the
//! evidence says so.
use crate::engine::*;
use crate::interp::*;
use serde_json::{json, Value};
use std::process::Command;

const INPUTS: [(i32, i32); 9] = [(0, 0), (0, 1), (0, 2), (1, 0), (1, 1), (1, 2), (2, 0), (2, 1), (2, 2)];

fn hex(b: &[u8]) -> String {
    let mut s = String::with_capacity(b.len() * 2);
    for x in b {
        s.push_str(&format!("{:02x}", x));
    }
    s
}

fn trap_class(t: &Trap) -> &'static str {
    match t {
        Trap::Unreachable => "unreachable",
        Trap::DivByZero => "div-by-zero",
        Trap::IntOverflow => "int-overflow",
        Trap::OutOfBounds => "out-of-bounds",
        Trap::Exception(_) => "exception",
        Trap::CallDepth => "call-depth",
    }
}

pub fn cross_validate(run: &mut Run, batch: &[(Vec<u8>, Vec<u8>)]) {
    let node = "/usr/bin/node";
    let script = "/verif/node/run_batch.js";
    if batch.is_empty() {
        run.traces_validated = Some(0);
        return;
    }
    if !std::path::Path::new(node).exists() || !std::path::Path::new(script).exists() {
        run.extra.insert("node_cross_validation".into(), json!("skipped: node or bridge script not present"));
        run.traces_validated = Some(0);
        return;
    }
    // distinct modules only
    let mut mods: Vec<&Vec<u8>> = vec![];
    let mut seen = std::collections::HashSet::new();
    for (a, b) in batch.iter() {
        for m in [a, b] {
            if seen.insert(hash_of(m)) {
                mods.push(m);
            }
        }
    }
    let dir = format!("{}/target/node", VERIF_DIR);
    let _ = std::fs::create_dir_all(&dir);
    let path = format!("{}/batch-{}-{}.json", dir, run.id, std::process::id());
    let body = json!({"modules": mods.iter().map(|m| hex(m)).collect::<Vec<_>>(), "inputs": INPUTS.iter().map(|(a, b)| vec![*a, *b]).collect::<Vec<_>>()});
    if std::fs::write(&path, body.to_string()).is_err() {
        run.extra.insert("node_cross_validation".into(), json!("skipped: cannot write batch file"));
        run.traces_validated = Some(0);
        return;
    }
    let outp = Command::new(node).arg("--stack-size=2000").arg(script).arg(&path).output();
    let _ = std::fs::remove_file(&path);
    let outp = match outp {
        Ok(o) if o.status.success() => o,
        Ok(o) => {
            run.extra.insert("node_cross_validation".into(), json!(format!("skipped: node exited with {:?}: {}", o.status.code(), String::from_utf8_lossy(&o.stderr).chars().take(200).collect::<String>())));
            run.traces_validated = Some(0);
            return;
        }
        Err(e) => {
            run.extra.insert("node_cross_validation".into(), json!(format!("skipped: cannot start node: {}", e)));
            run.traces_validated = Some(0);
            return;
        }
    };
    let v: Value = match serde_json::from_slice(&outp.stdout) {
        Ok(v) => v,
        Err(e) => {
            run.machinery_error(format!("node bridge output unreadable: {}", e));
            return;
        }
    };
    let mut validated = 0u64;
    let mut node_rejected = 0u64;
    let mut disagreements = 0u64;
    for (mi, m) in mods.iter().enumerate() {
        let r = &v[mi];
        if r.get("compile_error").is_some() {
            node_rejected += 1;
            continue;
        }
        let im = match load(m) {
            Ok(im) => im,
            Err(_) => continue,
        };
        for (ii, (a, b)) in INPUTS.iter().enumerate() {
            let nr = &r["runs"][ii];
            if nr.get("instantiate_error").is_some() {
                node_rejected += 1;
                continue;
            }
            let it = Interp::new(&im, 50_000);
            let mine = match it.run_export("main", &[Val::I32(*a), Val::I32(*b)]) {
                Ok(o) => o,
                Err(_) => continue,
            };
            let my_log: Vec<Value> = mine
                .log
                .iter()
                .map(|e| match e {
                    LogEntry::Mark(k) => json!([0, k]),
                    LogEntry::Probe(k) => json!([1, k]),
                })
                .collect();
            let my_res: Value = match &mine.result {
                Ok(vals) => json!({"result": vals.iter().map(|x| match x { Val::I32(v) => v.to_string(), Val::I64(v) => v.to_string(), other => format!("{:?}", other) }).collect::<Vec<_>>()}),
                Err(t) => json!({"trap": trap_class(t)}),
            };
            let same_outcome = match (&mine.result, nr.get("result"), nr.get("trap")) {
                (Ok(_), Some(r), _) => my_res["result"] == *r,
                (Err(_), _, Some(t)) => my_res["trap"] == *t,
                _ => false,
            };
            if !same_outcome || Value::Array(my_log.clone()) != nr["log"] {
                disagreements += 1;
                if disagreements <= 3 {
                    run.machinery_error(format!(
                        "reference interpreter disagrees with node/V8 on module #{} input ({},{}): interpreter {} log {:?}; node {}",
                        mi, a, b, my_res, my_log.len(), nr.to_string().chars().take(300).collect::<String>()
                    ));
                }
            } else {
                validated += 1;
            }
        }
    }
    run.traces_validated = Some(run.traces_validated.unwrap_or(0) + validated);
    run.extra.insert("node_cross_validation".into(), json!({"modules": mods.len(), "executions_identical": validated, "rejected_by_node": node_rejected, "disagreements": disagreements}));
}
