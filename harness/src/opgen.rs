//! E2: the complete operator alphabet (from `wasmparser::for_each_operator!`) with tiny immediate
//! domains, and the scaffold module every instance is placed in. Nothing here uses wirm.

use wasm_encoder::reencode::{Reencode, RoundtripReencoder};
use wasm_encoder as we;
use wasmparser::{
    BinaryReader, BlockType, BrTable, Catch, HeapType, Ieee32, Ieee64, MemArg, Operator, Ordering,
    RefType, ResumeTable, TryTable, ValType, V128,
};

// ---- scaffold index layout (kept in sync with `scaffold_module`) -----------------------------
pub const T_VOID: u32 = 0; // func [] -> []
pub const T_I2I: u32 = 1; // func [i32] -> [i32]
pub const T_STRUCT: u32 = 2; // struct {mut i32, mut i8, mut funcref}
pub const T_ARR_I32: u32 = 3; // array (mut i32)
pub const T_ARR_I8: u32 = 4; // array (mut i8)
pub const T_ARR_FUNC: u32 = 5; // array (mut funcref)
pub const T_TAGP: u32 = 6; // func [i32] -> []   (tag with a parameter)
pub const T_FRES: u32 = 7; // func [] -> [funcref]
pub const N_FUNC_IMPORTS: u32 = 2;
pub const F_LAST: u32 = 3; // funcs: 0,1 imports; 2 local helper; 3 = the test function itself
pub const G_LAST: u32 = 3; // globals: 0,1 imports (i32, mut i32); 2 local i32; 3 local mut i32
pub const M_LAST: u32 = 1; // memories: 0 import, 1 local
pub const TB_LAST: u32 = 1; // tables: 0, 1 funcref
pub const TAG_LAST: u32 = 1; // tags: 0 import (type 0), 1 local (type T_TAGP)
pub const D_LAST: u32 = 1; // passive data segments 0,1
pub const E_LAST: u32 = 2; // elem segments: 0 declared, 1 and 2 passive
/// locals of the test function, index = position
pub const LOCALS: &[we::ValType] = &[
    we::ValType::I32,
    we::ValType::I64,
    we::ValType::F32,
    we::ValType::F64,
    we::ValType::V128,
    we::ValType::FUNCREF,
    we::ValType::EXTERNREF,
];

#[derive(Clone, Copy, Debug, PartialEq, Eq)]
pub struct ScaffoldCfg {
    pub shared_mem: bool,
    pub mem64: bool,
    pub shared_globals: bool,
}
impl Default for ScaffoldCfg {
    fn default() -> Self {
        ScaffoldCfg { shared_mem: false, mem64: false, shared_globals: false }
    }
}

fn parse_one(bytes: Vec<u8>) -> Operator<'static> {
    let leaked: &'static [u8] = Box::leak(bytes.into_boxed_slice());
    let mut r = wasmparser::OperatorsReader::new(BinaryReader::new(leaked, 0));
    r.read().expect("opgen: operator bytes decode")
}

pub fn br_table(targets: &[u32], default: u32) -> Operator<'static> {
    let mut b = vec![0x0e];
    crate::wasmutil::leb_u32(&mut b, targets.len() as u32);
    for t in targets {
        crate::wasmutil::leb_u32(&mut b, *t);
    }
    crate::wasmutil::leb_u32(&mut b, default);
    parse_one(b)
}

pub fn v128_const(bytes16: [u8; 16]) -> Operator<'static> {
    let mut b = vec![0xfd, 0x0c];
    b.extend_from_slice(&bytes16);
    parse_one(b)
}

/// domain of one immediate field, decided by the field's type, its name and the operator
pub trait FieldDom: Sized + Clone {
    fn dom(field: &str, op: &str) -> Vec<Self>;
}

impl FieldDom for u32 {
    fn dom(field: &str, op: &str) -> Vec<u32> {
        match field {
            "function_index" => vec![0, F_LAST - 1],
            "global_index" => {
                if op.contains("Set") || op.contains("Rmw") {
                    vec![1, G_LAST]
                } else {
                    vec![0, G_LAST]
                }
            }
            "mem" | "src_mem" | "dst_mem" => vec![0, M_LAST],
            "table" | "table_index" | "src_table" | "dst_table" => vec![0, TB_LAST],
            "type_index" => vec![T_VOID, T_I2I],
            "struct_type_index" => vec![T_STRUCT],
            "field_index" => {
                if op.ends_with("GetS") || op.ends_with("GetU") {
                    vec![1]
                } else if op == "StructGet" {
                    vec![0, 2]
                } else {
                    vec![0, 1, 2]
                }
            }
            "array_type_index" => {
                if op.ends_with("GetS") || op.ends_with("GetU") {
                    vec![T_ARR_I8]
                } else if op == "ArrayGet" {
                    vec![T_ARR_I32, T_ARR_FUNC]
                } else if op.ends_with("Data") {
                    vec![T_ARR_I32, T_ARR_I8]
                } else if op.ends_with("Elem") {
                    vec![T_ARR_FUNC]
                } else {
                    vec![T_ARR_I32, T_ARR_I8, T_ARR_FUNC]
                }
            }
            "array_type_index_dst" | "array_type_index_src" => vec![T_ARR_I32],
            "array_size" => vec![0, 2],
            "array_data_index" | "data_index" => vec![0, D_LAST],
            "array_elem_index" | "elem_index" => vec![0, E_LAST],
            "tag_index" => vec![0, TAG_LAST],
            "local_index" => vec![0, (LOCALS.len() - 1) as u32],
            "relative_depth" => vec![0, 1],
            // stack switching / legacy: out of scope, but give something syntactically valid
            "cont_type_index" | "argument_index" | "result_index" => vec![0],
            _ => vec![0],
        }
    }
}
impl FieldDom for u8 {
    fn dom(_field: &str, op: &str) -> Vec<u8> {
        // lane index: {0, max lane for the shape}
        let max = if op.contains("I8x16") || op.contains("8Lane") {
            15
        } else if op.contains("I16x8") || op.contains("16Lane") {
            7
        } else if op.contains("I32x4") || op.contains("F32x4") || op.contains("32Lane") {
            3
        } else {
            1
        };
        vec![0, max]
    }
}
impl FieldDom for i32 {
    fn dom(_: &str, _: &str) -> Vec<i32> {
        vec![0, 1, -1, i32::MIN, i32::MAX]
    }
}
impl FieldDom for i64 {
    fn dom(_: &str, _: &str) -> Vec<i64> {
        vec![0, 1, -1, i64::MIN, i64::MAX]
    }
}
impl FieldDom for Ieee32 {
    fn dom(_: &str, _: &str) -> Vec<Ieee32> {
        [0x0000_0000u32, 0x8000_0000, 0x3fc0_0000, 0x7f80_0000, 0x7fc0_0000, 0x7fc0_1234, 0x7fa0_0000, 0xff80_0001]
            .iter()
            .map(|b| Ieee32::from(f32::from_bits(*b)))
            .collect()
    }
}
impl FieldDom for Ieee64 {
    fn dom(_: &str, _: &str) -> Vec<Ieee64> {
        [
            0u64,
            0x8000_0000_0000_0000,
            0x3ff8_0000_0000_0000,
            0x7ff0_0000_0000_0000,
            0x7ff8_0000_0000_0000,
            0x7ff8_0000_dead_beef,
            0x7ff4_0000_0000_0000,
            0xfff0_0000_0000_0001,
        ]
        .iter()
        .map(|b| Ieee64::from(f64::from_bits(*b)))
        .collect()
    }
}
impl FieldDom for V128 {
    fn dom(_: &str, _: &str) -> Vec<V128> {
        let mut out = vec![];
        for pat in [[0u8; 16], [0xff; 16], {
            let mut p = [0u8; 16];
            p[15] = 0x80;
            p
        }, {
            let mut p = [0u8; 16];
            for (i, b) in p.iter_mut().enumerate() {
                *b = i as u8 + 1;
            }
            p
        }] {
            if let Operator::V128Const { value } = v128_const(pat) {
                out.push(value);
            }
        }
        out
    }
}
impl FieldDom for [u8; 16] {
    fn dom(_: &str, _: &str) -> Vec<[u8; 16]> {
        let mut id = [0u8; 16];
        for (i, b) in id.iter_mut().enumerate() {
            *b = i as u8;
        }
        vec![id, [31; 16]]
    }
}
fn natural_align(op: &str) -> u8 {
    // log2 of the access width, from the mnemonic
    let o = op;
    if o.contains("V128Load8x8") || o.contains("V128Load16x4") || o.contains("V128Load32x2") || o.contains("64Lane") || o.contains("Load64") {
        return 3;
    }
    if o == "V128Load" || o == "V128Store" {
        return 4;
    }
    if o.contains("8Lane") || o.contains("Load8Splat") {
        return 0;
    }
    if o.contains("16Lane") || o.contains("Load16Splat") {
        return 1;
    }
    if o.contains("32Lane") || o.contains("Load32Splat") || o.contains("Load32Zero") {
        return 2;
    }
    if o.contains("Wait64") {
        return 3;
    }
    if o.contains("Wait32") || o.contains("Notify") {
        return 2;
    }
    // scalar: trailing width in the name (Load8S, Store16, Rmw32AddU, ...), else the type
    for (pat, a) in [("8", 0u8), ("16", 1), ("32", 2)] {
        for suffix in ["Load", "Store", "Rmw"] {
            let key = format!("{}{}", suffix, pat);
            if o.contains(&key) {
                return a;
            }
        }
    }
    if o.starts_with("I64") || o.starts_with("F64") {
        3
    } else {
        2
    }
}
impl FieldDom for MemArg {
    fn dom(_: &str, op: &str) -> Vec<MemArg> {
        let nat = natural_align(op);
        let atomic = op.contains("Atomic");
        let mut v = vec![];
        // atomics require exactly natural alignment
        let aligns: Vec<u8> = if atomic { vec![nat] } else if nat == 0 { vec![0] } else { vec![0, nat] };
        for (i, a) in aligns.iter().enumerate() {
            v.push(MemArg { align: *a, max_align: nat, offset: if i == 0 { 0 } else { 65537 }, memory: 0 });
            v.push(MemArg { align: *a, max_align: nat, offset: if i == 0 { 4 } else { 0 }, memory: M_LAST });
        }
        v
    }
}
impl FieldDom for Ordering {
    fn dom(_: &str, _: &str) -> Vec<Ordering> {
        vec![Ordering::SeqCst, Ordering::AcqRel]
    }
}
fn abs(ty: wasmparser::AbstractHeapType) -> HeapType {
    HeapType::Abstract { shared: false, ty }
}
impl FieldDom for HeapType {
    fn dom(_: &str, _: &str) -> Vec<HeapType> {
        use wasmparser::AbstractHeapType::*;
        let mut v: Vec<HeapType> = [Func, Extern, Any, None, NoExtern, NoFunc, Eq, Struct, Array, I31, Exn, NoExn]
            .into_iter()
            .map(abs)
            .collect();
        v.push(HeapType::Concrete(wasmparser::UnpackedIndex::Module(T_VOID)));
        v.push(HeapType::Concrete(wasmparser::UnpackedIndex::Module(T_STRUCT)));
        v
    }
}
impl FieldDom for RefType {
    fn dom(field: &str, _: &str) -> Vec<RefType> {
        use wasmparser::AbstractHeapType::*;
        // casts: from any / to struct-ish (valid sub/supertype pairs are filtered by the validator)
        let mk = |n: bool, h: HeapType| RefType::new(n, h).unwrap();
        if field == "from_ref_type" {
            vec![mk(true, abs(Any)), mk(false, abs(Any)), mk(true, abs(Func))]
        } else {
            vec![
                mk(true, abs(Struct)),
                mk(false, abs(I31)),
                mk(false, HeapType::Concrete(wasmparser::UnpackedIndex::Module(T_STRUCT))),
                mk(true, HeapType::Concrete(wasmparser::UnpackedIndex::Module(T_VOID))),
            ]
        }
    }
}
impl FieldDom for ValType {
    fn dom(_: &str, _: &str) -> Vec<ValType> {
        vec![ValType::I32, ValType::I64, ValType::F32, ValType::F64, ValType::V128, ValType::FUNCREF, ValType::EXTERNREF]
    }
}
impl FieldDom for Vec<ValType> {
    fn dom(_: &str, _: &str) -> Vec<Vec<ValType>> {
        vec![vec![ValType::I32], vec![ValType::F64], vec![ValType::FUNCREF]]
    }
}
impl FieldDom for BlockType {
    fn dom(_: &str, _: &str) -> Vec<BlockType> {
        vec![
            BlockType::Empty,
            BlockType::Type(ValType::I32),
            BlockType::Type(ValType::FUNCREF),
            BlockType::FuncType(T_I2I),
            BlockType::FuncType(T_VOID),
        ]
    }
}
impl<'a> FieldDom for BrTable<'a> {
    fn dom(_: &str, _: &str) -> Vec<BrTable<'a>> {
        let mut v = vec![];
        for (t, d) in [(&[][..], 0u32), (&[1][..], 0), (&[0, 1, 0][..], 1)] {
            if let Operator::BrTable { targets } = br_table(t, d) {
                v.push(targets);
            }
        }
        v
    }
}
impl FieldDom for TryTable {
    fn dom(_: &str, _: &str) -> Vec<TryTable> {
        vec![
            TryTable { ty: BlockType::Empty, catches: vec![] },
            TryTable { ty: BlockType::Empty, catches: vec![Catch::One { tag: 0, label: 0 }, Catch::All { label: 1 }] },
            TryTable { ty: BlockType::Empty, catches: vec![Catch::All { label: 0 }] },
            // catch_ref / catch_all_ref need labels typed with exnref; provided by the frame (see frame())
            TryTable { ty: BlockType::Empty, catches: vec![Catch::AllRef { label: 0 }] },
            TryTable { ty: BlockType::Empty, catches: vec![Catch::OneRef { tag: 0, label: 0 }] },
        ]
    }
}
impl FieldDom for ResumeTable {
    fn dom(_: &str, _: &str) -> Vec<ResumeTable> {
        vec![ResumeTable { handlers: vec![] }]
    }
}

#[derive(Clone, Debug)]
pub struct OpInstance {
    pub proposal: &'static str,
    pub name: &'static str,
    pub variant: usize,
    pub op: Operator<'static>,
}

fn product(lens: &[usize], cap: usize) -> Vec<Vec<usize>> {
    let mut out = vec![];
    if lens.iter().any(|l| *l == 0) {
        return out;
    }
    let mut idx = vec![0usize; lens.len()];
    loop {
        out.push(idx.clone());
        if out.len() >= cap {
            break;
        }
        let mut k = 0;
        loop {
            if k == lens.len() {
                return out;
            }
            idx[k] += 1;
            if idx[k] < lens[k] {
                break;
            }
            idx[k] = 0;
            k += 1;
        }
    }
    out
}

/// All operator instances: every operator of wasmparser 0.235 x the cartesian product of its
/// immediate domains (capped at `cap` instances per operator, lowest indices first).
pub fn all_instances(cap: usize) -> Vec<OpInstance> {
    fn inner<'a>(cap: usize) -> Vec<(&'static str, &'static str, usize, Operator<'a>)> {
        let mut out = vec![];
        macro_rules! gen {
            ($( @$proposal:ident $op:ident $({ $($arg:ident: $argty:ty),* })? => $visit:ident ($($ann:tt)*) )*) => {
                $( gen!(one $proposal $op $({ $($arg: $argty),* })?); )*
            };
            (one $proposal:ident $op:ident) => {
                out.push((stringify!($proposal), stringify!($op), 0usize, Operator::$op));
            };
            (one $proposal:ident $op:ident { $($arg:ident: $argty:ty),* }) => {{
                let lens: Vec<usize> = vec![ $( <$argty as FieldDom>::dom(stringify!($arg), stringify!($op)).len() ),* ];
                for (variant, idx) in product(&lens, cap).into_iter().enumerate() {
                    let mut i = 0usize;
                    let op = Operator::$op { $( $arg: {
                        let d = <$argty as FieldDom>::dom(stringify!($arg), stringify!($op));
                        let v = d[idx[i]].clone();
                        i += 1;
                        v
                    } ),* };
                    let _ = i;
                    out.push((stringify!($proposal), stringify!($op), variant, op));
                }
            }};
        }
        wasmparser::for_each_operator!(gen);
        out
    }
    inner::<'static>(cap)
        .into_iter()
        .map(|(proposal, name, variant, op)| OpInstance { proposal, name, variant, op })
        .collect()
}

pub fn in_scope(proposal: &str) -> bool {
    matches!(
        proposal,
        "mvp" | "sign_extension"
            | "saturating_float_to_int"
            | "bulk_memory"
            | "reference_types"
            | "simd"
            | "tail_call"
            | "threads"
            | "exceptions"
            | "function_references"
            | "gc"
    )
}

/// The syntactic frame an operator needs around it so that only its immediates are validated:
/// returns (prefix, suffix) as wasm-encoder instructions around the operator. Everything sits
/// after an `unreachable`, so the operand stack is polymorphic.
fn frame(name: &str, op: &Operator) -> (Vec<we::Instruction<'static>>, Vec<we::Instruction<'static>>) {
    use we::Instruction as I;
    let blk = |t: we::BlockType| I::Block(t);
    let mut pre: Vec<I<'static>> = vec![];
    let mut post: Vec<I<'static>> = vec![];
    match name {
        "Block" | "Loop" | "TryTable" => {
            // catch_ref labels need [exnref]-typed targets
            if let Operator::TryTable { try_table } = op {
                let needs_exn = try_table
                    .catches
                    .iter()
                    .any(|c| matches!(c, Catch::AllRef { .. } | Catch::OneRef { .. }));
                if needs_exn {
                    pre.push(blk(we::BlockType::Result(we::ValType::Ref(we::RefType::EXNREF))));
                    post.push(I::Unreachable);
                    post.push(I::End);
                    post.push(I::Drop);
                } else {
                    pre.push(blk(we::BlockType::Empty));
                    pre.push(blk(we::BlockType::Empty));
                    post.push(I::End);
                    post.push(I::End);
                }
            }
            post.insert(0, I::End);
            post.insert(0, I::Unreachable);
        }
        "If" => {
            post.push(I::Unreachable);
            post.push(I::Else);
            post.push(I::Unreachable);
            post.push(I::End);
        }
        "Else" => {
            pre.push(I::If(we::BlockType::Empty));
            pre.push(I::Unreachable);
            post.push(I::Unreachable);
            post.push(I::End);
        }
        "End" => {
            pre.push(blk(we::BlockType::Empty));
            pre.push(I::Unreachable);
        }
        "Br" | "BrIf" | "BrTable" | "BrOnNull" => {
            pre.push(blk(we::BlockType::Empty));
            pre.push(blk(we::BlockType::Empty));
            pre.push(I::Unreachable);
            post.push(I::Unreachable);
            post.push(I::End);
            post.push(I::End);
        }
        "BrOnNonNull" => {
            let t = we::BlockType::Result(we::ValType::Ref(we::RefType { nullable: false, heap_type: we::HeapType::FUNC }));
            pre.push(blk(t));
            pre.push(blk(t));
            pre.push(I::Unreachable);
            post.push(I::Unreachable);
            post.push(I::End);
            post.push(I::Drop);
            post.push(I::Unreachable);
            post.push(I::End);
            post.push(I::Drop);
        }
        "BrOnCast" | "BrOnCastFail" => {
            // label type = anyref covers both the cast target and the fall-through type
            let t = we::BlockType::Result(we::ValType::Ref(we::RefType { nullable: true, heap_type: we::HeapType::ANY }));
            pre.push(blk(t));
            pre.push(blk(t));
            pre.push(I::Unreachable);
            post.push(I::Unreachable);
            post.push(I::End);
            post.push(I::Drop);
            post.push(I::Unreachable);
            post.push(I::End);
            post.push(I::Drop);
        }
        _ => {}
    }
    (pre, post)
}

/// Scaffold module with the instance as the body of the last function.
pub fn scaffold_with(op: Option<(&str, &Operator<'static>)>, cfg: ScaffoldCfg) -> Result<Vec<u8>, String> {
    let mut body = we::Function::new_with_locals_types(LOCALS.iter().copied());
    body.instruction(&we::Instruction::Unreachable);
    if let Some((name, op)) = op {
        let (pre, post) = frame(name, op);
        for i in pre.iter() {
            body.instruction(i);
        }
        let ins = RoundtripReencoder.instruction(op.clone()).map_err(|e| format!("reencode: {}", e))?;
        body.instruction(&ins);
        for i in post.iter() {
            body.instruction(i);
        }
    }
    body.instruction(&we::Instruction::Unreachable);
    body.instruction(&we::Instruction::End);
    Ok(scaffold_module(vec![body], cfg))
}

/// The scaffold: two of every entity kind with the shapes the domains above assume; `bodies` are
/// appended as further local functions of type [] -> [] (function index 3, 4, ...).
pub fn scaffold_module(bodies: Vec<we::Function>, cfg: ScaffoldCfg) -> Vec<u8> {
    use we::*;
    let mut m = Module::new();
    // types
    let mut types = TypeSection::new();
    types.ty().function([], []); // 0
    types.ty().function([ValType::I32], [ValType::I32]); // 1
    types.ty().struct_(vec![
        FieldType { element_type: StorageType::Val(ValType::I32), mutable: true },
        FieldType { element_type: StorageType::I8, mutable: true },
        FieldType { element_type: StorageType::Val(ValType::FUNCREF), mutable: true },
    ]); // 2
    types.ty().array(&StorageType::Val(ValType::I32), true); // 3
    types.ty().array(&StorageType::I8, true); // 4
    types.ty().array(&StorageType::Val(ValType::FUNCREF), true); // 5
    types.ty().function([ValType::I32], []); // 6
    types.ty().function([], [ValType::FUNCREF]); // 7
    m.section(&types);
    // imports
    let memty = MemoryType { minimum: 1, maximum: Some(4), memory64: cfg.mem64, shared: cfg.shared_mem, page_size_log2: None };
    let mut imports = ImportSection::new();
    imports.import("env", "f0", EntityType::Function(T_VOID));
    imports.import("env", "g0", EntityType::Global(GlobalType { val_type: ValType::I32, mutable: false, shared: cfg.shared_globals }));
    imports.import("env", "f1", EntityType::Function(T_VOID));
    imports.import("env", "m0", EntityType::Memory(memty));
    imports.import("env", "g1", EntityType::Global(GlobalType { val_type: ValType::I32, mutable: true, shared: cfg.shared_globals }));
    imports.import("env", "t0", EntityType::Tag(TagType { kind: TagKind::Exception, func_type_idx: T_VOID }));
    m.section(&imports);
    // functions: local helper (2) + the bodies
    let mut funcs = FunctionSection::new();
    funcs.function(T_VOID);
    for _ in bodies.iter() {
        funcs.function(T_VOID);
    }
    m.section(&funcs);
    // tables
    let mut tables = TableSection::new();
    for _ in 0..2 {
        tables.table(TableType { element_type: RefType::FUNCREF, table64: false, minimum: 4, maximum: Some(8), shared: false });
    }
    m.section(&tables);
    // memories
    let mut mems = MemorySection::new();
    mems.memory(memty);
    m.section(&mems);
    // tags
    let mut tags = TagSection::new();
    tags.tag(TagType { kind: TagKind::Exception, func_type_idx: T_TAGP });
    m.section(&tags);
    // globals
    let mut globals = GlobalSection::new();
    globals.global(GlobalType { val_type: ValType::I32, mutable: false, shared: cfg.shared_globals }, &ConstExpr::i32_const(7));
    globals.global(GlobalType { val_type: ValType::I32, mutable: true, shared: cfg.shared_globals }, &ConstExpr::i32_const(8));
    m.section(&globals);
    // exports
    let mut exports = ExportSection::new();
    exports.export("f_last", ExportKind::Func, N_FUNC_IMPORTS);
    exports.export("mem1", ExportKind::Memory, M_LAST);
    m.section(&exports);
    // elements: declared (for ref.func) + two passive
    let mut elems = ElementSection::new();
    let all: Vec<u32> = (0..(N_FUNC_IMPORTS + 1)).collect();
    elems.declared(Elements::Functions(std::borrow::Cow::Borrowed(&all)));
    elems.passive(Elements::Functions(std::borrow::Cow::Borrowed(&[0u32, 2][..])));
    elems.passive(Elements::Functions(std::borrow::Cow::Borrowed(&[1u32][..])));
    m.section(&elems);
    m.section(&DataCountSection { count: 2 });
    // code
    let mut code = CodeSection::new();
    let mut helper = Function::new([]);
    helper.instruction(&Instruction::End);
    code.function(&helper);
    for b in bodies.iter() {
        code.function(b);
    }
    m.section(&code);
    // data
    let mut data = DataSection::new();
    data.passive([1u8, 2, 3, 4, 5, 6, 7, 8]);
    data.passive([9u8, 10, 11, 12]);
    m.section(&data);
    m.finish()
}
