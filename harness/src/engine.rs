//! E1/E8: run bookkeeping, parallel case execution, findings, replay files, evidence.

use rayon::prelude::*;
use serde::Serialize;
use serde_json::{json, Map, Value};
use std::cell::RefCell;
use std::collections::{BTreeMap, BTreeSet, HashSet};
use std::hash::{Hash, Hasher};
use std::io::Write;
use std::panic::{catch_unwind, AssertUnwindSafe};
use std::sync::atomic::{AtomicBool, Ordering};
use std::sync::Mutex;
use std::time::Instant;

pub const VERIF_DIR: &str = "/verif";
/// where evidence and replay files go (the default; ORCA_MC_OUT redirects them for scratch development runs)
pub fn out_dir() -> String {
    std::env::var("ORCA_MC_OUT").unwrap_or_else(|_| VERIF_DIR.to_string())
}

#[derive(Clone, Copy, PartialEq, Eq, Debug)]
pub enum Tier {
    Quick,
    Thorough,
}
impl Tier {
    pub fn name(self) -> &'static str {
        match self {
            Tier::Quick => "quick",
            Tier::Thorough => "thorough",
        }
    }
    pub fn pick<T>(self, q: T, t: T) -> T {
        match self {
            Tier::Quick => q,
            Tier::Thorough => t,
        }
    }
}

// ---------------------------------------------------------------------------------------------
// stdout hygiene: the library prints from ComponentIterator::new; fd 1 is pointed at /dev/null
// and our own lines go through a saved descriptor.
// ---------------------------------------------------------------------------------------------
static OUT_FD: Mutex<Option<i32>> = Mutex::new(None);

pub fn hijack_stdout() {
    unsafe {
        let saved = libc::dup(1);
        let devnull = libc::open(b"/dev/null\0".as_ptr() as *const libc::c_char, libc::O_WRONLY);
        if saved >= 0 && devnull >= 0 {
            libc::dup2(devnull, 1);
            libc::close(devnull);
            *OUT_FD.lock().unwrap() = Some(saved);
        }
    }
}

pub fn out(line: &str) {
    let g = OUT_FD.lock().unwrap();
    let mut s = line.to_string();
    s.push('\n');
    match *g {
        Some(fd) => unsafe {
            let b = s.as_bytes();
            let mut off = 0;
            while off < b.len() {
                let n = libc::write(fd, b[off..].as_ptr() as *const libc::c_void, b.len() - off);
                if n <= 0 {
                    break;
                }
                off += n as usize;
            }
        },
        None => {
            let _ = std::io::stdout().write_all(s.as_bytes());
        }
    }
}

// ---------------------------------------------------------------------------------------------
// panic capture: a silent hook stores message and location per thread.
// ---------------------------------------------------------------------------------------------
#[derive(Clone, Debug, Default)]
pub struct PanicInfo {
    pub msg: String,
    pub file: String,
    pub line: u32,
}
impl PanicInfo {
    /// panic site without line numbers or variable parts: file + first words of the message
    pub fn site(&self) -> String {
        let head: String = self
            .msg
            .lines()
            .next()
            .unwrap_or("")
            .chars()
            .map(|c| if c.is_ascii_digit() { '#' } else { c })
            .take(48)
            .collect();
        let f = self.file.rsplit("/src/").next().unwrap_or(&self.file);
        format!("{}:{}", f, head.trim())
    }
}

thread_local! {
    static LAST_PANIC: RefCell<Option<PanicInfo>> = const { RefCell::new(None) };
    static LOGS: RefCell<Vec<String>> = const { RefCell::new(Vec::new()) };
}
static VERBOSE_PANICS: AtomicBool = AtomicBool::new(false);

pub fn install_panic_hook() {
    std::panic::set_hook(Box::new(|info| {
        let msg = if let Some(s) = info.payload().downcast_ref::<&str>() {
            s.to_string()
        } else if let Some(s) = info.payload().downcast_ref::<String>() {
            s.clone()
        } else {
            "<non-string panic>".to_string()
        };
        let (file, line) = info
            .location()
            .map(|l| (l.file().to_string(), l.line()))
            .unwrap_or_default();
        if VERBOSE_PANICS.load(Ordering::Relaxed) {
            eprintln!("panic at {}:{}: {}", file, line, msg);
        }
        LAST_PANIC.with(|p| *p.borrow_mut() = Some(PanicInfo { msg, file, line }));
    }));
}
pub fn set_verbose_panics(v: bool) {
    VERBOSE_PANICS.store(v, Ordering::Relaxed);
}

/// Run `f`, turning a panic into an `Err` with message and location.
pub fn catch<T>(f: impl FnOnce() -> T) -> Result<T, PanicInfo> {
    LAST_PANIC.with(|p| *p.borrow_mut() = None);
    match catch_unwind(AssertUnwindSafe(f)) {
        Ok(v) => Ok(v),
        Err(_) => Err(LAST_PANIC
            .with(|p| p.borrow_mut().take())
            .unwrap_or_default()),
    }
}

// log capture (observation point for `error!("BUG: ...")` / `warn!`)
struct CapLog;
impl log::Log for CapLog {
    fn enabled(&self, m: &log::Metadata) -> bool {
        m.level() <= log::Level::Warn
    }
    fn log(&self, r: &log::Record) {
        if self.enabled(r.metadata()) {
            LOGS.with(|l| l.borrow_mut().push(format!("{}: {}", r.level(), r.args())));
        }
    }
    fn flush(&self) {}
}
static CAPLOG: CapLog = CapLog;
pub fn install_logger() {
    let _ = log::set_logger(&CAPLOG);
    log::set_max_level(log::LevelFilter::Warn);
}
pub fn take_logs() -> Vec<String> {
    LOGS.with(|l| std::mem::take(&mut *l.borrow_mut()))
}

// ---------------------------------------------------------------------------------------------
// outcomes
// ---------------------------------------------------------------------------------------------
#[derive(Clone, Debug)]
pub struct Mismatch {
    /// property-local signature: oracle clause + syntactic class of the failing site
    pub sig: String,
    pub detail: String,
}
impl Mismatch {
    pub fn new(sig: impl Into<String>, detail: impl Into<String>) -> Self {
        Mismatch {
            sig: sig.into(),
            detail: detail.into(),
        }
    }
}

#[derive(Clone, Debug, Default)]
pub struct Outcome {
    /// class key that makes this case non-trivial and distinct ("" = trivial)
    pub class: String,
    pub mismatches: Vec<Mismatch>,
    /// hash of what was observed (for the distinct-outcome count)
    pub observed: u64,
    /// excluded from the claim (e.g. generated input does not validate), with a reason
    pub skipped: Option<String>,
    /// additional counters to be summed into the evidence
    pub counters: Vec<(&'static str, u64)>,
}
impl Outcome {
    pub fn ok(class: impl Into<String>) -> Self {
        Outcome {
            class: class.into(),
            ..Default::default()
        }
    }
    pub fn skip(reason: impl Into<String>) -> Self {
        Outcome {
            skipped: Some(reason.into()),
            ..Default::default()
        }
    }
    pub fn fail(&mut self, sig: impl Into<String>, detail: impl Into<String>) {
        self.mismatches.push(Mismatch::new(sig, detail));
    }
    pub fn count(&mut self, k: &'static str, n: u64) {
        self.counters.push((k, n));
    }
}

pub fn hash_of<T: Hash + ?Sized>(t: &T) -> u64 {
    // FNV-1a based deterministic hasher (std's DefaultHasher is fine too but keep it explicit)
    struct Fnv(u64);
    impl Hasher for Fnv {
        fn finish(&self) -> u64 {
            self.0
        }
        fn write(&mut self, bytes: &[u8]) {
            for b in bytes {
                self.0 ^= *b as u64;
                self.0 = self.0.wrapping_mul(0x100000001b3);
            }
        }
    }
    let mut h = Fnv(0xcbf29ce484222325);
    t.hash(&mut h);
    h.finish()
}

#[derive(Clone, Debug)]
struct SigRecord {
    count: u64,
    first_index: u64,
    witness: Value,
    detail: String,
}

pub struct Run {
    pub id: String,
    pub tier: Tier,
    pub seed: u64,
    pub level: &'static str,
    pub rule: String,
    start: Instant,
    evaluations: u64,
    skipped: BTreeMap<String, u64>,
    classes: HashSet<u64>,
    observed: HashSet<u64>,
    samples: Vec<Value>,
    sigs: BTreeMap<String, SigRecord>,
    counters: BTreeMap<String, u64>,
    pub extra: Map<String, Value>,
    pub assumptions: Vec<String>,
    pub exhaustive: bool,
    caps: Vec<String>,
    machinery_errors: Vec<String>,
    case_seq: u64,
    pub states: Option<u64>,
    pub transitions: Option<u64>,
    pub traces_validated: Option<u64>,
    family_counts: BTreeMap<String, u64>,
}

impl Run {
    pub fn new(id: &str, tier: Tier, level: &'static str) -> Run {
        let seed = std::env::var("VERIF_SEED")
            .ok()
            .and_then(|s| s.parse::<u64>().ok())
            .unwrap_or(0);
        Run {
            id: id.to_string(),
            tier,
            seed,
            level,
            rule: String::new(),
            start: Instant::now(),
            evaluations: 0,
            skipped: BTreeMap::new(),
            classes: HashSet::new(),
            observed: HashSet::new(),
            samples: vec![],
            sigs: BTreeMap::new(),
            counters: BTreeMap::new(),
            extra: Map::new(),
            assumptions: vec![],
            exhaustive: true,
            caps: vec![],
            machinery_errors: vec![],
            case_seq: 0,
            states: None,
            transitions: None,
            traces_validated: None,
            family_counts: BTreeMap::new(),
        }
    }

    pub fn elapsed(&self) -> f64 {
        self.start.elapsed().as_secs_f64()
    }

    pub fn cap(&mut self, what: impl Into<String>) {
        self.exhaustive = false;
        self.caps.push(what.into());
    }

    pub fn machinery_error(&mut self, what: impl Into<String>) {
        self.machinery_errors.push(what.into());
    }

    pub fn add_counter(&mut self, k: &str, n: u64) {
        *self.counters.entry(k.to_string()).or_insert(0) += n;
    }

    /// Run a family of cases in parallel on the real code. `f` must catch the subject's panics
    /// itself where a panic is an outcome; a panic escaping `f` is a machinery error.
    pub fn run_cases<C, F>(&mut self, family: &str, cases: &[C], f: F)
    where
        C: Serialize + Sync,
        F: Fn(&C) -> Outcome + Sync,
    {
        let results: Vec<Result<Outcome, PanicInfo>> =
            cases.par_iter().map(|c| catch(|| f(c))).collect();
        *self.family_counts.entry(family.to_string()).or_insert(0) += cases.len() as u64;
        let want_samples = 3usize;
        let mut fam_samples = 0usize;
        for (i, r) in results.into_iter().enumerate() {
            let idx = self.case_seq;
            self.case_seq += 1;
            match r {
                Err(p) => {
                    self.machinery_errors.push(format!(
                        "harness panic in family {} case {}: {} at {}:{}",
                        family, i, p.msg, p.file, p.line
                    ));
                }
                Ok(o) => {
                    if let Some(why) = o.skipped {
                        *self.skipped.entry(why).or_insert(0) += 1;
                        continue;
                    }
                    self.evaluations += 1;
                    if !o.class.is_empty() {
                        self.classes.insert(hash_of(&(family, &o.class)));
                    }
                    self.observed.insert(o.observed);
                    for (k, n) in o.counters {
                        *self.counters.entry(k.to_string()).or_insert(0) += n;
                    }
                    if fam_samples < want_samples && self.samples.len() < 12 {
                        fam_samples += 1;
                        self.samples.push(json!({"family": family, "case": serde_json::to_value(&cases[i]).unwrap_or(Value::Null)}));
                    }
                    for m in o.mismatches {
                        let e = self.sigs.entry(m.sig.clone()).or_insert_with(|| SigRecord {
                            count: 0,
                            first_index: idx,
                            witness: json!({"family": family, "case": serde_json::to_value(&cases[i]).unwrap_or(Value::Null)}),
                            detail: m.detail.clone(),
                        });
                        e.count += 1;
                    }
                }
            }
        }
    }

    /// Record a single, already evaluated case (used by the BFS driver and special engines).
    pub fn record(&mut self, family: &str, case: Value, o: Outcome) {
        let idx = self.case_seq;
        self.case_seq += 1;
        *self.family_counts.entry(family.to_string()).or_insert(0) += 1;
        if let Some(why) = o.skipped {
            *self.skipped.entry(why).or_insert(0) += 1;
            return;
        }
        self.evaluations += 1;
        if !o.class.is_empty() {
            self.classes.insert(hash_of(&(family, &o.class)));
        }
        self.observed.insert(o.observed);
        for (k, n) in o.counters {
            *self.counters.entry(k.to_string()).or_insert(0) += n;
        }
        if self.samples.len() < 12 && (idx < 3 || idx % 997 == 0) {
            self.samples.push(json!({"family": family, "case": case.clone()}));
        }
        for m in o.mismatches {
            let e = self.sigs.entry(m.sig.clone()).or_insert_with(|| SigRecord {
                count: 0,
                first_index: idx,
                witness: json!({"family": family, "case": case.clone()}),
                detail: m.detail.clone(),
            });
            e.count += 1;
        }
    }

    /// Bulk bookkeeping for engines that evaluate cases themselves (history search, workers).
    pub fn add_evaluations(&mut self, family: &str, n: u64) {
        self.evaluations += n;
        *self.family_counts.entry(family.to_string()).or_insert(0) += n;
    }
    pub fn add_class(&mut self, family: &str, class: &str) {
        self.classes.insert(hash_of(&(family, class)));
    }
    pub fn add_observed(&mut self, h: u64) {
        self.observed.insert(h);
    }
    /// Record a mismatch found by such an engine (witness = serialized case).
    pub fn add_mismatch(&mut self, family: &str, case: Value, sig: String, detail: String, count: u64) {
        let idx = self.case_seq;
        self.case_seq += 1;
        let e = self.sigs.entry(sig).or_insert_with(|| SigRecord {
            count: 0,
            first_index: idx,
            witness: json!({"family": family, "case": case}),
            detail,
        });
        e.count += count;
    }

    pub fn add_sample(&mut self, v: Value) {
        if self.samples.len() < 16 {
            self.samples.push(v);
        }
    }

    /// Classify, write replay files and evidence, print the verdict lines, return the exit code.
    pub fn finish(mut self) -> i32 {
        // the wrapper runs the debug-assertions build of this binary first (quick bounds) and hands its
        // summary line to the release run, which records it in the evidence
        if let Ok(s) = std::env::var("ORCA_MC_DEBUG_RUN") {
            if !s.is_empty() {
                self.extra.insert("debug_assertions_build_run".into(), json!(s));
            }
        }
        if cfg!(debug_assertions) {
            self.assumptions.push("this run used the debug-assertions build (overflow checks on, library unoptimised)".into());
        }
        let known = load_known_findings();
        let mut violations = 0;
        let mut known_lines = BTreeSet::new();
        let mut viol_lines = vec![];
        let mut finding_summaries = vec![];
        for (sig, rec) in self.sigs.iter() {
            let k = known.iter().find(|k| {
                k.property == self.id && k.status == "open" && sig_matches(&k.signature, sig)
            });
            match k {
                Some(k) => {
                    known_lines.insert(format!(
                        "KNOWN-FINDING: property={} {} [{}]",
                        self.id, k.what, k.signature
                    ));
                    finding_summaries.push(json!({"signature": sig, "cases": rec.count, "status": "known-finding"}));
                }
                None => {
                    violations += 1;
                    let dir = format!("{}/replays/{}", out_dir(), self.id);
                    let _ = std::fs::create_dir_all(&dir);
                    let fname: String = sig
                        .chars()
                        .map(|c| if c.is_ascii_alphanumeric() || c == '-' || c == '.' { c } else { '_' })
                        .take(100)
                        .collect();
                    let path = format!("{}/{}.json", dir, fname);
                    let body = json!({
                        "property": self.id,
                        "signature": sig,
                        "detail": rec.detail,
                        "cases_with_this_signature": rec.count,
                        "witness": rec.witness,
                    });
                    let _ = std::fs::write(&path, serde_json::to_string_pretty(&body).unwrap());
                    viol_lines.push((
                        rec.first_index,
                        format!("VIOLATION property={} replay={}", self.id, path),
                        format!("  signature: {}\n  detail: {}", sig, rec.detail),
                    ));
                    finding_summaries.push(json!({"signature": sig, "cases": rec.count, "status": "violation", "replay": path}));
                }
            }
        }
        let wall = self.elapsed();
        let distinct = self.classes.len() as u64;
        let mut cov = Map::new();
        cov.insert("evaluations".into(), json!(self.evaluations));
        cov.insert("distinct_nontrivial".into(), json!(distinct));
        cov.insert("rule".into(), json!(self.rule));
        cov.insert("samples".into(), Value::Array(self.samples.clone()));
        cov.insert("exhaustive".into(), json!(self.exhaustive));
        cov.insert("distinct_observed_outcomes".into(), json!(self.observed.len()));
        if let Some(s) = self.states {
            cov.insert("states".into(), json!(s));
        }
        if let Some(s) = self.transitions {
            cov.insert("transitions".into(), json!(s));
        }
        if let Some(s) = self.traces_validated {
            cov.insert("traces_validated_against_impl".into(), json!(s));
        }
        if !self.caps.is_empty() {
            cov.insert("caps_hit".into(), json!(self.caps));
        }
        if !self.skipped.is_empty() {
            cov.insert("excluded_inputs".into(), json!(self.skipped));
        }
        if !self.counters.is_empty() {
            cov.insert("counters".into(), json!(self.counters));
        }
        cov.insert("families".into(), json!(self.family_counts));
        cov.insert("findings".into(), Value::Array(finding_summaries));
        for (k, v) in self.extra.iter() {
            cov.insert(k.clone(), v.clone());
        }
        let ev = json!({
            "property_id": self.id,
            "tier": self.tier.name(),
            "seed": self.seed,
            "level": self.level,
            "coverage": Value::Object(cov),
            "assumptions": self.assumptions,
            "wall_s": (wall * 1000.0).round() / 1000.0,
            "violations": violations,
        });
        let evdir = format!("{}/evidence", out_dir());
        let _ = std::fs::create_dir_all(&evdir);
        let evpath = format!("{}/{}.json", evdir, self.id);
        if let Err(e) = std::fs::write(&evpath, serde_json::to_string_pretty(&ev).unwrap()) {
            self.machinery_errors.push(format!("cannot write evidence: {}", e));
        }

        for l in known_lines.iter() {
            out(l);
        }
        viol_lines.sort();
        for (_, l, d) in viol_lines.iter() {
            out(l);
            out(d);
        }
        out(&format!(
            "[{} {}] evaluations={} distinct_nontrivial={} outcomes={} states={:?} transitions={:?} exhaustive={} violations={} known={} wall={:.1}s",
            self.id,
            self.tier.name(),
            self.evaluations,
            distinct,
            self.observed.len(),
            self.states,
            self.transitions,
            self.exhaustive,
            violations,
            known_lines.len(),
            wall
        ));
        if !self.machinery_errors.is_empty() {
            for e in self.machinery_errors.iter().take(10) {
                out(&format!("MACHINERY-ERROR: {}", e));
            }
            return 2;
        }
        if self.evaluations == 0 {
            out("MACHINERY-ERROR: no case was evaluated");
            return 2;
        }
        if violations > 0 {
            1
        } else {
            0
        }
    }
}

#[derive(Clone, Debug, serde::Deserialize)]
pub struct KnownFinding {
    pub property: String,
    pub signature: String,
    pub what: String,
    pub status: String,
    #[serde(default)]
    pub witness: Value,
}

/// A known-finding signature matches exactly, or by prefix when it ends in `*`.
fn sig_matches(pattern: &str, sig: &str) -> bool {
    // glob with `*` = any (possibly empty) substring
    let parts: Vec<&str> = pattern.split('*').collect();
    if parts.len() == 1 {
        return pattern == sig;
    }
    let mut pos = 0usize;
    for (i, part) in parts.iter().enumerate() {
        if part.is_empty() {
            continue;
        }
        if i == 0 {
            if !sig.starts_with(part) {
                return false;
            }
            pos = part.len();
        } else if i == parts.len() - 1 {
            return sig.len() >= pos + part.len() && sig[pos..].ends_with(part);
        } else {
            match sig[pos..].find(part) {
                Some(j) => pos += j + part.len(),
                None => return false,
            }
        }
    }
    true
}

pub fn load_known_findings() -> Vec<KnownFinding> {
    let path = format!("{}/known_findings.json", VERIF_DIR);
    match std::fs::read_to_string(&path) {
        Ok(s) => match serde_json::from_str::<Vec<KnownFinding>>(&s) {
            Ok(v) => v,
            Err(e) => {
                out(&format!("MACHINERY-ERROR: known_findings.json does not parse: {}", e));
                std::process::exit(2);
            }
        },
        Err(_) => vec![],
    }
}
