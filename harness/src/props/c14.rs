//! C14 — Added locals get fresh indices of the requested type.
//!
//! Space: ALL sequences of length <= L (quick 3, thorough 4) of `add_local(ty)`, ty over 10 value
//! types, through every local-adding API, on target functions with {0,1,2} params x 6 shapes of
//! already declared locals (as run-length groups in the binary), the target being the first,
//! middle or last of three local functions of a module with 0 or 1 imported function (so that
//! function index and code index differ). Thorough also interleaves additions to two functions.
//! Every sequence is a prefix state of the history tree and is evaluated on its own (fresh parse,
//! replay of the adds on the real code, encode, independent decode): states = histories
//! evaluated, transitions = add operations executed.
//!
//! Oracle (shares no code with wirm): returned LocalID == #params + #previously declared locals
//! (expanded) + #locals added to that function so far; after `encode()` the wasmparser-decoded
//! function has the same parameter types, expanded locals == old ++ requested (compared through
//! wasmparser's `ValType` Display), every other function unchanged (for the builder: the built
//! function is appended with the requested params and exactly the requested locals).
//! Validation of the OUTPUT is not part of this property and is not performed.
//! `add_locals` returns nothing, so only the encoded form (and the indices returned by later
//! `add_local` calls) are judged for it.
use crate::engine::*;
use serde::{Deserialize, Serialize};
use std::collections::HashMap;
use wasm_encoder as we;
use wasmparser as wp;
use wirm::ir::function::FunctionBuilder;
use wirm::ir::id::FunctionID;
use wirm::ir::types::Location;
use wirm::iterator::component_iterator::ComponentIterator;
use wirm::iterator::iterator_trait::Iterator as WirmIterator;
use wirm::iterator::module_iterator::ModuleIterator;
use wirm::module_builder::AddLocal;
use wirm::opcode::Opcode;
use wirm::{Component, DataType, Module};

const NTYPES: u8 = 10;

/// The value-type alphabet: (what is requested from wirm, what the decoder must show, encoder form).
fn ty(i: u8) -> (DataType, wp::ValType) {
    let r = |nullable: bool, t: wp::AbstractHeapType| {
        wp::ValType::Ref(wp::RefType::new(nullable, wp::HeapType::Abstract { shared: false, ty: t }).unwrap())
    };
    match i {
        0 => (DataType::I32, wp::ValType::I32),
        1 => (DataType::I64, wp::ValType::I64),
        2 => (DataType::F32, wp::ValType::F32),
        3 => (DataType::F64, wp::ValType::F64),
        4 => (DataType::V128, wp::ValType::V128),
        5 => (DataType::FuncRefNull, r(true, wp::AbstractHeapType::Func)),
        6 => (DataType::ExternRefNull, r(true, wp::AbstractHeapType::Extern)),
        7 => (DataType::FuncRef, r(false, wp::AbstractHeapType::Func)),
        8 => (DataType::AnyNull, r(true, wp::AbstractHeapType::Any)),
        _ => (DataType::I31, r(false, wp::AbstractHeapType::I31)),
    }
}
fn ty_name(i: u8) -> String {
    format!("{}", ty(i).1)
}

/// Parameter lists of the target: 0, 1 or 2 params.
fn params_of(n: u8) -> Vec<we::ValType> {
    match n {
        0 => vec![],
        1 => vec![we::ValType::I32],
        _ => vec![we::ValType::I64, we::ValType::F32],
    }
}
/// Results of the target: the 2-param target returns one i32, so that #params, #results and
/// #params + #results are pairwise different somewhere in the space.
fn results_of(n: u8) -> Vec<we::ValType> {
    if n == 2 {
        vec![we::ValType::I32]
    } else {
        vec![]
    }
}
fn params_dt(n: u8) -> Vec<DataType> {
    match n {
        0 => vec![],
        1 => vec![DataType::I32],
        _ => vec![DataType::I64, DataType::F32],
    }
}

/// Already declared locals of the target, as run-length groups exactly as written to the binary.
/// 4 and 5 are legal but non-canonical encodings (two groups of one type; an empty last group); 6 repeats
/// a type in a later, non-adjacent group.
const NPRE: u8 = 7;
fn pre_of(i: u8) -> Vec<(u32, we::ValType)> {
    use we::ValType::*;
    match i {
        0 => vec![],
        1 => vec![(2, I32)],
        2 => vec![(1, I32), (1, I64)],
        3 => vec![(1, I64), (3, F32)],
        4 => vec![(1, I32), (1, I32)],
        5 => vec![(1, I32), (0, I64)],
        // one type in two runs that are not adjacent
        _ => vec![(1, I32), (1, I64), (2, I32)],
    }
}

/// Shapes of the functions that are not the target (distinct from each other and from all targets).
fn fixed_shape(ord: usize) -> (Vec<we::ValType>, Vec<(u32, we::ValType)>) {
    use we::ValType::*;
    match ord {
        0 => (vec![F64], vec![(1, F32)]),
        1 => (vec![], vec![(2, F64), (1, I32)]),
        _ => (vec![I64, I64, I64], vec![]),
    }
}

#[derive(Serialize, Deserialize, Clone, Debug)]
struct Case {
    /// builder | modifier | modifier-each | add_locals | add_locals+add_local | module-iterator |
    /// component-iterator | local-function
    api: String,
    /// number of imported functions (0 or 1)
    k: u32,
    /// ordinal of the target among the three local functions
    target: u8,
    /// number of params of the target (0,1,2)
    params: u8,
    /// index into the menu of already declared locals
    pre: u8,
    /// requested types, in order
    seq: Vec<u8>,
    /// add_locals: 0 = one call with the whole sequence, s>0 = two calls seq[..s], seq[s..];
    /// add_locals+add_local: seq[..s] in one add_locals call, the rest one by one
    split: u8,
    /// interleaving: per add 0 = target, 1 = second function `other` (empty = all to the target)
    who: Vec<u8>,
    /// ordinal of the second function of an interleaved history (keeps its fixed shape)
    other: u8,
}

fn build_module(c: &Case) -> Vec<u8> {
    let mut shapes: Vec<(Vec<we::ValType>, Vec<(u32, we::ValType)>)> = (0..3).map(fixed_shape).collect();
    let mut results: Vec<Vec<we::ValType>> = vec![vec![]; 3];
    if c.api != "builder" {
        shapes[c.target as usize] = (params_of(c.params), pre_of(c.pre));
        results[c.target as usize] = results_of(c.params);
    }
    let mut m = we::Module::new();
    let mut types = we::TypeSection::new();
    types.ty().function(vec![], vec![]);
    for ((p, _), r) in shapes.iter().zip(results.iter()) {
        types.ty().function(p.clone(), r.clone());
    }
    m.section(&types);
    if c.k > 0 {
        let mut imports = we::ImportSection::new();
        for i in 0..c.k {
            imports.import("e", &format!("f{}", i), we::EntityType::Function(0));
        }
        m.section(&imports);
    }
    let mut funcs = we::FunctionSection::new();
    for i in 0..shapes.len() {
        funcs.function(i as u32 + 1);
    }
    m.section(&funcs);
    let mut code = we::CodeSection::new();
    for ((_, l), r) in shapes.iter().zip(results.iter()) {
        let mut f = we::Function::new(l.clone());
        if r.is_empty() {
            f.instruction(&we::Instruction::Nop);
        } else {
            f.instruction(&we::Instruction::I32Const(7));
        }
        f.instruction(&we::Instruction::End);
        code.function(&f);
    }
    m.section(&code);
    m.finish()
}

fn wrap_component(module: &[u8]) -> Vec<u8> {
    let mut c = we::Component::new();
    c.section(&we::RawSection { id: 1, data: module }); // core module section
    c.finish()
}

/// Independent view of a module: per local function (signature = param types ++ "->" ++ result
/// types, expanded local types).
#[derive(Clone, Debug, PartialEq, Eq, Hash)]
struct View {
    funcs: Vec<(Vec<String>, Vec<String>)>,
}

fn decode(bytes: &[u8]) -> Result<View, String> {
    let mut types: Vec<Option<Vec<String>>> = vec![];
    let mut func_types: Vec<u32> = vec![];
    let mut locals: Vec<Vec<String>> = vec![];
    for p in wp::Parser::new(0).parse_all(bytes) {
        match p.map_err(|e| e.to_string())? {
            wp::Payload::TypeSection(r) => {
                for rg in r {
                    for st in rg.map_err(|e| e.to_string())?.into_types() {
                        match &st.composite_type.inner {
                            wp::CompositeInnerType::Func(f) => {
                                {
                                let mut sig: Vec<String> = f.params().iter().map(|t| format!("{}", t)).collect();
                                sig.push("->".into());
                                sig.extend(f.results().iter().map(|t| format!("{}", t)));
                                types.push(Some(sig))
                            }
                            }
                            _ => types.push(None),
                        }
                    }
                }
            }
            wp::Payload::FunctionSection(r) => {
                for f in r {
                    func_types.push(f.map_err(|e| e.to_string())?);
                }
            }
            wp::Payload::CodeSectionEntry(body) => {
                let mut l = vec![];
                for g in body.get_locals_reader().map_err(|e| e.to_string())? {
                    let (n, t) = g.map_err(|e| e.to_string())?;
                    for _ in 0..n {
                        l.push(format!("{}", t));
                    }
                }
                locals.push(l);
            }
            _ => {}
        }
    }
    if func_types.len() != locals.len() {
        return Err(format!("function section has {} entries, code section {}", func_types.len(), locals.len()));
    }
    let mut funcs = vec![];
    for (t, l) in func_types.iter().zip(locals) {
        let p = types
            .get(*t as usize)
            .cloned()
            .flatten()
            .ok_or_else(|| format!("function type index {} is not a function type", t))?;
        funcs.push((p, l));
    }
    Ok(View { funcs })
}

fn extract_core_module(component: &[u8]) -> Result<Vec<u8>, String> {
    for p in wp::Parser::new(0).parse_all(component) {
        if let wp::Payload::ModuleSection { unchecked_range, .. } = p.map_err(|e| e.to_string())? {
            return Ok(component[unchecked_range].to_vec());
        }
    }
    Err("no core module in the encoded component".into())
}

/// What the real code did: one entry per add (Some(id) when the API returns one) and the bytes.
struct Actual {
    returned: Vec<Option<u32>>,
    bytes: Vec<u8>,
}

enum Exec {
    Done(Actual),
    /// the iterator could not be brought to the function (not this property's business)
    Unreachable(String),
}

fn func_of(loc: Location) -> u32 {
    match loc {
        Location::Module { func_idx, .. } => *func_idx,
        Location::Component { func_idx, .. } => *func_idx,
    }
}

/// Bring an iterator to (the first instruction reached of) function `fid` using only
/// curr_loc / next / reset.
fn position<I: WirmIterator>(it: &mut I, fid: u32) -> Result<(), String> {
    let mut resets = 0;
    loop {
        let f = func_of(it.curr_loc().0);
        if f == fid {
            return Ok(());
        }
        if f > fid {
            if resets > 0 {
                return Err(format!("after reset the iterator stands in function {} > {}", f, fid));
            }
            resets += 1;
            it.reset();
            continue;
        }
        if it.next().is_none() {
            return Err(format!("iteration ended before function {}", fid));
        }
    }
}

/// function id each add goes to
fn fid_of(c: &Case, i: usize) -> u32 {
    let ord = if c.who.get(i).copied().unwrap_or(0) == 1 { c.other } else { c.target };
    c.k + ord as u32
}

fn execute(c: &Case, input: &[u8]) -> Exec {
    let mut returned = vec![];
    let dts: Vec<DataType> = c.seq.iter().map(|t| ty(*t).0).collect();
    if c.api == "component-iterator" {
        let mut comp = Component::parse(input, false).expect("generated component parses");
        {
            let mut it = ComponentIterator::new(&mut comp, HashMap::new());
            for (i, dt) in dts.iter().enumerate() {
                if let Err(e) = position(&mut it, fid_of(c, i)) {
                    return Exec::Unreachable(e);
                }
                returned.push(Some(*it.add_local(*dt)));
            }
        }
        let bytes = comp.encode();
        return Exec::Done(Actual { returned, bytes });
    }
    let mut module = Module::parse(input, false).expect("generated module parses");
    match c.api.as_str() {
        "builder" => {
            let results: Vec<DataType> = if c.params == 2 { vec![DataType::I32] } else { vec![] };
            let mut b = FunctionBuilder::new(&params_dt(c.params), &results);
            // split > 0: the first `split` locals through the builder, the rest through a modifier of the
            // finished function (the function's local bookkeeping must survive finish_module)
            let s = if c.split == 0 { dts.len() } else { (c.split as usize).min(dts.len()) };
            for dt in dts[..s].iter() {
                returned.push(Some(*b.add_local(*dt)));
            }
            if c.params == 2 {
                b.i32_const(7);
            }
            let fid = b.finish_module(&mut module);
            if s < dts.len() {
                let mut m = module.functions.get_fn_modifier(fid).expect("library: get_fn_modifier refuses a function added with finish_module");
                for dt in dts[s..].iter() {
                    returned.push(Some(*m.add_local(*dt)));
                }
            }
        }
        "modifier" => {
            let mut m = module.functions.get_fn_modifier(FunctionID(fid_of(c, 0))).expect("modifier of a local function");
            for dt in dts.iter() {
                returned.push(Some(*m.add_local(*dt)));
            }
        }
        "modifier-each" => {
            for (i, dt) in dts.iter().enumerate() {
                let mut m = module.functions.get_fn_modifier(FunctionID(fid_of(c, i))).expect("modifier of a local function");
                returned.push(Some(*m.add_local(*dt)));
            }
        }
        "add_locals" => {
            let mut m = module.functions.get_fn_modifier(FunctionID(fid_of(c, 0))).expect("modifier of a local function");
            let s = c.split as usize;
            if s == 0 {
                m.add_locals(&dts);
            } else {
                m.add_locals(&dts[..s]);
                m.add_locals(&dts[s..]);
            }
            returned = vec![None; dts.len()];
        }
        "add_locals+add_local" => {
            let mut m = module.functions.get_fn_modifier(FunctionID(fid_of(c, 0))).expect("modifier of a local function");
            let s = c.split as usize;
            m.add_locals(&dts[..s]);
            returned = vec![None; s];
            for dt in dts[s..].iter() {
                returned.push(Some(*m.add_local(*dt)));
            }
        }
        "module-iterator" => {
            let mut it = ModuleIterator::new(&mut module, &vec![]);
            for (i, dt) in dts.iter().enumerate() {
                if let Err(e) = position(&mut it, fid_of(c, i)) {
                    return Exec::Unreachable(e);
                }
                returned.push(Some(*it.add_local(*dt)));
            }
        }
        "local-function" => {
            for (i, dt) in dts.iter().enumerate() {
                returned.push(Some(*module.functions.unwrap_local(FunctionID(fid_of(c, i))).add_local(*dt)));
            }
        }
        other => panic!("harness: unknown api {}", other),
    }
    let bytes = module.encode();
    Exec::Done(Actual { returned, bytes })
}

fn run_case(c: &Case) -> Outcome {
    let module_bytes = build_module(c);
    if let Err(e) = crate::wasmutil::validate(&module_bytes, crate::wasmutil::features_core()) {
        return Outcome::skip(format!("input does not validate: {}", e));
    }
    let input = if c.api == "component-iterator" {
        let w = wrap_component(&module_bytes);
        if let Err(e) = crate::wasmutil::validate(&w, crate::wasmutil::features_component()) {
            return Outcome::skip(format!("input component does not validate: {}", e));
        }
        w
    } else {
        module_bytes.clone()
    };
    let before = match decode(&module_bytes) {
        Ok(v) => v,
        Err(e) => return Outcome::skip(format!("input undecodable: {}", e)),
    };
    let api = c.api.as_str();
    let interleaved = c.who.iter().any(|w| *w == 1);
    let mut o = Outcome::ok(format!(
        "{} k{} t{} p{} pre{} len{} split:{} il:{} merge-last:{} {}",
        api,
        c.k,
        c.target,
        c.params,
        c.pre,
        c.seq.len(),
        c.split,
        interleaved,
        c.seq.windows(2).any(|w| w[0] == w[1]),
        c.seq.iter().map(|t| if *t < 5 { 'n' } else { 'r' }).collect::<String>(),
    ));
    o.count("add_operations", c.seq.len() as u64);

    // ---- the model: expected returned indices and expected view
    let mut want = before.clone();
    let mut want_ret: Vec<u32> = vec![];
    if api == "builder" {
        let name = |t: &we::ValType| match t {
            we::ValType::I32 => "i32".to_string(),
            we::ValType::I64 => "i64".to_string(),
            we::ValType::F32 => "f32".to_string(),
            _ => "f64".to_string(),
        };
        let mut p: Vec<String> = params_of(c.params).iter().map(name).collect();
        let nparams = p.len();
        p.push("->".into());
        p.extend(results_of(c.params).iter().map(name));
        let mut l = vec![];
        for t in c.seq.iter() {
            want_ret.push((nparams + l.len()) as u32);
            l.push(ty_name(*t));
        }
        want.funcs.push((p, l));
    } else {
        for (i, t) in c.seq.iter().enumerate() {
            let ord = (fid_of(c, i) - c.k) as usize;
            let f = &mut want.funcs[ord];
            let nparams = f.0.iter().position(|s| s == "->").unwrap();
            want_ret.push((nparams + f.1.len()) as u32);
            f.1.push(ty_name(*t));
        }
    }

    // ---- the real code
    let actual = match catch(|| execute(c, &input)) {
        Ok(Exec::Done(a)) => a,
        Ok(Exec::Unreachable(e)) => return Outcome::skip(format!("iterator cannot be positioned (C25/C26's business): {}", e)),
        Err(p) => {
            o.observed = hash_of(&p.msg);
            if p.msg.starts_with("harness:") || p.msg.contains("generated module parses") || p.msg.contains("generated component parses") {
                // not the subject's add-local path: a valid input the library cannot parse belongs to C01/C03
                return Outcome::skip(format!("setup failed: {}", p.site()));
            }
            o.fail(
                format!("panic {} {}", api, p.site()),
                format!("{:?}: {} at {}:{}", c, p.msg, p.file, p.line),
            );
            return o;
        }
    };
    o.observed = hash_of(&(&actual.returned, &actual.bytes));

    // ---- clause 1: returned indices
    for (i, r) in actual.returned.iter().enumerate() {
        if let Some(r) = r {
            if *r != want_ret[i] {
                o.fail(
                    format!("returned-index {}", api),
                    format!("{:?}: add #{} ({}) returned local {} but params + declared + added so far = {}", c, i, ty_name(c.seq[i]), r, want_ret[i]),
                );
                break;
            }
        }
    }

    // ---- clause 2/3: encoded form
    let out_module = if api == "component-iterator" {
        match extract_core_module(&actual.bytes) {
            Ok(m) => m,
            Err(e) => {
                o.fail(format!("encoded-locals {} undecodable", api), format!("{:?}: {}", c, e));
                return o;
            }
        }
    } else {
        actual.bytes.clone()
    };
    let got = match decode(&out_module) {
        Ok(v) => v,
        Err(e) => {
            o.fail(format!("encoded-locals {} undecodable", api), format!("{:?}: {}", c, e));
            return o;
        }
    };
    if got.funcs.len() != want.funcs.len() {
        o.fail(
            format!("function-count {}", api),
            format!("{:?}: expected {} local functions, output has {}", c, want.funcs.len(), got.funcs.len()),
        );
        return o;
    }
    let touched: Vec<usize> = if api == "builder" {
        vec![want.funcs.len() - 1]
    } else {
        let mut v: Vec<usize> = (0..c.seq.len()).map(|i| (fid_of(c, i) - c.k) as usize).collect();
        if v.is_empty() {
            v.push(c.target as usize);
        }
        v.sort();
        v.dedup();
        v
    };
    let mut other_reported = false;
    for (ord, (w, g)) in want.funcs.iter().zip(got.funcs.iter()).enumerate() {
        if w == g {
            continue;
        }
        if !touched.contains(&ord) {
            if !other_reported {
                other_reported = true;
                o.fail(
                    format!("other-function-changed {}", api),
                    format!("{:?}: local function #{} was not touched; expected params {:?} locals {:?}, output has params {:?} locals {:?}", c, ord, w.0, w.1, g.0, g.1),
                );
            }
            continue;
        }
        if w.0 != g.0 {
            o.fail(
                format!("encoded-params {}", api),
                format!("{:?}: local function #{}: signature expected {:?}, output {:?}", c, ord, w.0, g.0),
            );
        }
        if w.1 != g.1 {
            let old_len = if api == "builder" { 0 } else { before.funcs[ord].1.len().min(w.1.len()) };
            let same_multiset = {
                let mut a = g.1.clone();
                let mut b = w.1.clone();
                a.sort();
                b.sort();
                a == b
            };
            let what = if g.1.len() != w.1.len() {
                "count".to_string()
            } else if same_multiset {
                "order".to_string()
            } else if g.1[..old_len] != w.1[..old_len] {
                "existing-local-changed".to_string()
            } else {
                // a type-specific conversion defect: name the requested type at the first difference
                let i = (0..w.1.len()).find(|i| w.1[*i] != g.1[*i]).unwrap();
                format!("type {}", w.1[i])
            };
            o.fail(
                format!("encoded-locals {} {}", api, what),
                format!("{:?}: local function #{}: expanded locals expected {:?}, output {:?}", c, ord, w.1, g.1),
            );
        }
    }
    o
}

/// all sequences of exactly `len` over the type alphabet
fn sequences(len: usize) -> Vec<Vec<u8>> {
    let mut all: Vec<Vec<u8>> = vec![vec![]];
    for _ in 0..len {
        let mut next = Vec::with_capacity(all.len() * NTYPES as usize);
        for v in all.iter() {
            for t in 0..NTYPES {
                let mut w = v.clone();
                w.push(t);
                next.push(w);
            }
        }
        all = next;
    }
    all
}

pub fn check(tier: Tier) -> i32 {
    let mut run = Run::new("C14", tier, "model_checking");
    let max_len = tier.pick(3usize, 4usize);
    let il_len = 3usize;
    run.rule = format!(
        "all sequences of length <= {} of add_local(ty), ty over {:?}, through builder / FunctionModifier::add_local (one modifier; a new modifier per add) / FunctionModifier::add_locals (whole sequence; every split into two calls; add_locals then add_local) / ModuleIterator / ComponentIterator (module wrapped in a component) / LocalFunction::add_local, on targets with 0,1,2 params (the 2-param target also has a result) x {} shapes of declared locals (run-length groups: none, 2xi32, i32+i64, i64+3xf32, i32|i32 as two groups, i32+empty i64 group) as first, middle or last of 3 local functions, with 0 or 1 imported function{}. Each history is replayed on a fresh parse, encoded and decoded with wasmparser; states = histories evaluated (every prefix of every sequence is itself a case), transitions = add operations executed. Non-trivial class = (api, k, target position, params, declared shape, length, split, interleaved, adjacent-equal types, numeric/reference pattern)",
        max_len,
        (0..NTYPES).map(ty_name).collect::<Vec<_>>(),
        NPRE,
        tier.pick(
            String::new(),
            format!("; interleaved histories of length <= {} over two functions (every non-constant assignment starting with the target, every ordered pair of functions) through modifier-each / ModuleIterator / ComponentIterator / LocalFunction", il_len)
        ),
    );
    let mut states = 0u64;
    let mut transitions = 0u64;
    let single_apis = ["modifier", "modifier-each", "module-iterator", "component-iterator", "local-function"];
    // smallest histories first; one chunk per (length, api) keeps the case list small
    for len in 0..=max_len {
        let seqs = sequences(len);
        // builder: params x k only (a built function has no previously declared locals)
        let mut cases = vec![];
        for k in 0..=1u32 {
            for params in 0..3u8 {
                for s in seqs.iter() {
                    cases.push(Case { api: "builder".into(), k, target: 0, params, pre: 0, seq: s.clone(), split: 0, who: vec![], other: 0 });
                    // ... and with the last 1 .. len-1 locals added through a modifier after finish_module
                    for split in 1..s.len() {
                        cases.push(Case { api: "builder".into(), k, target: 0, params, pre: 0, seq: s.clone(), split: split as u8, who: vec![], other: 0 });
                    }
                }
            }
        }
        states += cases.len() as u64;
        transitions += cases.iter().map(|c| c.seq.len() as u64).sum::<u64>();
        run.run_cases("builder", &cases, run_case);
        drop(cases);

        let configs = |f: &mut dyn FnMut(u32, u8, u8, u8)| {
            for k in 0..=1u32 {
                for target in 0..3u8 {
                    for params in 0..3u8 {
                        for pre in 0..NPRE {
                            f(k, target, params, pre);
                        }
                    }
                }
            }
        };
        for api in single_apis.iter() {
            // "modifier-each" with fewer than 2 adds is the same history as "modifier"
            if *api == "modifier-each" && len < 2 {
                continue;
            }
            let mut cases = vec![];
            configs(&mut |k, target, params, pre| {
                for s in seqs.iter() {
                    cases.push(Case { api: api.to_string(), k, target, params, pre, seq: s.clone(), split: 0, who: vec![], other: 0 });
                }
            });
            states += cases.len() as u64;
            transitions += cases.iter().map(|c| c.seq.len() as u64).sum::<u64>();
            run.run_cases(*api, &cases, run_case);
        }
        // add_locals: whole (split 0) and every split point 1..len-1; mixed with add_local: 1..len-1
        for (api, lo) in [("add_locals", 0usize), ("add_locals+add_local", 1usize)] {
            for split in lo..len.max(1) {
                if api == "add_locals+add_local" && len < 2 {
                    continue;
                }
                let mut cases = vec![];
                configs(&mut |k, target, params, pre| {
                    for s in seqs.iter() {
                        cases.push(Case { api: api.to_string(), k, target, params, pre, seq: s.clone(), split: split as u8, who: vec![], other: 0 });
                    }
                });
                states += cases.len() as u64;
                transitions += cases.iter().map(|c| c.seq.len() as u64).sum::<u64>();
                run.run_cases(api, &cases, run_case);
            }
        }
    }
    // interleaved histories (thorough)
    if tier == Tier::Thorough {
        for len in 2..=il_len {
            let seqs = sequences(len);
            // assignments starting with the target (0) that use the second function at least once
            let mut whos: Vec<Vec<u8>> = vec![];
            for mask in 1u32..(1 << (len - 1)) {
                let mut w = vec![0u8];
                for i in 0..len - 1 {
                    w.push(((mask >> i) & 1) as u8);
                }
                whos.push(w);
            }
            for api in ["modifier-each", "module-iterator", "component-iterator", "local-function"] {
                for who in whos.iter() {
                    let mut cases = vec![];
                    for k in 0..=1u32 {
                        for target in 0..3u8 {
                            for other in 0..3u8 {
                                if other == target {
                                    continue;
                                }
                                for params in 0..3u8 {
                                    for pre in 0..NPRE {
                                        for s in seqs.iter() {
                                            cases.push(Case { api: api.to_string(), k, target, params, pre, seq: s.clone(), split: 0, who: who.clone(), other });
                                        }
                                    }
                                }
                            }
                        }
                    }
                    states += cases.len() as u64;
                    transitions += cases.iter().map(|c| c.seq.len() as u64).sum::<u64>();
                    run.run_cases(&format!("interleaved {}", api), &cases, run_case);
                }
            }
        }
    }
    // locals added to a function that replaced an import
    let repl = replaced_cases();
    states += repl.len() as u64;
    transitions += repl.iter().map(|c| (c.built.len() + c.seq.len()) as u64).sum::<u64>();
    run.run_cases("function that replaced an import", &repl, run_replaced);
    run.states = Some(states);
    run.transitions = Some(transitions);
    run.extra.insert(
        "bounds".into(),
        serde_json::json!({"max_sequence_length": max_len, "value_types": NTYPES, "params": [0, 1, 2], "declared_local_shapes": NPRE, "target_positions": 3, "imports": [0, 1], "interleaved_max_length": if tier == Tier::Thorough { Some(il_len) } else { None }}),
    );
    run.assumptions.push("decoding by wasmparser 0.235 is correct; types are compared through wasmparser's ValType Display".into());
    run.assumptions.push("validation of the output is not part of the property and is not checked (non-nullable reference locals are requested on purpose)".into());
    run.assumptions.push("locals added during encode by semantic-after probes (create_bool_flag) are out of scope".into());
    run.assumptions.push("states = histories evaluated (no deduplication: two different histories never have the same expected local list and config), transitions = add operations executed by replay".into());
    run.finish()
}

// ---------------------------------------------------------------------------------------------
// locals added to a function that replaced an import (FunctionBuilder::replace_import_in_module)
// ---------------------------------------------------------------------------------------------
#[derive(Serialize, Deserialize, Clone, Debug)]
struct ReplCase {
    /// number of i32 params / i32 results of the import's type
    params: u8,
    results: u8,
    /// locals the builder declares before the replacement (type alphabet indices)
    built: Vec<u8>,
    /// locals added afterwards
    seq: Vec<u8>,
    /// 0 = FunctionModifier::add_local, 1 = ModuleIterator::add_local
    api: u8,
}

fn run_replaced(c: &ReplCase) -> Outcome {
    let mut o = Outcome::ok(format!("replaced-import p{} r{} built{} +{} api{}", c.params, c.results, c.built.len(), c.seq.len(), c.api));
    let ps = "i32 ".repeat(c.params as usize);
    let rs = "i32 ".repeat(c.results as usize);
    let wat = format!(
        r#"(module (type $t (func (param {}) (result {}))) (type $v (func)) (import "e" "other" (func (type $v))) (import "e" "f" (func $imp (type $t))) (func $l (type $v)) (export "x" (func $imp)))"#,
        ps, rs
    );
    let bytes = wat::parse_str(&wat).expect("harness: base assembles");
    let r = catch(|| {
        let mut module = Module::parse(&bytes, false).expect("harness: base parses");
        let imp = module.imports.find("e".to_string(), "f".to_string()).expect("library: imports.find does not find a live import");
        let params: Vec<DataType> = (0..c.params).map(|_| DataType::I32).collect();
        let results: Vec<DataType> = (0..c.results).map(|_| DataType::I32).collect();
        let mut fb = wirm::ir::function::FunctionBuilder::new(&params, &results);
        let mut ids = vec![];
        for t in c.built.iter() {
            ids.push(*fb.add_local(ty(*t).0));
        }
        for _ in 0..c.results {
            fb.i32_const(0);
        }
        fb.replace_import_in_module(&mut module, imp);
        // the replaced import is function 1 (behind the other import)
        let fid = FunctionID(1);
        if c.api == 0 {
            let mut fm = module.functions.get_fn_modifier(fid).expect("library: get_fn_modifier refuses the function that replaced an import");
            for t in c.seq.iter() {
                ids.push(*fm.add_local(ty(*t).0));
            }
        } else {
            let mut it = ModuleIterator::new(&mut module, &vec![]);
            position(&mut it, 1).expect("library: the module iterator does not reach the function that replaced an import");
            for t in c.seq.iter() {
                ids.push(*it.add_local(ty(*t).0));
            }
        }
        (ids, module.encode())
    });
    let (ids, out) = match r {
        Ok(x) => x,
        Err(p) => {
            if p.msg.starts_with("harness:") {
                panic!("{}", p.msg);
            }
            o.fail(format!("panic replaced-import {}", p.site()), format!("{} at {}:{}", p.msg, p.file, p.line));
            return o;
        }
    };
    o.observed = hash_of(&out);
    let v = match decode(&out) {
        Ok(v) => v,
        Err(e) => {
            o.fail("output-undecodable replaced-import", e);
            return o;
        }
    };
    // the function that replaced the import is the one with the import's signature
    let want_sig: Vec<String> = (0..c.params).map(|_| "i32".to_string()).chain(std::iter::once("->".to_string())).chain((0..c.results).map(|_| "i32".to_string())).collect();
    let Some((_, locals)) = v.funcs.iter().find(|(sig, _)| *sig == want_sig) else {
        o.fail("replaced-import function-missing", format!("no local function with signature {:?}", want_sig));
        return o;
    };
    let requested: Vec<u8> = c.built.iter().chain(c.seq.iter()).copied().collect();
    let want_locals: Vec<String> = requested.iter().map(|t| ty_name(*t)).collect();
    if *locals != want_locals {
        o.fail("encoded-locals replaced-import", format!("declared {:?}, requested {:?}", locals, want_locals));
    }
    for (j, id) in ids.iter().enumerate() {
        let want = c.params as u32 + j as u32;
        if *id != want {
            o.fail(
                format!("returned-index replaced-import {}", if j < c.built.len() { "builder" } else if c.api == 0 { "modifier" } else { "module-iterator" }),
                format!("local #{} ({}) of a function with {} params: returned index {}, expected {}", j, ty_name(requested[j]), c.params, id, want),
            );
        }
    }
    o
}

fn replaced_cases() -> Vec<ReplCase> {
    let mut v = vec![];
    for params in 0..=2u8 {
        for results in 0..=2u8 {
            for built in [vec![], vec![1u8], vec![0, 1]] {
                for seq in [vec![0u8], vec![3], vec![0, 3], vec![1, 1]] {
                    for api in 0..2u8 {
                        v.push(ReplCase { params, results, built: built.clone(), seq: seq.clone(), api });
                    }
                }
            }
        }
    }
    v
}

pub fn replay(_family: &str, case: &serde_json::Value) -> Vec<Mismatch> {
    if case.get("built").is_some() {
        return match serde_json::from_value::<ReplCase>(case.clone()) {
            Ok(c) => run_replaced(&c).mismatches,
            Err(e) => vec![Mismatch::new("replay-file-unreadable", e.to_string())],
        };
    }
    match serde_json::from_value::<Case>(case.clone()) {
        Ok(c) => run_case(&c).mismatches,
        Err(e) => vec![Mismatch::new("replay-file-unreadable", e.to_string())],
    }
}
