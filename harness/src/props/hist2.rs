//! C05, C09, C10, C11, C29 on top of the history explorer.
use crate::engine::*;
use crate::history::*;
use crate::props::hist::*;
use crate::world::*;
use serde_json::json;

const CFG1: EvalCfg = EvalCfg { encodes: 1, names: false };
const CFG3: EvalCfg = EvalCfg { encodes: 3, names: false };
const CFGN: EvalCfg = EvalCfg { encodes: 1, names: true };

fn is_delete(o: &Op) -> bool {
    matches!(o, Op::DeleteFunc(_) | Op::DeleteGlobal(_) | Op::DeleteMem(_) | Op::DeleteExport(_))
}

// ---------------------------------------------------------------------------------------------
// C05 — encoding again without edits gives the same bytes
// ---------------------------------------------------------------------------------------------
pub fn check_c05(tier: Tier) -> i32 {
    let mut run = Run::new("C05", tier, "model_checking");
    let depth = tier.pick(3, 4);
    run.rule = format!(
        "every state of the C06/C07/C08 history spaces (all histories of length <= {} over the function, global and memory alphabets on their base modules, and over the naming alphabet of C29 on its bases with complete name sections) is encoded three times in a row without edits; bytes1 = bytes2 = bytes3 and no later encoding may panic. (Instrumentation plans of C15-C21 are covered by the plan explorer's own re-encode clause, reported under C05 by `lowering`.) Non-trivial class = distinct operation multiset.",
        depth
    );
    let judge = |c: &Clause, _h: &[Op]| c.kind == ClauseKind::Reencode;
    let fa = fn_alphabet(false);
    let ga = global_alphabet();
    let ma = mem_alphabet();
    let fb = fn_bases();
    let gb = global_bases();
    let mb = mem_bases();
    // the bases with complete name sections: the name section is part of the bytes too
    let nb = c29_bases();
    let na = c29_alphabet();
    for (bases, alpha) in [(&fb, &fa as &(dyn Fn(&Model) -> Vec<Op> + Sync)), (&gb, &ga), (&mb, &ma), (&nb, &na)] {
        let s = Search { bases, depth, cfg: CFG3, enabled: alpha, judge: &judge, relevant: &|_| true, max_states: tier.pick(1_000_000, 30_000_000) };
        run_search(&mut run, &s);
    }
    run.extra.insert("depth_completed".into(), json!(depth));
    run.extra.insert("encodings_per_state".into(), json!(3));
    crate::props::lowering::reencode_family(&mut run, tier);
    run.finish()
}

// ---------------------------------------------------------------------------------------------
// C09 — deletion removes exactly the deleted entity
// ---------------------------------------------------------------------------------------------
pub fn check_c09(tier: Tier) -> i32 {
    let mut run = Run::new("C09", tier, "model_checking");
    let depth = tier.pick(3, 4);
    run.rule = format!(
        "the C06/C07/C08 history spaces (length <= {}) restricted to histories containing >= 1 deletion (function, global, memory - local or imported - and export), including deletions of entities that are still referenced. No dangling reference: exactly the deleted entities are absent from the encoded module and every other entity is present (token multisets per index space). Dangling reference: encoding must fail loudly (panic); an output in which the dangling site designates any entity is the violation; a site that is dropped (start section) is accepted. Non-trivial class = distinct operation multiset.",
        depth
    );
    let judge = |c: &Clause, _h: &[Op]| matches!(c.kind, ClauseKind::Dangling | ClauseKind::DupId) || c.sig.starts_with("entities ") || c.sig.starts_with("panic-encode") || c.sig.starts_with("panic-op Delete") || c.sig.starts_with("site export") && c.sig.contains(" extra")
        // after a deletion no surviving reference may designate another entity (for instance the later
        // items of an element segment from which a deleted function was silently dropped)
        || c.sig.contains(" wrong-entity")
        // ... nor may an element segment silently lose an item (every later table slot would shift)
        || c.sig.contains(" item-count");
    let relevant = |h: &[Op]| h.iter().any(is_delete);
    let fa = fn_alphabet(false);
    let ga = global_alphabet();
    let ma = mem_alphabet();
    let fb = fn_bases();
    let gb = global_bases();
    let mb = mem_bases();
    for (bases, alpha) in [(&fb, &fa as &(dyn Fn(&Model) -> Vec<Op> + Sync)), (&gb, &ga), (&mb, &ma)] {
        let s = Search { bases, depth, cfg: CFG1, enabled: alpha, judge: &judge, relevant: &relevant, max_states: tier.pick(1_000_000, 30_000_000) };
        run_search(&mut run, &s);
    }
    run.extra.insert("depth_completed".into(), json!(depth));
    run.assumptions.push("lenient reading where the text is silent: a start section whose function was deleted may be dropped (the library warns); an export of a deleted entity must not be emitted".into());
    run.finish()
}

// ---------------------------------------------------------------------------------------------
// C10 — replacing an import with a built function redirects all its uses
// ---------------------------------------------------------------------------------------------
pub fn c10_bases() -> Vec<Base> {
    let mut v = vec![];
    let others = [
        "(import \"env\" \"xg\" (global i32))",
        "(import \"env\" \"xm\" (memory 1))",
        "(import \"env\" \"xt\" (table 1 funcref))",
        "(import \"env\" \"xtag\" (tag))",
    ];
    // every subset of the 4 gaps around 3 function imports receives a non-function import
    for mask in 0..16u32 {
        let mut imports = String::new();
        for gap in 0..4 {
            if mask & (1 << gap) != 0 {
                imports.push_str(others[gap]);
                imports.push('\n');
            }
            if gap < 3 {
                imports.push_str(&format!("(import \"env\" \"fi{}\" (func $fi{} (type $v)))\n", gap, gap));
            }
        }
        let wat = format!(
            r#"(module (type $v (func)) {}
              (table $t 8 funcref)
              (func $l0 (type $v) (i32.const 0x5F000000) drop
                 (i32.const 0x51000000) drop (call $fi0)
                 (i32.const 0x51000001) drop (call $fi1)
                 (i32.const 0x51000002) drop (call $fi2)
                 (i32.const 0x51000003) drop (call $l1))
              (func $l1 (type $v) (i32.const 0x5F000001) drop)
              (export "e_fi0" (func $fi0)) (export "e_fi2" (func $fi2)) (export "e_l1" (func $l1)) (start $fi1)
              (elem (table $t) (i32.const 0) func $fi0 $fi1 $fi2 $l1) (elem declare func $fi0 $fi1 $fi2 $l0 $l1))"#,
            imports
        );
        v.push(Base::from_wat(&format!("mixed-imports-{:04b}", mask), &wat, false));
    }
    v
}

pub fn c10_alphabet() -> impl Fn(&Model) -> Vec<Op> + Sync {
    |m: &Model| {
        let mut ops = vec![];
        // every live function import can be replaced: the parsed ones, added ones, and imports that a
        // local function was converted to
        for f in m.funcs.iter().filter(|f| f.live && f.import.is_some()) {
            ops.push(Op::ImportToLocal(f.handle));
        }
        // at most one other edit per history (kept small: the property is about the replacement)
        let others = m.funcs.iter().filter(|f| f.import.as_ref().map(|(mo, _)| mo == "added" || mo == "conv").unwrap_or(false)).count()
            + m.funcs.iter().filter(|f| f.import.is_none() && f.marker.map(|k| k >= 2).unwrap_or(false) && f.sites.is_empty() && !f.name_any).count()
            + m.funcs.iter().filter(|f| !f.live).count();
        if others == 0 {
            ops.push(Op::AddImportFunc);
            ops.push(Op::AddLocalFunc { calls: None });
            for f in m.funcs.iter().filter(|f| f.live && f.import.is_none() && !f.name_any) {
                ops.push(Op::LocalToImport(f.handle));
            }
        }
        // one injected call of an import into $l0 (through the iterator and in function-entry mode through
        // the modifier) - a use of the import that lives in instrumentation, not in the parsed code - and
        // one report / encoding before the final one
        let base_sites: usize = 4;
        if let Some(owner) = m.funcs.iter().find(|f| f.live && f.import.is_none() && f.marker == Some(0)) {
            if owner.sites.len() <= base_sites {
                for f in m.funcs.iter().filter(|f| f.live && f.import.is_some()) {
                    for api in [0u8, 5u8] {
                        ops.push(Op::InjectFn { owner: owner.handle, kind: 0, target: f.handle, api });
                    }
                }
            }
        }
        if m.encodes == 0 {
            ops.push(Op::EncodeNow);
            ops.push(Op::PullNow);
        }
        ops
    }
}

pub fn check_c10(tier: Tier) -> i32 {
    let mut run = Run::new("C10", tier, "model_checking");
    let depth = tier.pick(3, 4);
    let bases = c10_bases();
    run.rule = format!(
        "16 base modules = every placement of non-function imports (global, memory, table, tag) in the 4 gaps around 3 function imports, each import referenced from calls, exports, an element segment and start; all histories of length <= {} over: replace function import i (obtained the documented way, imports.find(module,name), then FunctionBuilder::replace_import_in_module) for every i, in every order and subset, interleaved with <= 1 other edit (add import / add local function / convert a local function to an import - added and converted imports are replaced too), <= 1 call of an import injected into $l0 (iterator before-code, or function-entry code through the modifier) and <= 1 encode() / pull_side_effects() before the final encoding. Oracle: the import is gone, every former site of it designates the function carrying the new body's marker, all other entities and sites are unchanged, the output validates.",
        depth
    );
    let judge = |c: &Clause, _h: &[Op]| matches!(c.kind, ClauseKind::Func | ClauseKind::Generic | ClauseKind::DupId);
    let relevant = |h: &[Op]| h.iter().any(|o| matches!(o, Op::ImportToLocal(_)));
    let alpha = c10_alphabet();
    let s = Search { bases: &bases, depth, cfg: CFG1, enabled: &alpha, judge: &judge, relevant: &relevant, max_states: 2_000_000 };
    run_search(&mut run, &s);
    run.extra.insert("depth_completed".into(), json!(depth));
    run.finish()
}

// ---------------------------------------------------------------------------------------------
// C11 — converting a local function to an import redirects all its uses
// ---------------------------------------------------------------------------------------------
pub fn c11_alphabet() -> impl Fn(&Model) -> Vec<Op> + Sync {
    |m: &Model| {
        let mut ops = vec![];
        for f in m.funcs.iter().filter(|f| f.live && f.import.is_none()) {
            ops.push(Op::LocalToImport(f.handle));
            if m.twin_type {
                ops.push(Op::LocalToImportTwin(f.handle));
            }
        }
        if m.funcs.iter().filter(|f| f.live && f.import.as_ref().map(|(mo, _)| mo == "added").unwrap_or(false)).count() < 2 {
            ops.push(Op::AddImportFunc);
        }
        // at most one deletion of a function nothing refers to (it shifts the import block)
        if m.funcs.iter().all(|f| f.live) {
            for f in m.funcs.iter().filter(|f| f.live) {
                if !m.referenced(crate::view::Kind::Func, f.handle) {
                    ops.push(Op::DeleteFunc(f.handle));
                }
            }
        }
        ops
    }
}

pub fn check_c11(tier: Tier) -> i32 {
    let mut run = Run::new("C11", tier, "model_checking");
    let depth = tier.pick(3, 5);
    let bases: Vec<Base> = fn_bases().into_iter().filter(|b| b.name != "fn-empty" && b.name != "fn-imports-only").collect();
    run.rule = format!(
        "all histories of length <= {} over: convert local function h to an import (module \"conv\", fresh name, its own type - or, on the base with twin types, the structurally identical type 1, which the import section must then declare) for every live local function, in every order and subset, interleaved with <= 2 import additions and <= 1 deletion of an unreferenced function, on {} base modules (every reference-site kind). Oracle: the converted body's marker is gone from the code section, an import (conv, name) exists, every former site of the function designates that import, all other functions keep their identity, the output validates.",
        depth,
        bases.len()
    );
    let judge = |c: &Clause, _h: &[Op]| matches!(c.kind, ClauseKind::Func | ClauseKind::Generic | ClauseKind::DupId);
    let relevant = |h: &[Op]| h.iter().any(|o| matches!(o, Op::LocalToImport(_) | Op::LocalToImportTwin(_)));
    let alpha = c11_alphabet();
    let s = Search { bases: &bases, depth, cfg: CFG1, enabled: &alpha, judge: &judge, relevant: &relevant, max_states: 2_000_000 };
    run_search(&mut run, &s);
    run.extra.insert("depth_completed".into(), json!(depth));
    run.finish()
}

// ---------------------------------------------------------------------------------------------
// C29 — names stay attached to their entities
// ---------------------------------------------------------------------------------------------
pub fn c29_bases() -> Vec<Base> {
    let named = r#"(module $modname (type $v (func))
      (import "env" "fi0" (func $imp_a (type $v)))
      (import "env" "gi0" (global $gimp_a i32))
      (import "env" "fi1" (func $imp_b (type $v)))
      (import "env" "fspare" (func $imp_spare (type $v)))
      (import "env" "gspare" (global $gimp_spare i32))
      (memory $mem 1) (table $tab 4 funcref)
      (global $g_a (mut i32) (i32.const 0x60000000))
      (global $g_b i32 (i32.const 0x60000001))
      (global $g_spare (mut i32) (i32.const 0x60000002))
      (func $loc_a (type $v) (local $x i32) (local $y i64) (i32.const 0x5F000000) drop
         (i32.const 0x51000000) drop (call $imp_a)
         (i32.const 0x51000001) drop (call $loc_b)
         (i32.const 0x51000002) drop (global.get $g_b) drop)
      (func $loc_b (type $v) (local $p f32) (i32.const 0x5F000001) drop)
      (func $loc_spare (type $v) (local $q f64) (local $r i32) (i32.const 0x5F000002) drop)
      (export "e" (func $loc_b)) (elem declare func $imp_a $imp_b $loc_a $loc_b))"#;
    let unnamed_imports = r#"(module (type $v (func))
      (import "env" "fi0" (func (type $v)))
      (import "env" "fspare" (func (type $v)))
      (global $g_a (mut i32) (i32.const 0x60000000))
      (global $g_spare (mut i32) (i32.const 0x60000002))
      (func $loc_a (type $v) (local $x i32) (i32.const 0x5F000000) drop (i32.const 0x51000000) drop (call 0))
      (func $loc_b (type $v) (local $p f32) (local $p2 f32) (i32.const 0x5F000001) drop)
      (func (type $v) (i32.const 0x5F000002) drop))"#;
    vec![Base::from_wat("named-all", named, false), Base::from_wat("named-locals-only", unnamed_imports, false)]
}

pub fn c29_alphabet() -> impl Fn(&Model) -> Vec<Op> + Sync {
    |m: &Model| {
        let mut ops = vec![Op::AddImportFunc, Op::AddLocalFunc { calls: None }, Op::AddImportedGlobal, Op::AddGlobal { init: GInit::Const, mutable: true, api: 0 }];
        for f in m.funcs.iter().filter(|f| f.live) {
            // deletions that leave no dangling reference
            if !m.referenced(crate::view::Kind::Func, f.handle) {
                ops.push(Op::DeleteFunc(f.handle));
            }
            if f.import.is_none() {
                ops.push(Op::LocalToImport(f.handle));
            } else {
                ops.push(Op::ImportToLocal(f.handle));
            }
            ops.push(Op::SetFnName { h: f.handle, api: 0 });
            ops.push(Op::SetFnName { h: f.handle, api: 1 });
        }
        for g in m.globals.iter().filter(|g| g.live) {
            if !m.referenced(crate::view::Kind::Global, g.handle) {
                ops.push(Op::DeleteGlobal(g.handle));
            }
        }
        ops
    }
}

pub fn check_c29(tier: Tier) -> i32 {
    let mut run = Run::new("C29", tier, "model_checking");
    let depth = tier.pick(2, 3);
    let bases = c29_bases();
    run.rule = format!(
        "all histories of length <= {} over index-shifting edits (add import / local function / imported global / local global, delete the unreferenced entities, local->import, import->local) and naming calls (Module::set_fn_name, imports.set_name / functions.set_local_fn_name) on 2 base modules with complete name sections (module, functions incl. imports, locals, globals). Oracle on the decoded name section of every state's encoding: every function name sits on the function token it was attached to in the input or by a naming call, every local-name map on its function token, every global name on its global token; a name on an entity that never had one is a violation; functions converted between local and import may carry any or no name (unspecified).",
        depth
    );
    let judge = |c: &Clause, _h: &[Op]| c.kind == ClauseKind::Names;
    let alpha = c29_alphabet();
    let s = Search { bases: &bases, depth, cfg: CFGN, enabled: &alpha, judge: &judge, relevant: &|_| true, max_states: 2_000_000 };
    run_search(&mut run, &s);
    run.extra.insert("depth_completed".into(), json!(depth));
    run.finish()
}

pub fn replay(id: &str, case: &serde_json::Value) -> Vec<Mismatch> {
    let mut bases = fn_bases();
    bases.extend(global_bases());
    bases.extend(mem_bases());
    bases.extend(c10_bases());
    bases.extend(c29_bases());
    match id {
        "C05" => replay_history(&bases, case, CFG3, &|c, _| c.kind == ClauseKind::Reencode),
        "C09" => replay_history(&bases, case, CFG1, &|c, _| matches!(c.kind, ClauseKind::Dangling | ClauseKind::DupId) || c.sig.starts_with("entities ") || c.sig.starts_with("panic-") || c.sig.contains(" wrong-entity") || c.sig.contains(" item-count") || c.sig.starts_with("site export") && c.sig.contains(" extra")),
        "C29" => replay_history(&bases, case, CFGN, &|c, _| c.kind == ClauseKind::Names),
        _ => replay_history(&bases, case, CFG1, &|c, _| matches!(c.kind, ClauseKind::Func | ClauseKind::Generic | ClauseKind::DupId)),
    }
}
