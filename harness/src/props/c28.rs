//! C28 — Custom sections are preserved and edited exactly.
//!
//! Inputs are built WITHOUT wirm: a small module that has all 13 standard sections (from `wat`) is cut
//! into its section byte ranges and re-assembled with hand-encoded custom sections at any of the 14
//! positions between/around them (+ optionally a `name` section). Edits follow the API
//! (`custom_sections.add / delete / get_section_data_mut`), in lock-step with the reference model, a plain
//! `Vec<(String, Vec<u8>)>` in which IDs are positions (what `get_id`/`add` hand out; `delete(i)` removes
//! element i and later positions shift down; an out-of-range id is a no-op / `None`).
//! Oracle after `encode` (decoded with wasmparser only):
//!  * the ordered list of non-`name` custom sections (names, bytes) equals the list model;
//!  * the module with ALL custom sections stripped prints (wasmprinter) exactly like the input stripped
//!    the same way (nothing else changes);
//!  * at most one `name` section exists (a `name` section of the input is not duplicated into the list).
//! Not judged (property text silent): where in the binary the custom sections are emitted (wirm emits
//! them at the end), the content of the `name` section (C02/C29), an always-emitted empty name section.
//! Two families: "placement" = every input (names x payloads x positions) x {no edit, every single edit};
//! "edit histories" = every edit sequence up to the bound on a reduced input set; every history prefix is a
//! case of its own, so the invariant is evaluated in every state.
use crate::engine::*;
use crate::wasmutil;
use serde::{Deserialize, Serialize};
use wirm::ir::id::CustomSectionID;
use wirm::ir::types::CustomSection;
use wirm::Module;

const NAMES: [&str; 5] = ["", "a", "producers", "target_features", "xxxxxxxxxxxxxxxxxxxxxxxxxxxxxxxxxxxxxxxx"];
const PRODUCERS: usize = 2;

/// payload `p` (0,1,2) for name `n`: {empty, 1 byte, 300 bytes}; for "producers" three WELL-FORMED payloads
/// {zero fields (1 byte), one field, one field with a ~300-byte version string}
fn payload(n: usize, p: usize) -> Vec<u8> {
    fn s(out: &mut Vec<u8>, t: &[u8]) {
        wasmutil::leb_u32(out, t.len() as u32);
        out.extend_from_slice(t);
    }
    if n == PRODUCERS {
        let mut v = vec![];
        match p {
            0 => v.push(0),
            _ => {
                v.push(1);
                s(&mut v, b"language");
                v.push(1);
                s(&mut v, b"Rust");
                let ver: Vec<u8> = if p == 1 { b"1".to_vec() } else { (0..280u32).map(|i| b'0' + (i % 10) as u8).collect() };
                s(&mut v, &ver);
            }
        }
        v
    } else {
        match p {
            0 => vec![],
            1 => vec![0xAB],
            _ => (0..300u32).map(|i| (i % 251) as u8).collect(),
        }
    }
}

#[derive(Serialize, Deserialize, Clone, Debug, PartialEq, Eq)]
struct Sec {
    name: usize,
    payload: usize,
    /// 0 = before the type section ... 13 = after the data section
    pos: usize,
}

#[derive(Serialize, Deserialize, Clone, Debug, PartialEq, Eq)]
enum Edit {
    Add { name: usize, payload: usize },
    Delete { id: u32 },
    Push { id: u32 },
    Clear { id: u32 },
    Replace { id: u32 },
    /// look the section up by name (`custom_sections.get_id(name)`: the first section of that name) and
    /// append a byte through the ID it returns; nothing happens if there is none
    PushByName { name: usize },
}
impl Edit {
    fn kind(&self, live: usize) -> String {
        let oor = |id: &u32| if (*id as usize) >= live { "-oor" } else { "" };
        match self {
            Edit::Add { .. } => "add".to_string(),
            Edit::Delete { id } => format!("delete{}", oor(id)),
            Edit::Push { id } => format!("push{}", oor(id)),
            Edit::Clear { id } => format!("clear{}", oor(id)),
            Edit::Replace { id } => format!("replace{}", oor(id)),
            Edit::PushByName { .. } => "push-by-name".to_string(),
        }
    }
}

#[derive(Serialize, Deserialize, Clone, Debug)]
struct Case {
    secs: Vec<Sec>,
    /// 0: no name section; 1: name section right after the data section (before customs at position 13);
    /// 2: name section at the very end
    name_sec: u8,
    edits: Vec<Edit>,
}

// ---------------------------------------------------------------------------------------------
// the host module and its section ranges
// ---------------------------------------------------------------------------------------------
const HOST_WAT: &str = r#"(module
  (type (func))
  (type (func (param i32)))
  (import "e" "f" (func (type 0)))
  (func (type 0) nop)
  (func (type 1) (param i32) (local i64) local.get 0 drop data.drop 0)
  (table 2 funcref)
  (memory 1)
  (tag (type 1))
  (global (mut i32) (i32.const 7))
  (export "f1" (func 1))
  (export "m" (memory 0))
  (start 1)
  (elem (i32.const 0) func 1)
  (data (i32.const 0) "hi"))"#;

struct Host {
    /// the 13 standard sections, complete (id, size, content), in binary order
    sections: Vec<Vec<u8>>,
    bytes: Vec<u8>,
    text: String,
    name_section: Vec<u8>,
}

fn host() -> &'static Result<Host, String> {
    static H: std::sync::OnceLock<Result<Host, String>> = std::sync::OnceLock::new();
    H.get_or_init(|| {
        let bytes = wat::parse_str(HOST_WAT).map_err(|e| e.to_string())?;
        let mut sections = vec![];
        let mut ids = vec![];
        for p in wasmparser::Parser::new(0).parse_all(&bytes) {
            let p = p.map_err(|e| e.to_string())?;
            if let Some((id, range)) = p.as_section() {
                if id == 0 {
                    return Err("host module has a custom section".into());
                }
                let mut s = vec![id];
                wasmutil::leb_u32(&mut s, (range.end - range.start) as u32);
                s.extend_from_slice(&bytes[range]);
                sections.push(s);
                ids.push(id);
            }
        }
        // type import function table memory tag global export start element datacount code data
        if ids != vec![1, 2, 3, 4, 5, 13, 6, 7, 8, 9, 12, 10, 11] {
            return Err(format!("host module section ids {:?}: not all 13 standard sections", ids));
        }
        let mut re = bytes[..8].to_vec();
        for s in sections.iter() {
            re.extend_from_slice(s);
        }
        if re != bytes {
            return Err("host module does not re-assemble from its sections".into());
        }
        wasmutil::validate(&bytes, wasmutil::features_core())?;
        let text = wasmutil::print_text(&bytes)?;
        // a name section: module name, function names (import + local), a local name
        let mut ns = wasm_encoder::NameSection::new();
        ns.module("host");
        let mut f = wasm_encoder::NameMap::new();
        f.append(0, "imp");
        f.append(2, "second");
        ns.functions(&f);
        let mut l = wasm_encoder::NameMap::new();
        l.append(0, "p");
        let mut il = wasm_encoder::IndirectNameMap::new();
        il.append(2, &l);
        ns.locals(&il);
        let name_section = {
            let mut m = wasm_encoder::Module::new();
            m.section(&ns);
            m.finish()[8..].to_vec()
        };
        Ok(Host { sections, bytes, text, name_section })
    })
}

fn custom_bytes(name: &str, data: &[u8]) -> Vec<u8> {
    let mut body = vec![];
    wasmutil::leb_u32(&mut body, name.len() as u32);
    body.extend_from_slice(name.as_bytes());
    body.extend_from_slice(data);
    let mut s = vec![0u8];
    wasmutil::leb_u32(&mut s, body.len() as u32);
    s.extend_from_slice(&body);
    s
}

fn build_input(h: &Host, c: &Case) -> Vec<u8> {
    let mut out = h.bytes[..8].to_vec();
    for pos in 0..=13 {
        if pos == 13 && c.name_sec == 1 {
            out.extend_from_slice(&h.name_section);
        }
        for s in c.secs.iter().filter(|s| s.pos == pos) {
            out.extend_from_slice(&custom_bytes(NAMES[s.name], &payload(s.name, s.payload)));
        }
        if pos < 13 {
            out.extend_from_slice(&h.sections[pos]);
        }
    }
    if c.name_sec == 2 {
        out.extend_from_slice(&h.name_section);
    }
    out
}

fn count_name_sections(bytes: &[u8]) -> usize {
    let mut n = 0;
    for p in wasmparser::Parser::new(0).parse_all(bytes).flatten() {
        if let wasmparser::Payload::CustomSection(c) = p {
            if c.name() == "name" {
                n += 1;
            }
        }
    }
    n
}

/// evaluate one state (input + edit history) against the oracle
fn judge(c: &Case) -> Outcome {
    let h = match host() {
        Ok(h) => h,
        Err(e) => return Outcome::skip(format!("host module unusable: {}", e)),
    };
    let input = build_input(h, c);
    if let Err(e) = wasmutil::validate(&input, wasmutil::features_core()) {
        return Outcome::skip(format!("generated input does not validate: {}", e));
    }
    // the generator itself is checked against the independent decoder
    let mut model: Vec<(String, Vec<u8>)> =
        c.secs.iter().map(|s| (NAMES[s.name].to_string(), payload(s.name, s.payload))).collect();
    match wasmutil::custom_sections(&input) {
        Ok(l) if l == model => {}
        _ => return Outcome::skip("generator: input custom sections differ from the intended list"),
    }
    let mut o = Outcome::ok("");
    let mut kinds: Vec<String> = vec![];
    // reference model, in lock-step
    let mut live = model.len();
    for e in c.edits.iter() {
        kinds.push(e.kind(live));
        match e {
            Edit::Add { name, payload: p } => model.push((NAMES[*name].to_string(), payload(*name, *p))),
            Edit::Delete { id } => {
                if (*id as usize) < model.len() {
                    model.remove(*id as usize);
                }
            }
            Edit::Push { id } => {
                if let Some(s) = model.get_mut(*id as usize) {
                    s.1.push(0x5A)
                }
            }
            Edit::Clear { id } => {
                if let Some(s) = model.get_mut(*id as usize) {
                    s.1.clear()
                }
            }
            Edit::Replace { id } => {
                if let Some(s) = model.get_mut(*id as usize) {
                    s.1 = vec![1, 2, 3]
                }
            }
            Edit::PushByName { name } => {
                if let Some(s) = model.iter_mut().find(|s| s.0 == NAMES[*name]) {
                    s.1.push(0x5B)
                }
            }
        }
        live = model.len();
    }
    let mut pos: Vec<String> = c.secs.iter().map(|s| s.pos.to_string()).collect();
    pos.dedup();
    let dup_names = {
        let mut n: Vec<usize> = c.secs.iter().map(|s| s.name).collect();
        n.sort();
        let l = n.len();
        n.dedup();
        n.len() != l
    };
    let has_zero_field_producers = c.secs.iter().any(|s| s.name == PRODUCERS && s.payload == 0);
    o.class = format!(
        "secs{}@{}{}{}:name{}:{}",
        c.secs.len(),
        pos.join("/"),
        if dup_names { ":dupnames" } else { "" },
        if has_zero_field_producers { ":producers0" } else { "" },
        c.name_sec,
        kinds.join(",")
    );
    let last = kinds.last().cloned().unwrap_or_else(|| "parse".to_string());

    // the real thing
    let parsed = catch(|| Module::parse(&input, false));
    let mut module = match parsed {
        Ok(Ok(m)) => m,
        Ok(Err(e)) => {
            o.fail("parse-error valid-input", format!("{:?} on {:?}", e, c));
            return o;
        }
        Err(p) => {
            o.fail(format!("panic parse {}", p.site()), format!("{} at {}:{} on {:?}", p.msg, p.file, p.line, c.secs));
            return o;
        }
    };
    let res = catch(move || {
        for e in c.edits.iter() {
            match e {
                Edit::Add { name, payload: p } => {
                    module.custom_sections.add(CustomSection::new(NAMES[*name], payload(*name, *p)));
                }
                Edit::Delete { id } => module.custom_sections.delete(CustomSectionID(*id)),
                Edit::Push { id } => {
                    if let Some(v) = module.custom_sections.get_section_data_mut(CustomSectionID(*id)) {
                        v.push(0x5A);
                    }
                }
                Edit::Clear { id } => {
                    if let Some(v) = module.custom_sections.get_section_data_mut(CustomSectionID(*id)) {
                        v.clear();
                    }
                }
                Edit::Replace { id } => {
                    if let Some(v) = module.custom_sections.get_section_data_mut(CustomSectionID(*id)) {
                        *v = vec![1, 2, 3];
                    }
                }
                Edit::PushByName { name } => {
                    if let Some(id) = module.custom_sections.get_id(NAMES[*name].to_string()) {
                        if let Some(v) = module.custom_sections.get_section_data_mut(id) {
                            v.push(0x5B);
                        }
                    }
                }
            }
        }
        let first = module.encode();
        // the sections belong to the module, not to one encoding: asking for the report and encoding
        // again must give the same bytes
        let _ = module.pull_side_effects();
        let again = module.encode();
        (first, again)
    });
    let (out, again) = match res {
        Ok(b) => b,
        Err(p) => {
            o.fail(format!("panic edit-or-encode {}", p.site()), format!("{} at {}:{} on {:?}", p.msg, p.file, p.line, c));
            return o;
        }
    };
    o.observed = hash_of(&out);
    o.count("edits", c.edits.len() as u64);
    if again != out {
        let what = match wasmutil::custom_sections(&again) {
            Ok(g) => format!("custom sections of the later encoding: {:?}", g.iter().map(|(n, d)| (n.clone(), d.len())).collect::<Vec<_>>()),
            Err(e) => format!("later encoding undecodable: {}", e),
        };
        o.fail(format!("later-encoding differs after-{}", last), format!("encode(); pull_side_effects(); encode() gives other bytes the second time; {}", what));
    }

    let got = match wasmutil::custom_sections(&out) {
        Ok(g) => g,
        Err(e) => {
            o.fail("output-undecodable", e);
            return o;
        }
    };
    if got != model {
        // direction by multiset comparison: same sections in another order / some missing / some extra /
        // some section with another name or content
        let dir = {
            let mut a = got.clone();
            let mut b = model.clone();
            a.sort();
            b.sort();
            let sub = |x: &Vec<(String, Vec<u8>)>, y: &Vec<(String, Vec<u8>)>| {
                let mut y = y.clone();
                x.iter().all(|e| match y.iter().position(|f| f == e) {
                    Some(i) => {
                        y.remove(i);
                        true
                    }
                    None => false,
                })
            };
            if a == b {
                "order-differs"
            } else if sub(&a, &b) {
                "section-missing"
            } else if sub(&b, &a) {
                "section-extra"
            } else {
                "section-differs"
            }
        };
        let show = |l: &Vec<(String, Vec<u8>)>| {
            l.iter().map(|x| format!("{:?}[{}B #{:x}]", x.0, x.1.len(), hash_of(&x.1) & 0xffff)).collect::<Vec<_>>().join(" ")
        };
        o.fail(
            format!("custom-list {} after-{}", dir, last),
            format!("expected [{}], encoded [{}]; case {:?}", show(&model), show(&got), c),
        );
    }
    let n = count_name_sections(&out);
    if n > 1 {
        o.fail("name-section-duplicated", format!("{} sections called `name` in the output; case {:?}", n, c));
    }
    // nothing else changes
    match wasmutil::strip_custom_sections(&out, |_| true) {
        Ok(stripped) => {
            if stripped != h.bytes {
                // byte-identical to the input's stripped form needs no printing; otherwise compare texts
                match wasmutil::print_text(&stripped) {
                    Ok(t) => {
                        if t != h.text {
                            o.fail(
                                format!("rest-of-module-changed after-{}", last),
                                format!("text of the module without custom sections differs: {} vs {} bytes of text; case {:?}", t.len(), h.text.len(), c),
                            );
                        }
                    }
                    Err(e) => o.fail("output-unprintable", e),
                }
            }
        }
        Err(e) => o.fail("output-undecodable", e),
    }
    if let Err(e) = wasmutil::validate(&out, wasmutil::features_core()) {
        o.fail("output-invalid", format!("{}; case {:?}", e, c));
    }
    o
}

/// A failing state is reported with the mismatches of the SHORTEST failing prefix of its history (that
/// prefix is a case of the space too): the signature names the edit at which model and implementation
/// first diverge, so one defective operation gives one signature however the history continues.
fn run_case(c: &Case) -> Outcome {
    let o = judge(c);
    if o.mismatches.is_empty() || c.edits.is_empty() {
        return o;
    }
    for k in 0..c.edits.len() {
        let prefix = Case { secs: c.secs.clone(), name_sec: c.name_sec, edits: c.edits[..k].to_vec() };
        let pk = judge(&prefix);
        if !pk.mismatches.is_empty() {
            let mut o = o;
            o.mismatches = pk
                .mismatches
                .into_iter()
                .map(|m| Mismatch::new(m.sig, format!("(diverges after {} of {} edits) {}", k, c.edits.len(), m.detail)))
                .collect();
            return o;
        }
    }
    o
}

// ---------------------------------------------------------------------------------------------
// enumeration
// ---------------------------------------------------------------------------------------------
/// all (name, payload) atoms
fn atoms() -> Vec<(usize, usize)> {
    let mut v = vec![];
    for n in 0..NAMES.len() {
        for p in 0..3 {
            v.push((n, p));
        }
    }
    v
}
/// reduced atom set of the history family
const SMALL_ATOMS: [(usize, usize); 4] = [(0, 0), (1, 1), (1, 2), (3, 1)];
const SMALL_ADDS: [(usize, usize); 4] = [(0, 0), (1, 1), (1, 2), (2, 1)];

fn edit_menu(live: usize, adds: &[(usize, usize)]) -> Vec<Edit> {
    let mut v = vec![];
    for (n, p) in adds {
        v.push(Edit::Add { name: *n, payload: *p });
    }
    // every live id and one out-of-range id
    for id in 0..=live as u32 {
        v.push(Edit::Delete { id });
    }
    for id in 0..=live as u32 {
        v.push(Edit::Push { id });
        v.push(Edit::Clear { id });
        v.push(Edit::Replace { id });
    }
    // by name: a name that occurs (possibly twice) and one that may not
    for name in [0usize, 1] {
        v.push(Edit::PushByName { name });
    }
    v
}

fn live_after(n0: usize, edits: &[Edit]) -> usize {
    let mut n = n0;
    for e in edits {
        match e {
            Edit::Add { .. } => n += 1,
            Edit::Delete { id } if (*id as usize) < n => n -= 1,
            _ => {}
        }
    }
    n
}

fn histories(n0: usize, adds: &[(usize, usize)], depth: usize, cur: &mut Vec<Edit>, out: &mut Vec<Vec<Edit>>) {
    out.push(cur.clone());
    if depth == 0 {
        return;
    }
    for e in edit_menu(live_after(n0, cur), adds) {
        cur.push(e);
        histories(n0, adds, depth - 1, cur, out);
        cur.pop();
    }
}

/// all non-decreasing position tuples of length k over 0..=13
fn position_tuples(k: usize) -> Vec<Vec<usize>> {
    fn go(k: usize, from: usize, cur: &mut Vec<usize>, out: &mut Vec<Vec<usize>>) {
        if k == 0 {
            out.push(cur.clone());
            return;
        }
        for p in from..=13 {
            cur.push(p);
            go(k - 1, p, cur, out);
            cur.pop();
        }
    }
    let mut out = vec![];
    go(k, 0, &mut vec![], &mut out);
    out
}

fn atom_tuples(k: usize, set: &[(usize, usize)]) -> Vec<Vec<(usize, usize)>> {
    let mut out: Vec<Vec<(usize, usize)>> = vec![vec![]];
    for _ in 0..k {
        let mut next = vec![];
        for t in out.iter() {
            for a in set {
                let mut t2 = t.clone();
                t2.push(*a);
                next.push(t2);
            }
        }
        out = next;
    }
    out
}

pub fn check(tier: Tier) -> i32 {
    let mut run = Run::new("C28", tier, "model_checking");
    let max_secs = tier.pick(2usize, 3usize);
    let hist_depth = tier.pick(2usize, 3usize);
    run.rule = format!(
        "host module with all 13 standard sections; placement family: every list of <= {ms} custom sections over 5 names (\"\", \"a\" (twice = duplicate), producers [well-formed payloads: 0 fields / 1 field / ~300 B], target_features, 40 chars) x 3 payloads (empty, 1 B, 300 B) at every non-decreasing tuple of the 14 positions x name section {{absent, after data, at the very end}} x {{no edit, every single edit: add(15 atoms), delete(each live id + 1 out of range), push/clear/replace(each live id + 1 out of range)}} (lists of 3 sections: single edits with 4 add atoms and without name section; un-edited under every name-section variant); history family: every edit sequence of length <= {hd} (4 add atoms) on every list of <= 3 sections over 4 atoms at spread positions (0, 7, 13) x name section {{absent, at end}}; each history prefix is a state, rebuilt by parse + replay; reference = Vec list model with positional ids; non-trivial class = (#sections, positions, duplicate names?, name-section variant, edit kinds incl. out-of-range)",
        ms = max_secs,
        hd = hist_depth
    );
    if let Err(e) = host() {
        run.machinery_error(format!("host module: {}", e));
        return run.finish();
    }
    let mut states = 0u64;
    let mut transitions = 0u64;
    let all = atoms();

    // ---- placement family
    // lists of <= 2 sections: all 15 add atoms as single edits under every name-section variant;
    // lists of 3 sections (thorough): single edits with the 4 add atoms of the history family and without a
    // name section, plus the un-edited round trip under every name-section variant
    for k in 0..=max_secs {
        let ats = atom_tuples(k, &all);
        let reduced = k >= 3;
        let menu = {
            let mut m: Vec<Vec<Edit>> = vec![vec![]];
            for e in edit_menu(k, if reduced { &SMALL_ADDS[..] } else { &all[..] }) {
                m.push(vec![e]);
            }
            m
        };
        for pt in position_tuples(k) {
            let mut cases = vec![];
            let name_variants: &[u8] = if pt.contains(&13) { &[0, 1, 2] } else { &[0, 1] };
            for at in ats.iter() {
                let secs: Vec<Sec> = at.iter().zip(pt.iter()).map(|(a, p)| Sec { name: a.0, payload: a.1, pos: *p }).collect();
                for nv in name_variants {
                    for edits in menu.iter() {
                        if reduced && *nv != 0 && !edits.is_empty() {
                            continue;
                        }
                        cases.push(Case { secs: secs.clone(), name_sec: *nv, edits: edits.clone() });
                    }
                }
            }
            states += cases.len() as u64;
            transitions += cases.iter().map(|c| c.edits.len() as u64).sum::<u64>();
            run.run_cases("placement", &cases, run_case);
        }
    }

    // ---- history family
    let spread = [0usize, 7, 13];
    // (lists of 3 sections in both tiers: a same-named pair with another section between them needs 3)
    for k in 0..=3usize {
        let mut hs = vec![];
        histories(k, &SMALL_ADDS, hist_depth, &mut vec![], &mut hs);
        for at in atom_tuples(k, &SMALL_ATOMS) {
            let secs: Vec<Sec> = at.iter().enumerate().map(|(i, a)| Sec { name: a.0, payload: a.1, pos: spread[i] }).collect();
            let mut cases = vec![];
            for nv in [0u8, 2] {
                for h in hs.iter() {
                    cases.push(Case { secs: secs.clone(), name_sec: nv, edits: h.clone() });
                }
            }
            states += cases.len() as u64;
            transitions += cases.iter().map(|c| c.edits.len() as u64).sum::<u64>();
            run.run_cases("edit histories", &cases, run_case);
        }
    }
    run.states = Some(states);
    run.transitions = Some(transitions);
    run.traces_validated = Some(states);
    run.extra.insert("max_custom_sections".into(), serde_json::json!(max_secs));
    run.extra.insert("max_history_length".into(), serde_json::json!(hist_depth));
    run.assumptions.push("IDs of custom sections are positions in the collection (get_id/add), delete shifts later ids down; placement of custom sections in the output and the content of the name section are not part of the property".into());
    run.assumptions.push("producers payloads are well-formed (malformed ones are C03's business); the zero-field payload is a separate axis (class suffix producers0)".into());
    run.finish()
}

pub fn replay(_family: &str, case: &serde_json::Value) -> Vec<Mismatch> {
    match serde_json::from_value::<Case>(case.clone()) {
        Ok(c) => run_case(&c).mismatches,
        Err(e) => vec![Mismatch::new("machinery replay-case-unreadable", e.to_string())],
    }
}
