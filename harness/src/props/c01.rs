//! C01 — unmodified parse-then-encode yields a valid module.
//! C02 — unmodified round trip preserves module content.
//! Both are decided over the same input families; each reports only its own oracle clauses.
use crate::engine::*;
use crate::opgen::{self, ScaffoldCfg};
use crate::wasmutil::*;
use serde::{Deserialize, Serialize};
use wirm::Module;

#[derive(Serialize, Deserialize, Clone, Debug)]
pub struct Case {
    /// family-specific description (operator instance, type x position, shape fragments, file)
    pub desc: String,
    /// class key for the distinct/non-trivial count
    pub class: String,
    pub bytes_hex: String,
    /// parse with the multi-memory flag
    pub multi_memory: bool,
    /// single-memory input: additionally encode with the other flag value and require identical bytes
    pub both_flags: bool,
}

fn hex(b: &[u8]) -> String {
    let mut s = String::with_capacity(b.len() * 2);
    for x in b {
        s.push_str(&format!("{:02x}", x));
    }
    s
}
pub fn unhex(s: &str) -> Vec<u8> {
    (0..s.len() / 2).map(|i| u8::from_str_radix(&s[2 * i..2 * i + 2], 16).unwrap_or(0)).collect()
}

fn mask_digits(s: &str) -> String {
    // validator messages end in " (at offset 0x..)": not part of the cause
    let s = match s.find(" (at offset") {
        Some(i) => &s[..i],
        None => s,
    };
    let mut out = String::new();
    let mut prev_hash = false;
    for c in s.chars() {
        if c.is_ascii_digit() {
            if !prev_hash {
                out.push('#');
            }
            prev_hash = true;
        } else {
            out.push(c);
            prev_hash = false;
        }
    }
    out
}

/// first differing line of two texts reduced to the differing token span
fn text_diff_sig(a: &str, b: &str) -> (String, String) {
    let (sig, detail) = text_diff_sig_raw(a, b);
    (sig, detail)
}

fn toks(line: &str) -> Vec<String> {
    line.replace('(', " ").replace(')', " ").split_whitespace().map(|s| s.to_string()).collect()
}

/// Signature of a text difference: the sets of tokens removed / added on the first differing
/// line (parentheses ignored, digits masked, repeated tokens collapsed), so that one root cause
/// (e.g. `exnref` printed back as `(ref exn)`) gives one signature wherever it occurs.
fn text_diff_sig_raw(a: &str, b: &str) -> (String, String) {
    let la: Vec<&str> = a.lines().collect();
    let lb: Vec<&str> = b.lines().collect();
    let n = la.len().min(lb.len());
    let mut i = 0;
    while i < n && la[i] == lb[i] {
        i += 1;
    }
    let (x, y) = (la.get(i).copied().unwrap_or("<eof>"), lb.get(i).copied().unwrap_or("<eof>"));
    let tx = toks(x);
    let ty = toks(y);
    // multiset difference
    let mut removed: Vec<String> = vec![];
    let mut rest = ty.clone();
    for t in tx.iter() {
        if let Some(p) = rest.iter().position(|r| r == t) {
            rest.remove(p);
        } else {
            removed.push(mask_digits(t));
        }
    }
    let mut added: Vec<String> = rest.iter().map(|t| mask_digits(t)).collect();
    removed.sort();
    removed.dedup();
    added.sort();
    added.dedup();
    let sig = if removed.is_empty() && added.is_empty() {
        // same tokens, different order or line count
        if la.len() != lb.len() { format!("line-count") } else { format!("token-order {}", mask_digits(tx.first().map(|s| s.as_str()).unwrap_or(""))) }
    } else {
        format!("{{{}}} -> {{{}}}", removed.join(","), added.join(","))
    };
    (sig, format!("line {}: input `{}` output `{}`", i + 1, x.trim(), y.trim()))
}

pub struct Judged {
    pub c01: Vec<Mismatch>,
    pub c02: Vec<Mismatch>,
    pub skipped: Option<String>,
    pub observed: u64,
}

pub fn judge(bytes: &[u8], multi_memory: bool, both_flags: bool) -> Judged {
    let mut j = Judged { c01: vec![], c02: vec![], skipped: None, observed: 0 };
    let feats = features_core();
    if let Err(e) = validate(bytes, feats) {
        j.skipped = Some(format!("input invalid: {}", mask_digits(&e.chars().take(60).collect::<String>())));
        return j;
    }
    let run = |flag: bool| -> Result<Result<Vec<u8>, String>, PanicInfo> {
        catch(|| match Module::parse(bytes, flag) {
            Ok(mut m) => Ok(m.encode()),
            Err(e) => Err(format!("{}", e)),
        })
    };
    let out = match run(multi_memory) {
        Err(p) => {
            j.c01.push(Mismatch::new(format!("panic {}", p.site()), format!("{} at {}:{}", p.msg, p.file, p.line)));
            return j;
        }
        Ok(Err(e)) => {
            j.c01.push(Mismatch::new(format!("parse-error {}", mask_digits(&e.chars().take(60).collect::<String>())), e));
            return j;
        }
        Ok(Ok(o)) => o,
    };
    j.observed = hash_of(&out);
    if both_flags {
        match run(!multi_memory) {
            Ok(Ok(o2)) => {
                if o2 != out {
                    j.c01.push(Mismatch::new("flag-dependent-output single-memory", "encoding a single-memory module differs between enable_multi_memory=true and false"));
                }
            }
            Ok(Err(e)) => j.c01.push(Mismatch::new(format!("parse-error-other-flag {}", mask_digits(&e.chars().take(60).collect::<String>())), e)),
            Err(p) => j.c01.push(Mismatch::new(format!("panic-other-flag {}", p.site()), p.msg)),
        }
    }
    // C01: output validates
    if let Err(e) = validate(&out, feats) {
        j.c01.push(Mismatch::new(format!("invalid-output {}", mask_digits(&e.chars().take(70).collect::<String>())), e));
    }
    // C02: text of non-custom sections, names, custom list
    let strip = |b: &[u8]| strip_custom_sections(b, |n| n != "name");
    match (strip(bytes).and_then(|b| print_text(&b)), strip(&out).and_then(|b| print_text(&b))) {
        (Ok(a), Ok(b)) => {
            if a != b {
                let (sig, detail) = text_diff_sig(&a, &b);
                j.c02.push(Mismatch::new(format!("text-differs {}", sig), detail));
            }
        }
        (Err(e), _) => {
            j.skipped = Some(format!("input not printable: {}", mask_digits(&e.chars().take(40).collect::<String>())));
            return j;
        }
        (_, Err(e)) => j.c02.push(Mismatch::new("output-not-printable", e)),
    }
    match (decode_names(bytes), decode_names(&out)) {
        (Ok(a), Ok(b)) => {
            if a != b {
                let mut which = vec![];
                if a.module != b.module {
                    which.push("module".to_string());
                }
                for k in a.flat.keys().chain(b.flat.keys()) {
                    if a.flat.get(k).cloned().unwrap_or_default() != b.flat.get(k).cloned().unwrap_or_default() && !which.contains(&k.to_string()) {
                        which.push(k.to_string());
                    }
                }
                for k in a.indirect.keys().chain(b.indirect.keys()) {
                    if a.indirect.get(k).cloned().unwrap_or_default() != b.indirect.get(k).cloned().unwrap_or_default() && !which.contains(&k.to_string()) {
                        which.push(k.to_string());
                    }
                }
                j.c02.push(Mismatch::new(format!("names-differ {}", which.join(",")), format!("input names {:?} output names {:?}", a, b)));
            }
        }
        (Err(_), _) => {}
        (_, Err(e)) => j.c02.push(Mismatch::new("output-names-undecodable", e)),
    }
    match (custom_sections(bytes), custom_sections(&out)) {
        (Ok(a), Ok(b)) => {
            if a != b {
                j.c02.push(Mismatch::new(
                    "custom-sections-differ",
                    format!("input {:?} output {:?}", a.iter().map(|x| (&x.0, x.1.len())).collect::<Vec<_>>(), b.iter().map(|x| (&x.0, x.1.len())).collect::<Vec<_>>()),
                ));
            }
        }
        _ => {}
    }
    j
}

// ---------------------------------------------------------------------------------------------
// families
// ---------------------------------------------------------------------------------------------
fn operator_family(cap: usize) -> (Vec<Case>, Vec<(String, String)>) {
    let mut cases = vec![];
    let mut ops_seen: Vec<(String, String)> = vec![];
    for inst in opgen::all_instances(cap) {
        if !opgen::in_scope(inst.proposal) {
            continue;
        }
        if !ops_seen.iter().any(|(_, n)| n == inst.name) {
            ops_seen.push((inst.proposal.to_string(), inst.name.to_string()));
        }
        let mut cfgs = vec![ScaffoldCfg::default()];
        let dbg = format!("{:?}", inst.op);
        if dbg.contains("memarg") || dbg.contains("mem:") || dbg.contains("src_mem") {
            cfgs.push(ScaffoldCfg { shared_mem: true, ..Default::default() });
            cfgs.push(ScaffoldCfg { mem64: true, ..Default::default() });
        }
        for (ci, cfg) in cfgs.iter().enumerate() {
            if let Ok(bytes) = opgen::scaffold_with(Some((inst.name, &inst.op)), *cfg) {
                cases.push(Case {
                    desc: format!("op {} #{} cfg{} {}", inst.name, inst.variant, ci, dbg.chars().take(120).collect::<String>()),
                    class: format!("op:{}:{}", inst.name, ci),
                    bytes_hex: hex(&bytes),
                    multi_memory: true,
                    both_flags: false,
                });
            }
        }
    }
    (cases, ops_seen)
}

const NUM_TYPES: &[&str] = &["i32", "i64", "f32", "f64", "v128"];
const HEAPS: &[&str] = &["func", "extern", "any", "none", "noextern", "nofunc", "eq", "struct", "array", "i31", "exn", "noexn", "$s", "$f", "$a"];

fn type_family() -> Vec<Case> {
    let mut types: Vec<(String, Option<String>)> = vec![]; // (type text, default-value expr if defaultable)
    for t in NUM_TYPES {
        let zero = match *t {
            "v128" => "(v128.const i32x4 0 0 0 0)".to_string(),
            t => format!("({}.const 0)", t),
        };
        types.push((t.to_string(), Some(zero)));
    }
    for h in HEAPS {
        types.push((format!("(ref null {})", h), Some(format!("(ref.null {})", h))));
        let init = match *h {
            "func" | "$f" => Some("(ref.func $decl)".to_string()),
            "$s" | "struct" | "eq" | "any" => Some("(struct.new_default $s)".to_string()),
            "$a" | "array" => Some("(array.new_default $a (i32.const 0))".to_string()),
            "i31" => Some("(ref.i31 (i32.const 1))".to_string()),
            _ => None,
        };
        types.push((format!("(ref {})", h), init));
    }
    let prelude = "(type $s (struct (field (mut i32)))) (type $f (func)) (type $a (array (mut i32))) (func $decl (type $f)) (elem declare func $decl)";
    let mut cases = vec![];
    let mut push = |pos: &str, ty: &str, body: String| {
        let text = format!("(module {} {})", prelude, body);
        if let Ok(bytes) = wat::parse_str(&text) {
            cases.push(Case {
                desc: format!("type {} at {}", ty, pos),
                class: format!("type:{}:{}", ty, pos),
                bytes_hex: hex(&bytes),
                multi_memory: false,
                both_flags: true,
            });
        }
    };
    for (t, init) in types.iter() {
        push("param", t, format!("(func (param {}) unreachable)", t));
        push("result", t, format!("(func (result {}) unreachable)", t));
        push("multi-result", t, format!("(func (result i32 {}) unreachable)", t));
        push("local", t, format!("(func (local {}) unreachable)", t));
        push("local-rle", t, format!("(func (local i32 {} {} i64) unreachable)", t, t));
        push("blocktype", t, format!("(func (block (result {}) unreachable) drop)", t));
        push("looptype", t, format!("(func (loop (result {}) unreachable) drop)", t));
        push("iftype", t, format!("(func (if (result {}) (i32.const 0) (then unreachable) (else unreachable)) drop)", t));
        push("functype-block", t, format!("(type $bt (func (param {}) (result {})))(func unreachable (block (type $bt)) drop)", t, t));
        push("select", t, format!("(func unreachable (select (result {})) drop)", t));
        push("tag-param", t, format!("(tag (param {}))", t));
        push("import-func-param", t, format!("(import \"e\" \"f\" (func (param {})))", t));
        push("import-global", t, format!("(import \"e\" \"g\" (global {}))", t));
        push("import-global-mut", t, format!("(import \"e\" \"g\" (global (mut {})))", t));
        push("struct-field", t, format!("(type (struct (field {}) (field (mut {}))))", t, t));
        push("array-elem", t, format!("(type (array (mut {})))", t));
        push("func-type-in-rec", t, format!("(rec (type (func (param {}))) (type (struct)))", t));
        // a value flows from one typed position into another one: some positions go through the IR's own
        // type representation (params, results, locals, fields), others are emitted from the parsed
        // operator or section (block types, select, global and table types) - a type that comes back
        // wider or narrower on one of the two paths makes the flow ill-typed
        push("flow-param-to-block", t, format!("(func (param {}) (drop (block (result {}) (local.get 0))))", t, t));
        push("flow-block-to-local", t, format!("(func (param {}) (local {}) (local.set 1 (block (result {}) (local.get 0))) (drop (local.get 1)))", t, t, t));
        push("flow-param-to-select", t, format!("(func (param {}) (drop (select (result {}) (local.get 0) (local.get 0) (i32.const 1))))", t, t));
        push("flow-select-to-result", t, format!("(func (param {}) (result {}) (select (result {}) (local.get 0) (local.get 0) (i32.const 1)))", t, t, t));
        push("flow-param-to-import-global", t, format!("(import \"e\" \"g\" (global $ig (mut {}))) (func (param {}) (global.set $ig (local.get 0)))", t, t));
        push("flow-import-global-to-local", t, format!("(import \"e\" \"g\" (global $ig (mut {}))) (func (param {}) (local.set 0 (global.get $ig)))", t, t));
        if t.starts_with("(ref") {
            push("flow-param-to-table", t, format!("(import \"e\" \"t\" (table $it 1 {})) (func (param {}) (table.set $it (i32.const 0) (local.get 0)))", t, t));
            push("flow-table-to-local", t, format!("(import \"e\" \"t\" (table $it 1 {})) (func (param {}) (local.set 0 (table.get $it (i32.const 0))))", t, t));
        }
        if let Some(init) = init {
            // positions where a VALUE of the type flows into the typed position, so that a type that
            // silently became stricter (e.g. lost nullability) makes the output ill-typed
            push("result-value", t, format!("(func (result {}) {})", t, init));
            push("local-value", t, format!("(func (local {}) (local.set 0 {}) (drop (local.get 0)))", t, init));
            push("param-value", t, format!("(func $callee (param {})) (func (call $callee {}))", t, init));
            push("block-value", t, format!("(func (drop (block (result {}) {})))", t, init));
            push("struct-field-value", t, format!("(type $sv (struct (field (mut {})))) (func (drop (struct.new $sv {})))", t, init));
            push("array-elem-value", t, format!("(type $av (array (mut {}))) (func (drop (array.new $av {} (i32.const 1))))", t, init));
            push("local-default", t, format!("(func (local {}) (drop (local.get 0)))", t));
            push("global", t, format!("(global {} {})", t, init));
            push("global-mut", t, format!("(global (mut {}) {})", t, init));
        }
        if t.starts_with("(ref") {
            let h = t.trim_start_matches("(ref null ").trim_start_matches("(ref ").trim_end_matches(')');
            push("ref.null", t, format!("(func (ref.null {}) drop)", h));
            push("ref.test", t, format!("(func unreachable (ref.test {}) drop)", t));
            push("ref.cast", t, format!("(func unreachable (ref.cast {}) drop)", t));
            push("import-table", t, format!("(import \"e\" \"t\" (table 1 {}))", t));
            if t.starts_with("(ref null") {
                push("table", t, format!("(table 1 {})", t));
                push("elem-passive", t, format!("(elem {} (ref.null {}))", t, h));
                push("elem-active", t, format!("(table 2 {}) (elem (table 0) (i32.const 0) {} (ref.null {}))", t, t, h));
            } else if let Some(init) = init {
                push("table-init", t, format!("(table 1 {} {})", t, init));
                push("elem-passive", t, format!("(elem {} {})", t, init));
            }
        }
        push("storage-i8", "i8", "(type (struct (field i8) (field (mut i16)))) (type (array i16))".to_string());
    }
    cases
}

/// base shape + fragments; every subset of <= k fragments is appended to the base
fn shape_fragments() -> Vec<(&'static str, &'static str)> {
    vec![
        ("mem-min", "(memory 1)"),
        ("mem-minmax", "(memory 1 2)"),
        ("mem-shared", "(memory 1 2 shared)"),
        ("mem-64", "(memory i64 1)"),
        ("mem-64-max", "(memory i64 1 65537)"),
        ("mem-import", "(import \"e\" \"mem\" (memory 1 3))"),
        ("table-min", "(table 1 funcref)"),
        ("table-minmax", "(table 1 2 externref)"),
        ("table-init", "(table 1 funcref (ref.func $f))"),
        ("table-64", "(table i64 1 funcref)"),
        ("table-import", "(import \"e\" \"tab\" (table 1 funcref))"),
        ("global-i32", "(global i32 (i32.const -1))"),
        ("global-mut-i64", "(global (mut i64) (i64.const -9223372036854775808))"),
        ("global-f32-nan", "(global f32 (f32.const nan:0x200000))"),
        ("global-f64-nan", "(global f64 (f64.const -nan:0x4000000000001))"),
        ("global-v128", "(global v128 (v128.const i32x4 0x80000000 1 2 0xffffffff))"),
        ("global-get", "(global i32 (global.get $gi))"),
        ("global-reffunc", "(global funcref (ref.func $f))"),
        ("global-refnull", "(global externref (ref.null extern))"),
        ("global-struct", "(type $st (struct (field i32))) (global (ref $st) (struct.new $st (i32.const 5)))"),
        ("global-struct-default", "(type $sd (struct (field i32))) (global (ref $sd) (struct.new_default $sd))"),
        ("global-array", "(type $ar (array i32)) (global (ref $ar) (array.new $ar (i32.const 5) (i32.const 2)))"),
        ("global-array-default", "(type $ad (array i32)) (global (ref $ad) (array.new_default $ad (i32.const 2)))"),
        ("global-array-fixed", "(type $af (array i32)) (global (ref $af) (array.new_fixed $af 2 (i32.const 1) (i32.const 2)))"),
        ("global-i31", "(global (ref i31) (ref.i31 (i32.const 7)))"),
        ("global-anyconvert", "(global anyref (ref.null any))"),
        ("export-func", "(export \"ef\" (func $f))"),
        ("export-func-import", "(export \"efi\" (func $fi))"),
        ("export-global", "(export \"eg\" (global $g))"),
        ("export-mem", "(export \"em\" (memory 0))"),
        ("export-table", "(export \"et\" (table 0))"),
        ("export-tag", "(tag $tg) (export \"etag\" (tag $tg))"),
        ("start", "(start $f)"),
        ("tag", "(tag (param i32 i64))"),
        ("tag-import", "(import \"e\" \"tag\" (tag (param i32)))"),
        ("elem-active-idx", "(elem (i32.const 0) func $f $fi)"),
        ("elem-active-idx-global-offset", "(elem (offset (global.get $gi)) func $f)"),
        ("elem-passive-idx", "(elem func $f $f)"),
        ("elem-declare-idx", "(elem declare func $fi)"),
        ("elem-active-table-idx", "(elem (table $t) (i32.const 1) func $f)"),
        ("elem-active-expr", "(elem (i32.const 0) funcref (ref.func $f) (ref.null func))"),
        ("elem-passive-expr", "(elem funcref (ref.func $fi) (ref.null func))"),
        ("elem-declare-expr", "(elem declare funcref (ref.func $f))"),
        ("elem-active-table-expr", "(elem (table $t) (offset (i32.const 1)) funcref (ref.null func))"),
        ("elem-passive-externref", "(elem externref (ref.null extern))"),
        ("elem-empty", "(elem func)"),
        ("data-active", "(data (i32.const 8) \"abc\")"),
        ("data-active-global-offset", "(data (offset (global.get $gi)) \"\\00\\ff\")"),
        ("data-passive", "(data \"xyz\\00\")"),
        ("data-empty", "(data \"\")"),
        ("data-passive+datacount-use", "(data $dp \"q\") (func (data.drop $dp))"),
        ("type-rec", "(rec (type $r1 (struct (field (ref null $r2)))) (type $r2 (struct (field (ref null $r1)))))"),
        ("type-sub", "(type $sup (sub (struct (field i32)))) (type $subt (sub $sup (struct (field i32) (field i64))))"),
        ("type-sub-final", "(type $sf (sub final (struct)))"),
        ("type-func-sub", "(type $fs (sub (func))) (type $fs2 (sub final $fs (func)))"),
        ("type-array-packed", "(type (array (mut i8)))"),
        ("type-dup-func", "(type (func)) (type (func))"),
        ("type-rec-single", "(rec (type (func (param i32))))"),
        ("type-rec-empty", "(rec)"),
        ("func-locals", "(func (param i32) (local i32 i32 i64 f32 f32) (local v128) (drop (local.get 6)))"),
        // the same local type in two runs that are not adjacent, every local used at its own type
        ("func-locals-split-runs", "(func (param f32) (local i32 i64 i32 f64 i64) (local.set 1 (i32.const 1)) (local.set 2 (i64.const 2)) (local.set 3 (i32.const 3)) (local.set 4 (f64.const 4)) (local.set 5 (i64.const 5)) (drop (i64.add (local.get 2) (local.get 5))) (drop (i32.add (local.get 1) (local.get 3))))"),
        ("func-locals-ref-runs", "(func (local funcref externref funcref (ref null $v)) (local.set 0 (ref.null func)) (local.set 1 (ref.null extern)) (local.set 2 (ref.func $f)) (local.set 3 (ref.null $v)))"),
        ("func-multi-value", "(func (result i32 i64) (i32.const 1) (i64.const 2))"),
        ("func-block-type-idx", "(type $bt (func (param i32) (result i32 i32))) (func (i32.const 0) (block (type $bt) (i32.const 1)) drop drop)"),
        ("func-br-table", "(func (param i32) (block (block (br_table 0 1 0 (local.get 0)))))"),
        ("func-call-indirect", "(func (call_indirect $t (type $v) (i32.const 0)))"),
        ("func-try-table", "(tag $e (param i32)) (func (block (result i32) (try_table (catch $e 0) (throw $e (i32.const 1))) (i32.const 0)) drop)"),
        ("func-throw-ref", "(func (param exnref) (throw_ref (local.get 0)))"),
        ("func-return-call", "(func (return_call $f))"),
        ("func-return-call-indirect", "(func (return_call_indirect $t (type $v) (i32.const 0)))"),
        ("func-call-ref", "(func (call_ref $v (ref.func $f)))"),
        ("func-simd", "(func (result v128) (i8x16.shuffle 0 1 2 3 4 5 6 7 8 9 10 11 12 13 14 31 (v128.const i64x2 1 2) (v128.const f32x4 1.5 nan -0 inf)))"),
        ("func-atomic", "(func (drop (i32.atomic.rmw.add offset=8 (i32.const 0) (i32.const 1))) (atomic.fence))"),
        ("func-memory-ops", "(func (memory.fill (i32.const 0) (i32.const 0) (i32.const 0)) (memory.copy (i32.const 0) (i32.const 0) (i32.const 0)) (drop (memory.grow (i32.const 0))) (drop (memory.size)))"),
        ("func-table-ops", "(func (table.set $t (i32.const 0) (table.get $t (i32.const 0))) (drop (table.grow $t (ref.null func) (i32.const 0))) (drop (table.size $t)) (table.fill $t (i32.const 0) (ref.null func) (i32.const 0)) (table.copy $t $t (i32.const 0) (i32.const 0) (i32.const 0)))"),
        ("func-gc-ops", "(type $gs (struct (field (mut i8)))) (func (local (ref null $gs)) (local.set 0 (struct.new $gs (i32.const 1))) (drop (struct.get_s $gs 0 (local.get 0))) (drop (ref.test (ref $gs) (local.get 0))) (drop (ref.cast (ref null $gs) (local.get 0))))"),
        ("func-br-on-cast", "(type $bs (struct)) (func (param anyref) (result (ref $bs)) (block (result anyref) (br_on_cast 1 anyref (ref $bs) (local.get 0))) unreachable)"),
        ("func-select-t", "(func (result funcref) (select (result funcref) (ref.null func) (ref.func $f) (i32.const 1)))"),
        ("func-f32-nan-const", "(func (drop (f32.const nan:0x1)) (drop (f64.const nan:0x8000000000001)))"),
        ("func-sat-signext", "(func (drop (i32.trunc_sat_f32_s (f32.const 1))) (drop (i64.extend32_s (i64.const 1))))"),
        // typed operands over memories / tables of mixed index type: an index that ends up on the wrong
        // memory or table changes the operand types the validator demands (seeded mutant C01/b)
        ("mm-copy-mixed", "(memory $m64 i64 1) (func (memory.copy $m64 $m (i64.const 0) (i32.const 0) (i32.const 0)) (memory.copy $m $m64 (i32.const 0) (i64.const 0) (i32.const 0)) (memory.copy $m64 $m64 (i64.const 0) (i64.const 0) (i64.const 0)))"),
        ("mm-load-store-mixed", "(memory $m64 i64 1) (func (i64.store $m64 offset=4294967296 (i64.const 0) (i64.load $m64 (i64.const 8))) (i32.store $m (i32.const 0) (i32.load $m offset=8 (i32.const 8))) (i32.store8 $m64 (i64.const 1) (i32.load16_u $m (i32.const 2))))"),
        ("mm-size-grow-mixed", "(memory $m64 i64 1) (func (drop (memory.grow $m64 (i64.const 0))) (drop (i64.eqz (memory.size $m64))) (drop (memory.grow $m (i32.const 0))) (drop (i32.eqz (memory.size $m))))"),
        ("mm-init-fill-mixed", "(memory $m64 i64 1) (data $pd \"abcd\") (func (memory.init $m64 $pd (i64.const 0) (i32.const 0) (i32.const 2)) (memory.init $m $pd (i32.const 0) (i32.const 0) (i32.const 2)) (memory.fill $m64 (i64.const 0) (i32.const 1) (i64.const 2)) (memory.fill $m (i32.const 0) (i32.const 1) (i32.const 2)))"),
        ("mm-atomic-simd-mixed", "(memory $m64 i64 1) (func (drop (i32.atomic.rmw.add $m64 (i64.const 0) (i32.const 1))) (drop (i64.atomic.load $m64 (i64.const 8))) (drop (i32.atomic.rmw.cmpxchg $m (i32.const 0) (i32.const 1) (i32.const 2))) (drop (v128.load $m64 (i64.const 0))) (v128.store64_lane $m 1 (i32.const 0) (v128.const i64x2 1 2)) (drop (v128.load8_lane $m64 3 (i64.const 0) (v128.const i64x2 1 2))))"),
        ("mm-data-active-mixed", "(memory $m64 i64 1) (data (memory $m64) (i64.const 3) \"64\") (data (memory $m) (i32.const 3) \"32\")"),
        ("t64-copy-mixed", "(table $t64 i64 2 funcref) (func (table.copy $t64 $t (i64.const 0) (i32.const 0) (i32.const 0)) (table.copy $t $t64 (i32.const 0) (i64.const 0) (i32.const 0)))"),
        ("t64-ops-mixed", "(table $t64 i64 2 funcref) (elem $pe func $f) (func (table.set $t64 (i64.const 0) (table.get $t (i32.const 0))) (drop (table.grow $t64 (ref.null func) (i64.const 0))) (drop (i64.eqz (table.size $t64))) (table.fill $t64 (i64.const 0) (ref.null func) (i64.const 0)) (table.init $t64 $pe (i64.const 0) (i32.const 0) (i32.const 1)) (table.init $t $pe (i32.const 0) (i32.const 0) (i32.const 1)) (call_indirect $t64 (type $v) (i64.const 0)))"),
        ("t64-elem-active-mixed", "(table $t64 i64 2 funcref) (elem (table $t64) (i64.const 0) func $f) (elem (table $t) (i32.const 0) func $f)"),
        ("names-func-local", "(func $named (param $p i32) (local $l i64) (block $lbl))"),
        ("names-module", "(@name \"modname\")"),
        // named function imports behind imports of other kinds (import position != function index)
        ("names-import-func-after-others", "(import \"e\" \"m9\" (memory 1)) (import \"e\" \"fj\" (func $named_import_j (type $v))) (import \"e\" \"t9\" (table 1 funcref)) (import \"e\" \"fk\" (func $named_import_k (type $v)))"),
        ("names-all-kinds", "(global $named_g i32 (i32.const 1)) (memory $named_m 1) (table $named_t 1 funcref) (tag $named_tag) (data $named_d \"x\") (elem $named_e func $f) (type $named_ty (func (param i32)))"),
        ("custom-a", "(@custom \"a\" \"payload\")"),
        ("custom-before-first", "(@custom \"bf\" (before first) \"1\")"),
        ("custom-after-code", "(@custom \"ac\" (after code) \"22\")"),
        ("custom-producers", "(@producers (language \"wat\" \"1\") (processed-by \"x\" \"2\"))"),
        ("custom-dup", "(@custom \"a\" \"1\") (@custom \"a\" \"2\")"),
        ("custom-empty-name", "(@custom \"\" \"\")"),
    ]
}

const SHAPE_BASE_HEAD: &str = "(type $v (func)) (import \"e\" \"fi\" (func $fi (type $v))) (import \"e\" \"gi\" (global $gi i32))";
const SHAPE_BASE_TAIL: &str = "(func $f (type $v)) (table $t 4 funcref) (memory $m 1) (global $g (mut i32) (i32.const 0)) (elem declare func $f $fi)";

/// Identifiers a fragment defines itself get a per-fragment suffix, so that two fragments that use
/// the same private name (`$m64`, `$pd`, ...) can be combined in one module.
fn uniquify(frag: &str, suffix: usize) -> String {
    const BASE_IDS: &[&str] = &["$v", "$fi", "$gi", "$f", "$t", "$m", "$g", "$shape"];
    let mut out = String::new();
    let b = frag.as_bytes();
    let mut i = 0;
    let mut in_str = false;
    while i < b.len() {
        let c = b[i] as char;
        if c == '"' && (i == 0 || b[i - 1] != b'\\') {
            in_str = !in_str;
        }
        if c == '$' && !in_str {
            let mut j = i + 1;
            while j < b.len() && !(b[j] as char).is_whitespace() && b[j] != b')' && b[j] != b'(' {
                j += 1;
            }
            let id = &frag[i..j];
            out.push_str(id);
            if !BASE_IDS.contains(&id) {
                out.push_str(&format!("_{}", suffix));
            }
            i = j;
        } else {
            out.push(c);
            i += 1;
        }
    }
    out
}

/// Splits a fragment into its top-level parenthesised fields.
fn split_fields(body: &str) -> Vec<String> {
    let mut out = vec![];
    let mut depth = 0i32;
    let mut cur = String::new();
    let mut in_str = false;
    let mut prev = ' ';
    for c in body.chars() {
        if c == '"' && prev != '\\' {
            in_str = !in_str;
        }
        if !in_str {
            if c == '(' {
                depth += 1;
            }
            if c == ')' {
                depth -= 1;
            }
        }
        if depth > 0 || c == ')' {
            cur.push(c);
        }
        if depth == 0 && c == ')' && !in_str {
            out.push(std::mem::take(&mut cur));
        }
        prev = c;
    }
    out
}

fn shape_family(k: usize) -> (Vec<Case>, Vec<String>) {
    let mut unparsable: Vec<String> = vec![];
    let frags_raw = shape_fragments();
    let frags: Vec<(&str, String)> = frags_raw.iter().enumerate().map(|(i, (n, t))| (*n, uniquify(t, i))).collect();
    let mut cases = vec![];
    let mut push = |names: Vec<&str>, body: String| {
        // the text format wants imports before definitions and the module-name annotation first: split
        // the fragments accordingly (a fragment is a sequence of top-level fields)
        let mut head = String::new();
        let mut imports = String::new();
        let mut rest = String::new();
        for field in split_fields(&body) {
            if field.starts_with("(@name") {
                head.push_str(&field);
            } else if field.starts_with("(import") {
                imports.push_str(&field);
                imports.push(' ');
            } else {
                rest.push_str(&field);
                rest.push(' ');
            }
        }
        let text = if head.is_empty() {
            format!("(module $shape {} {} {} {})", SHAPE_BASE_HEAD, imports, SHAPE_BASE_TAIL, rest)
        } else {
            format!("(module {} {} {} {} {})", head, SHAPE_BASE_HEAD, imports, SHAPE_BASE_TAIL, rest)
        };
        match wat::parse_str(&text) {
            Ok(bytes) => {
                let multi = bytes_have_multi_memory(&bytes);
                cases.push(Case {
                    desc: format!("shape base+{:?}", names),
                    class: format!("shape:{}", names.join("+")),
                    bytes_hex: hex(&bytes),
                    multi_memory: multi,
                    both_flags: !multi,
                })
            }
            Err(e) => unparsable.push(format!("{:?}: {}", names, e.to_string().lines().next().unwrap_or(""))),
        }
    };
    push(vec![], String::new());
    for i in 0..frags.len() {
        push(vec![frags[i].0], frags[i].1.clone());
    }
    if k >= 2 {
        for i in 0..frags.len() {
            for j in (i + 1)..frags.len() {
                push(vec![frags[i].0, frags[j].0], format!("{} {}", frags[i].1, frags[j].1));
            }
        }
    }
    if k >= 3 {
        for i in 0..frags.len() {
            for j in (i + 1)..frags.len() {
                for l in (j + 1)..frags.len() {
                    push(vec![frags[i].0, frags[j].0, frags[l].0], format!("{} {} {}", frags[i].1, frags[j].1, frags[l].1));
                }
            }
        }
    }
    // empty and near-empty modules
    for (n, t) in [("empty", "(module)"), ("only-type", "(module (type (func)))"), ("only-import", "(module (import \"a\" \"b\" (func)))"), ("only-custom", "(module (@custom \"x\" \"y\"))"), ("func-no-import", "(module (func) (func (call 0)))")] {
        if let Ok(bytes) = wat::parse_str(t) {
            cases.push(Case { desc: format!("shape {}", n), class: format!("shape:{}", n), bytes_hex: hex(&bytes), multi_memory: false, both_flags: true });
        }
    }
    (cases, unparsable)
}

fn bytes_have_multi_memory(bytes: &[u8]) -> bool {
    let mut n = 0;
    for p in wasmparser::Parser::new(0).parse_all(bytes) {
        match p {
            Ok(wasmparser::Payload::ImportSection(r)) => {
                for i in r {
                    if let Ok(i) = i {
                        if matches!(i.ty, wasmparser::TypeRef::Memory(_)) {
                            n += 1;
                        }
                    }
                }
            }
            Ok(wasmparser::Payload::MemorySection(r)) => n += r.count(),
            _ => {}
        }
    }
    n > 1
}

fn corpus_family() -> Vec<Case> {
    let mut cases = vec![];
    let mut files = vec![];
    fn walk(dir: &std::path::Path, out: &mut Vec<std::path::PathBuf>) {
        if let Ok(rd) = std::fs::read_dir(dir) {
            let mut es: Vec<_> = rd.flatten().map(|e| e.path()).collect();
            es.sort();
            for p in es {
                if p.is_dir() {
                    walk(&p, out);
                } else {
                    out.push(p);
                }
            }
        }
    }
    walk(std::path::Path::new("/repo/tests/test_inputs"), &mut files);
    for f in files {
        let ext = f.extension().and_then(|e| e.to_str()).unwrap_or("");
        let bytes = match ext {
            "wat" => match wat::parse_file(&f) {
                Ok(b) => b,
                Err(_) => continue,
            },
            "wasm" => match std::fs::read(&f) {
                Ok(b) => b,
                Err(_) => continue,
            },
            _ => continue,
        };
        // core modules only (components are C27's)
        if bytes.len() < 8 || bytes[4..8] != [1, 0, 0, 0] || bytes.len() > 2_000_000 {
            continue;
        }
        let multi = bytes_have_multi_memory(&bytes);
        cases.push(Case {
            desc: format!("corpus {}", f.display()),
            class: format!("corpus:{}", f.display()),
            bytes_hex: hex(&bytes),
            multi_memory: multi,
            both_flags: !multi,
        });
    }
    // modules embedded in the repository's .wast files
    let mut wasts = vec![];
    walk(std::path::Path::new("/repo/tests/wasm-tools"), &mut wasts);
    for f in wasts {
        if f.extension().and_then(|e| e.to_str()) != Some("wast") {
            continue;
        }
        let text = match std::fs::read_to_string(&f) {
            Ok(t) => t,
            Err(_) => continue,
        };
        let mods = catch(|| extract_wast_modules(&text)).unwrap_or_default();
        for (i, bytes) in mods.into_iter().enumerate() {
            if bytes.len() < 8 || bytes[4..8] != [1, 0, 0, 0] {
                continue;
            }
            let multi = bytes_have_multi_memory(&bytes);
            cases.push(Case {
                desc: format!("wast {}#{}", f.display(), i),
                class: format!("wast:{}#{}", f.display(), i),
                bytes_hex: hex(&bytes),
                multi_memory: multi,
                both_flags: !multi,
            });
        }
    }
    cases
}

pub fn extract_wast_modules(text: &str) -> Vec<Vec<u8>> {
    let mut out = vec![];
    let buf = match wast::parser::ParseBuffer::new(text) {
        Ok(b) => b,
        Err(_) => return out,
    };
    let w = match wast::parser::parse::<wast::Wast>(&buf) {
        Ok(w) => w,
        Err(_) => return out,
    };
    for d in w.directives {
        if let wast::WastDirective::Module(mut q) | wast::WastDirective::ModuleDefinition(mut q) = d {
            if let Ok(b) = q.encode() {
                out.push(b);
            }
        }
    }
    out
}

fn run_case_for(which: &'static str) -> impl Fn(&Case) -> Outcome + Sync {
    move |c: &Case| {
        let bytes = unhex(&c.bytes_hex);
        let j = judge(&bytes, c.multi_memory, c.both_flags);
        if let Some(s) = j.skipped {
            return Outcome::skip(s);
        }
        let mut o = Outcome::ok(c.class.clone());
        o.observed = j.observed;
        o.mismatches = if which == "C01" { j.c01 } else { j.c02 };
        o
    }
}

pub fn check(which: &'static str, tier: Tier) -> i32 {
    let mut run = Run::new(which, tier, "exploration");
    let k = tier.pick(2, 3);
    let cap = tier.pick(8, 24);
    run.rule = format!(
        "families enumerated completely: (i) every in-scope operator of wasmparser 0.235 (for_each_operator!) x cartesian product of per-field immediate domains (cap {} instances/operator) in a scaffold module, under memory configs default/shared/memory64 for memory operators; (ii) every value type (5 numeric + 15 heap types x nullable/non-null) x syntactic positions; (iii) base module + every subset of <= {} section-shape fragments (of {}); (iv) single-memory inputs encoded under both multi-memory flag values; (v) thorough: repository corpus (.wat/.wasm and modules inside .wast). Inputs failing wasmparser validation are excluded and counted. Non-trivial class = (operator,config) | (type,position) | fragment set | corpus file.",
        cap,
        k,
        shape_fragments().len()
    );
    let (ops, ops_seen) = operator_family(cap);
    // coverage obligation: operators with no valid instance
    let valid_ops: std::collections::BTreeSet<String> = ops
        .iter()
        .filter(|c| validate(&unhex(&c.bytes_hex), features_core()).is_ok())
        .map(|c| c.class.split(':').nth(1).unwrap_or("").to_string())
        .collect();
    let none_valid: Vec<String> = ops_seen.iter().filter(|(_, n)| !valid_ops.contains(n)).map(|(p, n)| format!("{}:{}", p, n)).collect();
    run.extra.insert("operators_in_scope".into(), serde_json::json!(ops_seen.len()));
    run.extra.insert("operators_with_valid_instance".into(), serde_json::json!(valid_ops.len()));
    run.extra.insert("operators_without_valid_instance".into(), serde_json::json!(none_valid));
    let f = run_case_for(which);
    run.run_cases("operator sweep", &ops, &f);
    let types = type_family();
    run.run_cases("type x position", &types, &f);
    let (shapes, unparsable) = shape_family(k);
    run.extra.insert("shape_combinations_not_expressible_as_one_module".into(), serde_json::json!(unparsable.len()));
    run.extra.insert("shape_combinations_not_expressible_samples".into(), serde_json::json!(unparsable.iter().take(5).collect::<Vec<_>>()));
    run.run_cases("section shapes", &shapes, &f);
    if tier == Tier::Thorough {
        let corpus = corpus_family();
        run.run_cases("corpus (secondary, fixed seeds)", &corpus, &f);
    }
    run.assumptions.push("wasmparser 0.235 validator/decoder and wasmprinter 0.235 are correct; feature set = mvp, mutable-global, sign-ext, sat-float, multi-value, reference-types, bulk-memory, simd, threads, tail-call, multi-memory, exceptions, memory64, function-references, gc (no extended-const)".into());
    run.assumptions.push("section framing, custom-section placement and an added empty name section are not compared (allowed by the property)".into());
    run.finish()
}

pub fn replay(which: &str, case: &serde_json::Value) -> Vec<Mismatch> {
    let c: Case = match serde_json::from_value(case.clone()) {
        Ok(c) => c,
        Err(_) => return vec![Mismatch::new("replay-case-unreadable", "")],
    };
    let j = judge(&unhex(&c.bytes_hex), c.multi_memory, c.both_flags);
    if which == "C01" {
        j.c01
    } else {
        j.c02
    }
}
