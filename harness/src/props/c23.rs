//! C23 — the side-effect report lists exactly the tagged additions and probes.
use crate::engine::*;
use crate::view::{decode, FN_MARK};
use serde::{Deserialize, Serialize};
use wasmparser::Operator;
use wirm::ir::function::FunctionBuilder;
use wirm::ir::id::{FunctionID, GlobalID};
use wirm::ir::module::side_effects::{InjectType, Injection};
use wirm::ir::types::{FuncInstrMode, InitExpr, InitInstr, InstrumentationMode, Location, Tag, Value};
use wirm::iterator::iterator_trait::{IteratingInstrumenter, Iterator as WIterator};
use wirm::iterator::module_iterator::ModuleIterator;
use wirm::opcode::{Inject, Instrumenter, Opcode};
use wirm::{DataSegment, DataSegmentKind, DataType, Module};

#[derive(Clone, Copy, Debug, PartialEq, Eq, Hash, Serialize, Deserialize)]
pub enum PMode {
    Before,
    /// `before` code on the function's final `end` (the only code the encoder keeps there)
    BeforeFinalEnd,
    After,
    Alternate,
    SemanticAfterBlock,
    SemanticAfterBr,
    BlockEntry,
    BlockExit,
    BlockAlt,
    FuncEntry,
    FuncExit,
}

#[derive(Clone, Debug, PartialEq, Eq, Hash, Serialize, Deserialize)]
pub enum Item {
    Type,
    ImportFunc,
    ImportGlobal,
    ImportMemory,
    Export,
    Func,
    Global,
    Memory,
    PassiveData,
    ActiveData,
    /// api: 0 module iterator (append_to_tag), 1 function modifier (append_tag_at); 2 / 3: the same two
    /// with the tag attached right after the mode is selected, BEFORE the first instruction is injected
    Probe { mode: PMode, api: u8 },
    /// the same additions / probes WITHOUT a tag (must not produce a tagged record)
    UntaggedImportFunc,
    UntaggedProbe,
    /// a tagged request for a type the base already has ([] -> []): nothing is added, so no record may
    /// describe the pre-existing type
    TypeSameAsBase,
    /// an untagged request for the shape of the most recent tagged `Type` of the history (no-op without
    /// one): the earlier tagged addition must still be reported
    TypeAgainUntagged,
}

#[derive(Clone, Debug, Serialize, Deserialize)]
pub struct Case {
    pub items: Vec<Item>,
}

/// base with pre-existing items of every kind; function 1 ($l0) has a block, a br and an if
const BASE: &str = r#"(module
  (type $v (func)) (type $i (func (param i32) (result i32)))
  (import "env" "fi0" (func $fi0 (type $v)))
  (import "env" "gi0" (global $gi0 i32))
  (import "env" "mi0" (memory $mi0 1))
  (memory $m0 16)
  (global $g0 (mut i32) (i32.const 5))
  (func $l0 (type $v)
    (i32.const 0x5F000000) drop
    (block (br 0))
    (if (global.get $gi0) (then nop) (else nop))
    (call $l1))
  (func $l1 (type $v) (i32.const 0x5F000001) drop)
  (export "e_l1" (func $l1))
  (data (memory $m0) (i32.const 0) "base"))"#;
// instruction indices of $l0: 0 const, 1 drop, 2 block, 3 br, 4 end, 5 global.get, 6 if, 7 nop, 8 else, 9 nop, 10 end, 11 call, 12 end
const L0: u32 = 1;
const L1: u32 = 2;

fn tag_of(k: usize) -> Vec<u8> {
    vec![0xA0 + k as u8, 0x5A]
}

fn probe_site(mode: PMode) -> usize {
    match mode {
        PMode::Before | PMode::After | PMode::Alternate => 11,
        PMode::BeforeFinalEnd => 12,
        PMode::SemanticAfterBlock | PMode::BlockEntry | PMode::BlockExit | PMode::BlockAlt => 2,
        PMode::SemanticAfterBr => 3,
        PMode::FuncEntry | PMode::FuncExit => 0,
    }
}

/// (module after applying all items, expectations per tagged item)
struct Expect {
    tag: Vec<u8>,
    kind: InjectType,
    what: String,
    marker: Option<i32>,
    plain_probe: bool,
}

fn apply<'a>(module: &mut Module<'a>, items: &[Item]) -> Vec<Expect> {
    let mut exp = vec![];
    for (k, it) in items.iter().enumerate() {
        let tag = Tag::new(tag_of(k));
        match it {
            Item::Type => {
                let params: Vec<DataType> = (0..=k).map(|_| DataType::I64).collect();
                module.types.add_func_type(&params, &[DataType::F32], Some(tag.clone()));
                exp.push(Expect { tag: tag_of(k), kind: InjectType::Type, what: format!("{:?}->{:?}", params, [DataType::F32]), marker: None, plain_probe: false });
            }
            Item::TypeSameAsBase => {
                module.types.add_func_type(&[], &[], Some(tag.clone()));
            }
            Item::TypeAgainUntagged => {
                if let Some(k0) = items[..k].iter().rposition(|x| *x == Item::Type) {
                    let params: Vec<DataType> = (0..=k0).map(|_| DataType::I64).collect();
                    module.types.add_func_type(&params, &[DataType::F32], None);
                }
            }
            Item::ImportFunc | Item::UntaggedImportFunc => {
                let ty = module.types.add_func_type(&[], &[], None);
                if *it == Item::ImportFunc {
                    module.add_import_func_with_tag("t".into(), format!("f{}", k), ty, tag.clone());
                    exp.push(Expect { tag: tag_of(k), kind: InjectType::Import, what: format!("t.f{}", k), marker: None, plain_probe: false });
                } else {
                    module.add_import_func("t".into(), format!("uf{}", k), ty);
                }
            }
            Item::ImportGlobal => {
                module.add_imported_global_with_tag("t".into(), format!("g{}", k), DataType::I64, false, false, tag.clone());
                // the imported global is listed as an import; the global entry itself carries the tag too
                exp.push(Expect { tag: tag_of(k), kind: InjectType::Import, what: format!("t.g{}", k), marker: None, plain_probe: false });
            }
            Item::ImportMemory => {
                module.add_import_memory_with_tag("t".into(), format!("m{}", k), wasmparser::MemoryType { memory64: false, shared: false, initial: 3, maximum: Some(9), page_size_log2: None }, tag.clone());
                exp.push(Expect { tag: tag_of(k), kind: InjectType::Import, what: format!("t.m{}", k), marker: None, plain_probe: false });
            }
            Item::Export => {
                module.exports.add_export_func(format!("x{}", k), L1, Some(tag.clone()));
                exp.push(Expect { tag: tag_of(k), kind: InjectType::Export, what: format!("x{}", k), marker: None, plain_probe: false });
            }
            Item::Func => {
                let mut b = FunctionBuilder::new(&[], &[]);
                b.i32_const(FN_MARK + 0x100 + k as i32);
                b.drop();
                b.call(FunctionID(L1));
                b.finish_module_with_tag(module, tag.clone());
                exp.push(Expect { tag: tag_of(k), kind: InjectType::Func, what: "built function".into(), marker: Some(FN_MARK + 0x100 + k as i32), plain_probe: false });
            }
            Item::Global => {
                module.add_global_with_tag(InitExpr::new(vec![InitInstr::Value(Value::I32(0x6100 + k as i32))]), DataType::I32, true, false, tag.clone());
                exp.push(Expect { tag: tag_of(k), kind: InjectType::Global, what: format!("{}", 0x6100 + k as i32), marker: None, plain_probe: false });
            }
            Item::Memory => {
                module.add_local_memory_with_tag(wasmparser::MemoryType { memory64: false, shared: false, initial: 40 + k as u64, maximum: Some(50), page_size_log2: None }, tag.clone());
                exp.push(Expect { tag: tag_of(k), kind: InjectType::Memory, what: format!("{}", 40 + k), marker: None, plain_probe: false });
            }
            Item::PassiveData => {
                module.add_data(DataSegment { kind: DataSegmentKind::Passive, data: vec![0xDA, k as u8], tag: Some(tag.clone()) });
                exp.push(Expect { tag: tag_of(k), kind: InjectType::Data, what: format!("{:?}", vec![0xDAu8, k as u8]), marker: None, plain_probe: false });
            }
            Item::ActiveData => {
                module.add_data(DataSegment { kind: DataSegmentKind::Active { memory_index: 1, offset_expr: InitExpr::new(vec![InitInstr::Global(GlobalID(0))]) }, data: vec![0xAC, k as u8], tag: Some(tag.clone()) });
                exp.push(Expect { tag: tag_of(k), kind: InjectType::Data, what: format!("{:?}", vec![0xACu8, k as u8]), marker: None, plain_probe: false });
            }
            Item::Probe { .. } | Item::UntaggedProbe => {
                let (mode, api) = match it {
                    Item::Probe { mode, api } => (*mode, *api),
                    _ => (PMode::Before, 0),
                };
                let tagged = matches!(it, Item::Probe { .. });
                let marker = 0x6200 + k as i32;
                let at = probe_site(mode);
                // the probe calls local function $l1 by the ID the caller holds (2): its index shifts when
                // an import is added, and the record must show the index of the ENCODED module
                // ... and reads local memory $m0 (ID 1) and local global $g0 (ID 1), whose indices shift when
                // an imported memory / global is added
                let code: Vec<Operator> = vec![
                    Operator::I32Const { value: marker },
                    Operator::Drop,
                    Operator::Call { function_index: L1 },
                    Operator::I32Const { value: 0 },
                    Operator::I32Load { memarg: wasmparser::MemArg { align: 2, max_align: 2, offset: 0, memory: 1 } },
                    Operator::Drop,
                    Operator::GlobalGet { global_index: 1 },
                    Operator::Drop,
                ];
                if api == 0 || api == 2 {
                    let mut iter = ModuleIterator::new(module, &vec![]);
                    loop {
                        if let (Location::Module { func_idx, instr_idx }, _) = iter.curr_loc() {
                            if *func_idx == L0 && instr_idx == at {
                                break;
                            }
                        }
                        if iter.next().is_none() {
                            panic!("harness: iterator never reached the probe site");
                        }
                    }
                    match mode {
                        PMode::Before | PMode::BeforeFinalEnd => {
                            iter.before();
                        }
                        PMode::After => {
                            iter.after();
                        }
                        PMode::Alternate => {
                            iter.alternate();
                        }
                        PMode::SemanticAfterBlock | PMode::SemanticAfterBr => {
                            iter.semantic_after();
                        }
                        PMode::BlockEntry => {
                            iter.block_entry();
                        }
                        PMode::BlockExit => {
                            iter.block_exit();
                        }
                        PMode::BlockAlt => {
                            iter.block_alt();
                        }
                        PMode::FuncEntry => {
                            iter.func_entry();
                        }
                        PMode::FuncExit => {
                            iter.func_exit();
                        }
                    }
                    if tagged && api == 2 {
                        iter.append_to_tag(tag_of(k));
                    }
                    for op in code {
                        iter.inject(op);
                    }
                    if tagged && api == 0 {
                        iter.append_to_tag(tag_of(k));
                    }
                    // function-level modes stay active on the function until a modifier resets them
                    if matches!(mode, PMode::FuncEntry | PMode::FuncExit) {
                        drop(iter);
                        let mut fm = module.functions.get_fn_modifier(FunctionID(L0)).expect("harness: local");
                        fm.finish_instr();
                    }
                } else {
                    let mut fm = module.functions.get_fn_modifier(FunctionID(L0)).expect("harness: local");
                    let loc = Location::Module { func_idx: FunctionID(L0), instr_idx: at };
                    match mode {
                        PMode::Before | PMode::BeforeFinalEnd => {
                            fm.before_at(loc);
                        }
                        PMode::After => {
                            fm.after_at(loc);
                        }
                        PMode::Alternate => {
                            fm.alternate_at(loc);
                        }
                        PMode::SemanticAfterBlock | PMode::SemanticAfterBr => {
                            fm.semantic_after_at(loc);
                        }
                        PMode::BlockEntry => {
                            fm.block_entry_at(loc);
                        }
                        PMode::BlockExit => {
                            fm.block_exit_at(loc);
                        }
                        PMode::BlockAlt => {
                            fm.block_alt_at(loc);
                        }
                        PMode::FuncEntry => {
                            fm.func_entry();
                        }
                        PMode::FuncExit => {
                            fm.func_exit();
                        }
                    }
                    if tagged && api == 3 {
                        fm.append_tag_at(tag_of(k), loc);
                    }
                    for op in code {
                        fm.inject(op);
                    }
                    if tagged && api == 1 {
                        fm.append_tag_at(tag_of(k), loc);
                    }
                    fm.finish_instr();
                }
                if tagged {
                    exp.push(Expect { tag: tag_of(k), kind: InjectType::Probe, what: format!("{:?}", mode), marker: Some(marker), plain_probe: matches!(mode, PMode::Before | PMode::BeforeFinalEnd | PMode::After | PMode::Alternate) });
                }
            }
        }
    }
    exp
}

/// one report record, flattened for comparison
struct Rec {
    kind: InjectType,
    tag: Vec<u8>,
    desc: String,
    body: Vec<String>,
    mode: String,
}

fn flatten(kind: InjectType, inj: &Injection) -> Rec {
    let ops = |b: &Vec<Operator>| b.iter().map(|o| format!("{:?}", o)).collect::<Vec<_>>();
    match inj {
        Injection::Import { module, name, tag, .. } => Rec { kind, tag: tag.data().clone(), desc: format!("{}.{}", module, name), body: vec![], mode: String::new() },
        Injection::Export { name, tag, .. } => Rec { kind, tag: tag.data().clone(), desc: name.clone(), body: vec![], mode: String::new() },
        Injection::Type { ty, tag } => Rec { kind, tag: tag.data().clone(), desc: format!("{:?}->{:?}", ty.params(), ty.results()), body: vec![], mode: String::new() },
        Injection::Memory { initial, tag, .. } => Rec { kind, tag: tag.data().clone(), desc: format!("{}", initial), body: vec![], mode: String::new() },
        Injection::PassiveData { data, tag } => Rec { kind, tag: tag.data().clone(), desc: format!("{:?}", data), body: vec![], mode: String::new() },
        Injection::ActiveData { data, tag, .. } => Rec { kind, tag: tag.data().clone(), desc: format!("{:?}", data), body: vec![], mode: String::new() },
        Injection::Global { init_expr, tag, .. } => {
            let d = match init_expr.instructions().first() {
                Some(InitInstr::Value(Value::I32(v))) => format!("{}", v),
                other => format!("{:?}", other),
            };
            Rec { kind, tag: tag.data().clone(), desc: d, body: vec![], mode: String::new() }
        }
        Injection::Func { body, tag, .. } => Rec { kind, tag: tag.data().clone(), desc: "built function".into(), body: body.iter().map(|i| format!("{:?}", i.op)).collect(), mode: String::new() },
        Injection::Local { tag, .. } => Rec { kind, tag: tag.data().clone(), desc: "local".into(), body: vec![], mode: String::new() },
        Injection::Table { tag } => Rec { kind, tag: tag.data().clone(), desc: "table".into(), body: vec![], mode: String::new() },
        Injection::Element { tag } => Rec { kind, tag: tag.data().clone(), desc: "element".into(), body: vec![], mode: String::new() },
        Injection::FuncProbe { mode, body, tag, .. } => Rec {
            kind,
            tag: tag.data().clone(),
            desc: "function probe".into(),
            body: ops(body),
            mode: match mode {
                FuncInstrMode::Entry => "FuncEntry".into(),
                FuncInstrMode::Exit => "FuncExit".into(),
            },
        },
        Injection::FuncLocProbe { mode, body, tag, .. } => Rec {
            kind,
            tag: tag.data().clone(),
            desc: "location probe".into(),
            body: ops(body),
            mode: match mode {
                InstrumentationMode::Before => "Before".into(),
                InstrumentationMode::After => "After".into(),
                InstrumentationMode::Alternate => "Alternate".into(),
                other => format!("{:?}", other),
            },
        },
    }
}

fn item_class(i: &Item) -> String {
    match i {
        Item::Probe { mode, api } => format!("probe.{:?}.{}", mode, ["iter", "modifier", "iter-tag-first", "modifier-tag-first"][*api as usize]),
        other => format!("{:?}", other),
    }
}

fn run_case(c: &Case) -> Outcome {
    let bytes = wat::parse_str(BASE).expect("base assembles");
    let mut cls: Vec<String> = c.items.iter().map(item_class).collect();
    cls.sort();
    let mut o = Outcome::ok(cls.join("+"));
    // replay 1: the report; replay 2: the encoding (so that C05's double-encode does not interfere)
    let r = catch(|| {
        let mut m1 = Module::parse(&bytes, true).expect("harness: base parses");
        let exp = apply(&mut m1, &c.items);
        let se = m1.pull_side_effects();
        let mut recs = vec![];
        for (k, v) in se.insertion_order() {
            for inj in v.iter() {
                recs.push(flatten(*k, inj));
            }
        }
        let mut m2 = Module::parse(&bytes, true).expect("harness: base parses");
        apply(&mut m2, &c.items);
        let out = m2.encode();
        // replay 3: report first, then encode, on ONE module: asking for the report must not change
        // what is encoded
        let mut m3 = Module::parse(&bytes, true).expect("harness: base parses");
        apply(&mut m3, &c.items);
        let _ = m3.pull_side_effects();
        let out3 = m3.encode();
        (exp, recs, out, out3)
    });
    let (exp, recs, out, out3) = match r {
        Ok(x) => x,
        Err(p) => {
            if p.msg.starts_with("harness:") {
                panic!("{}", p.msg);
            }
            o.fail(format!("panic {} [{}]", p.site(), cls.join("+")), format!("{} at {}:{}", p.msg, p.file, p.line));
            return o;
        }
    };
    o.observed = hash_of(&recs.iter().map(|r| (format!("{}", r.kind), r.tag.clone(), r.desc.clone(), r.body.clone())).collect::<Vec<_>>());
    if out3 != out {
        let has_fn_probe = c.items.iter().any(|i| matches!(i, Item::Probe { mode: PMode::FuncEntry | PMode::FuncExit, .. }));
        o.fail(
            format!("encode-after-report differs{}", if has_fn_probe { " (function entry/exit probe present)" } else { "" }),
            format!("pull_side_effects() followed by encode() gives {} bytes, encode() alone {} bytes, and they differ: the report and the encoded module are not about the same module", out3.len(), out.len()),
        );
    }
    // index of $l1 in the encoded module (the probes call it)
    let view = match decode(&out) {
        Ok(v) => v,
        Err(e) => {
            o.fail("output-undecodable", e);
            return o;
        }
    };
    let l1_index = view.func_imports.len() as u32 + view.local_funcs.iter().position(|f| f.marker == Some(1)).map(|p| p as u32).unwrap_or(u32::MAX);
    let call_l1 = format!("Call {{ function_index: {} }}", l1_index);
    // index of $m0 (the local memory with 16 pages) and of $g0 (the local global initialised to 5)
    let m0_index = view.mem_imports.len() as u32 + view.local_mems.iter().position(|m| *m == 16).map(|p| p as u32).unwrap_or(u32::MAX);
    let g0_index = view.global_imports.len() as u32;
    let load_m0 = format!("memory: {} }}", m0_index);
    let get_g0 = format!("GlobalGet {{ global_index: {} }}", g0_index);
    for e in exp.iter() {
        let mine: Vec<&Rec> = recs.iter().filter(|r| r.tag == e.tag).collect();
        let what = if e.kind == InjectType::Probe { format!("probe {}", e.what) } else { format!("{}", e.kind) };
        if mine.is_empty() {
            // told apart: the item's code is reported, but under no / an empty tag (the listed finding for
            // special-mode probes: resolution drops the tag) - or the item is not in the report at all
            let reported_untagged = match e.marker {
                Some(mk) => {
                    let needle = format!("I32Const {{ value: {} }}", mk);
                    recs.iter().any(|r| r.body.iter().any(|o| *o == needle))
                }
                None => true,
            };
            // a block alternate on the block removes the construct, and with it the special-mode probes
            // on its opener and inside it (C21; fix e7f3f2d): nothing of them is left to report
            let gone_with_block = c.items.iter().any(|i| matches!(i, Item::Probe { mode: PMode::BlockAlt, .. })) && ["SemanticAfterBlock", "SemanticAfterBr", "BlockEntry", "BlockExit"].contains(&e.what.as_str());
            if !reported_untagged && gone_with_block {
                continue;
            }
            if reported_untagged {
                o.fail(format!("tagged-item no-record {}", what), format!("no record carries tag {:?} (item: {} {})", e.tag, e.kind, e.what));
            } else {
                o.fail(format!("tagged-item not-reported-at-all {}", what), format!("no record carries tag {:?} and no record of any tag contains the item's code (item: {} {})", e.tag, e.kind, e.what));
            }
            continue;
        }
        // imported globals / memories are also globals / memories: a second record of that kind with the tag is fine
        let of_kind: Vec<&&Rec> = mine.iter().filter(|r| r.kind == e.kind).collect();
        if of_kind.is_empty() {
            o.fail(format!("tagged-item wrong-kind {}", what), format!("records with the tag have kinds {:?}", mine.iter().map(|r| format!("{}", r.kind)).collect::<Vec<_>>()));
            continue;
        }
        if e.plain_probe && of_kind.len() != 1 {
            o.fail(format!("tagged-item record-count {}", what), format!("{} records carry the tag of one probe", of_kind.len()));
        }
        if e.kind != InjectType::Probe && of_kind.len() != 1 {
            o.fail(format!("tagged-item record-count {}", what), format!("{} records of kind {} carry the tag of one item", of_kind.len(), e.kind));
        }
        match e.kind {
            InjectType::Probe | InjectType::Func => {
                if let Some(mk) = e.marker {
                    let needle = format!("I32Const {{ value: {} }}", mk);
                    let with_marker: Vec<&&&Rec> = of_kind.iter().filter(|r| r.body.iter().any(|o| *o == needle)).collect();
                    if with_marker.is_empty() {
                        o.fail(format!("tagged-item content-differs {}", what), format!("no record with the tag contains the item's code (marker {})", mk));
                    } else {
                        for r in with_marker {
                            // probe records: same index space as the encoded module (the property
                            // says this of probe records only; a built function's record is not judged)
                            if e.kind == InjectType::Probe && !r.body.iter().any(|o| *o == call_l1) {
                                let calls: Vec<&String> = r.body.iter().filter(|o| o.starts_with("Call")).collect();
                                o.fail(format!("record-body index-space {}", what), format!("the encoded module calls $l1 as {}, the record says {:?}", call_l1, calls));
                            }
                            if e.kind == InjectType::Probe && !r.body.iter().any(|o| o.starts_with("I32Load") && o.contains(&load_m0)) {
                                let loads: Vec<&String> = r.body.iter().filter(|o| o.starts_with("I32Load")).collect();
                                o.fail(format!("record-body index-space memory {}", what), format!("in the encoded module $m0 is memory {}, the record says {:?}", m0_index, loads));
                            }
                            if e.kind == InjectType::Probe && !r.body.iter().any(|o| *o == get_g0) {
                                let gets: Vec<&String> = r.body.iter().filter(|o| o.starts_with("GlobalGet")).collect();
                                o.fail(format!("record-body index-space global {}", what), format!("in the encoded module $g0 is global {}, the record says {:?}", g0_index, gets));
                            }
                            if e.plain_probe && r.mode != e.what.replace("BeforeFinalEnd", "Before") {
                                o.fail(format!("tagged-item mode-differs {}", what), format!("record mode {}", r.mode));
                            }
                        }
                    }
                }
            }
            _ => {
                if !of_kind.iter().any(|r| r.desc == e.what) {
                    o.fail(format!("tagged-item content-differs {}", what), format!("expected {} got {:?}", e.what, of_kind.iter().map(|r| r.desc.clone()).collect::<Vec<_>>()));
                }
            }
        }
    }
    // no record with a non-empty tag that nobody attached, none for pre-existing items
    for r in recs.iter() {
        if !r.tag.is_empty() && !exp.iter().any(|e| e.tag == r.tag) {
            o.fail(format!("unexpected-tagged-record {}", r.kind), format!("tag {:?} desc {}", r.tag, r.desc));
        }
        if matches!(r.desc.as_str(), "env.fi0" | "env.gi0" | "env.mi0" | "e_l1") || (r.kind == InjectType::Type && matches!(r.desc.as_str(), "[]->[]" | "[I32]->[I32]")) {
            o.fail(format!("record-for-pre-existing-item {}", r.kind), r.desc.clone());
        }
    }
    o
}

pub fn check(tier: Tier) -> i32 {
    let mut run = Run::new("C23", tier, "model_checking");
    let mut alphabet = vec![Item::Type, Item::ImportFunc, Item::ImportGlobal, Item::ImportMemory, Item::Export, Item::Func, Item::Global, Item::Memory, Item::PassiveData, Item::ActiveData, Item::UntaggedImportFunc, Item::UntaggedProbe, Item::TypeSameAsBase, Item::TypeAgainUntagged];
    for mode in [PMode::Before, PMode::BeforeFinalEnd, PMode::After, PMode::Alternate, PMode::SemanticAfterBlock, PMode::SemanticAfterBr, PMode::BlockEntry, PMode::BlockExit, PMode::BlockAlt, PMode::FuncEntry, PMode::FuncExit] {
        for api in 0..4u8 {
            alphabet.push(Item::Probe { mode, api });
        }
    }
    let depth = tier.pick(2, 3);
    let mut cases = vec![Case { items: vec![] }];
    let mut frontier: Vec<Vec<Item>> = vec![vec![]];
    for _ in 0..depth {
        let mut next = vec![];
        for h in frontier.iter() {
            for a in alphabet.iter() {
                // function-level probes go last on the function (documented protocol); one probe per
                // (site, mode) so that tags of two probes cannot meet in one injection list
                if let Item::Probe { mode, .. } = a {
                    if h.iter().any(|x| matches!(x, Item::Probe { mode: m2, .. } if probe_site(*m2) == probe_site(*mode) && std::mem::discriminant(m2) == std::mem::discriminant(mode))) {
                        continue;
                    }
                }
                if matches!(a, Item::UntaggedProbe) && h.iter().any(|x| matches!(x, Item::UntaggedProbe | Item::Probe { mode: PMode::Before, .. })) {
                    continue;
                }
                if matches!(a, Item::Probe { mode: PMode::Before, .. }) && h.iter().any(|x| matches!(x, Item::UntaggedProbe)) {
                    continue;
                }
                let mut h2 = h.clone();
                h2.push(a.clone());
                next.push(h2);
            }
        }
        for h in next.iter() {
            cases.push(Case { items: h.clone() });
        }
        frontier = next;
    }
    run.rule = format!(
        "all histories of length <= {} over 58 operations: tagged additions of every kind (type, function/global/memory import, export, built function, global, memory, passive and active data), tagged probes of every mode (before - also on the function's final end -, after, alternate, semantic-after on a block and on a br, block-entry, block-exit, block-alt, function entry/exit) through the module iterator (append_to_tag) and the function modifier (append_tag_at), each with the tag attached after the code and with the tag attached between the mode call and the first injected instruction, plus untagged additions and probes, a tagged request for a type the base already has and an untagged re-request of a tagged type, on a base that already has an item of every kind. Three replays per history: one calls pull_side_effects(), one encode(), one pull_side_effects() and then encode() (whose bytes must equal the second's). Oracle: for every tag exactly one record of the item's kind carries it (special-mode probes: at least one), with the item's content; a probe's / function's record body contains the item's code and refers to function $l1, memory $m0 and global $g0 by their indices in the ENCODED module; no non-empty tag appears that was never attached; no record describes a pre-existing item. Records with empty tags are tolerated; an item whose tag is on no record is reported as `no-record` when its code appears in some record and as `not-reported-at-all` otherwise.",
        depth
    );
    run.run_cases("tagged histories", &cases, run_case);
    run.states = Some(cases.len() as u64);
    run.transitions = Some(cases.iter().map(|c| c.items.len() as u64).sum());
    run.traces_validated = Some(cases.len() as u64 * 2);
    run.finish()
}

pub fn replay(case: &serde_json::Value) -> Vec<Mismatch> {
    match serde_json::from_value::<Case>(case.clone()) {
        Ok(c) => run_case(&c).mismatches,
        Err(e) => vec![Mismatch::new("replay-case-unreadable", e.to_string())],
    }
}
