//! C26 — Component iteration and injection match module-level behaviour.
//!
//! Inputs are built with wasm-encoder (never through wirm), decoded with wasmparser and a trivial
//! section walker; the oracle is the iterator MODEL of DESIGN §1 E4 (nested loops over the decoded
//! code sections). Two families:
//!   * `visit`  : components of 1..3 core modules x all skip maps; the sequence
//!                (curr_loc(), is_end, curr_op()) from construction until next() == None, then
//!                reset() and the same again, must equal the model's sequence; no call may panic.
//!   * `inject` : plans of <= 1 (quick) / <= 2 (thorough) probes `i32.const <unique>; drop` with
//!                modes before/after/alternate at visited locations, applied through
//!                ComponentIterator on one parse and through one ModuleIterator per module on a
//!                second parse; every core module of comp.encode() must be byte-equal to the
//!                module.encode() of the second parse.
//!
//! Lenient readings (property text is silent):
//!   * a module with no local function, or with all functions skipped, contributes no visit; the
//!     iterator is then only required not to panic and to end with `None`; `curr_op() == None`
//!     right after construction/reset is accepted as "nothing to visit".
//!   * inject: cases in which an iterator does not reach a planned location (a consequence of a
//!     visit-sequence defect that family `visit` judges) are excluded and counted, never judged;
//!     validity of the instrumented module is not required (raw `after`/`alternate` on the final
//!     `end` is the caller's business), only equality of the two encodings.
use crate::engine::*;
use serde::{Deserialize, Serialize};
use std::collections::HashMap;
use wirm::ir::id::{FunctionID, ModuleID};
use wirm::iterator::component_iterator::ComponentIterator;
use wirm::iterator::iterator_trait::{IteratingInstrumenter, Iterator as WIterator};
use wirm::iterator::module_iterator::ModuleIterator;
use wirm::opcode::{Instrumenter, Opcode};
use wirm::{Component, Location};

#[derive(Serialize, Deserialize, Clone, Debug, PartialEq, Eq)]
pub struct ModSpec {
    /// number of function imports
    k: u32,
    /// body length (instructions incl. the final `end`) of every local function
    lens: Vec<u32>,
    /// skip list for this module: function-index-space ids (may name imported functions)
    skip: Vec<u32>,
}

#[derive(Serialize, Deserialize, Clone, Debug, PartialEq, Eq)]
pub struct Probe {
    m: u32,
    f: u32,
    i: usize,
    /// 0 = before, 1 = after, 2 = alternate, 3 = empty alternate, 4 = function entry, 5 = function exit,
    /// 6 = block entry, 7 = block exit, 8 = block alternate, 9 = empty block alternate, 10 = semantic after
    mode: u8,
}

#[derive(Serialize, Deserialize, Clone, Debug)]
pub struct Case {
    mods: Vec<ModSpec>,
    /// position (among the top-level modules) before which a nested component holding one more
    /// core module is placed; the iterator must not enter it
    #[serde(default)]
    nest_at: Option<usize>,
    #[serde(default)]
    plan: Vec<Probe>,
    /// apply the plan up front through the location-addressed API (`*_at(loc)` + `add_instr_at(loc, op)`)
    /// from a fresh iterator, instead of at the visited location
    #[serde(default)]
    at_api: bool,
}

// ---------------------------------------------------------------------------------------------
// generator (wasm-encoder only)
// ---------------------------------------------------------------------------------------------
fn build_module(ms: &ModSpec) -> wasm_encoder::Module {
    use wasm_encoder::*;
    let mut m = Module::new();
    let mut types = TypeSection::new();
    types.ty().function([], []);
    m.section(&types);
    if ms.k > 0 {
        let mut imports = ImportSection::new();
        for j in 0..ms.k {
            imports.import("e", &format!("f{}", j), EntityType::Function(0));
        }
        m.section(&imports);
    }
    if !ms.lens.is_empty() {
        let mut funcs = FunctionSection::new();
        for _ in ms.lens.iter() {
            funcs.function(0);
        }
        m.section(&funcs);
        let mut code = CodeSection::new();
        for len in ms.lens.iter() {
            let mut f = Function::new([]);
            if *len >= 10 {
                // shape with a construct: block nop end end
                f.instruction(&Instruction::Block(BlockType::Empty));
                f.instruction(&Instruction::Nop);
                f.instruction(&Instruction::End);
            } else {
                for _ in 1..*len {
                    f.instruction(&Instruction::Nop);
                }
            }
            f.instruction(&Instruction::End);
            code.function(&f);
        }
        m.section(&code);
    }
    m
}

fn build_component(c: &Case) -> Vec<u8> {
    use wasm_encoder::*;
    let mut comp = Component::new();
    for (i, ms) in c.mods.iter().enumerate() {
        if c.nest_at == Some(i) {
            nested(&mut comp);
        }
        comp.section(&ModuleSection(&build_module(ms)));
    }
    if c.nest_at == Some(c.mods.len()) {
        nested(&mut comp);
    }
    fn nested(comp: &mut Component) {
        let mut inner = Component::new();
        inner.section(&ModuleSection(&build_module(&ModSpec { k: 0, lens: vec![2, 1], skip: vec![] })));
        comp.section(&NestedComponentSection(&inner));
    }
    comp.finish()
}

// ---------------------------------------------------------------------------------------------
// independent decoding: top-level section walker + wasmparser on each core module
// ---------------------------------------------------------------------------------------------
fn read_leb(b: &[u8], pos: &mut usize) -> Option<u32> {
    let mut r: u32 = 0;
    let mut shift = 0;
    loop {
        let x = *b.get(*pos)?;
        *pos += 1;
        r |= ((x & 0x7f) as u32) << shift;
        if x & 0x80 == 0 {
            return Some(r);
        }
        shift += 7;
        if shift > 28 {
            return None;
        }
    }
}

/// payloads of the top-level core-module sections (id 1) of a component binary, in order
fn top_level_modules(bytes: &[u8]) -> Result<Vec<&[u8]>, String> {
    if bytes.len() < 8 || &bytes[0..4] != b"\0asm" {
        return Err("no wasm header".into());
    }
    let mut pos = 8;
    let mut v = vec![];
    while pos < bytes.len() {
        let id = bytes[pos];
        pos += 1;
        let size = read_leb(bytes, &mut pos).ok_or("bad leb")? as usize;
        if pos + size > bytes.len() {
            return Err("section overruns".into());
        }
        if id == 1 {
            v.push(&bytes[pos..pos + size]);
        }
        pos += size;
    }
    Ok(v)
}

struct ModModel {
    k: u32,
    /// operators of every local function
    funcs: Vec<Vec<String>>,
}

fn decode_module(bytes: &[u8]) -> Result<ModModel, String> {
    let mut k = 0;
    let mut funcs = vec![];
    for p in wasmparser::Parser::new(0).parse_all(bytes) {
        match p.map_err(|e| e.to_string())? {
            wasmparser::Payload::ImportSection(r) => {
                for imp in r {
                    if let wasmparser::TypeRef::Func(_) = imp.map_err(|e| e.to_string())?.ty {
                        k += 1;
                    }
                }
            }
            wasmparser::Payload::CodeSectionEntry(body) => {
                let mut ops = vec![];
                for op in body.get_operators_reader().map_err(|e| e.to_string())? {
                    ops.push(format!("{:?}", op.map_err(|e| e.to_string())?));
                }
                funcs.push(ops);
            }
            _ => {}
        }
    }
    Ok(ModModel { k, funcs })
}

#[derive(Clone, Debug, PartialEq, Eq, Hash)]
struct Visit {
    m: u32,
    f: u32,
    i: usize,
    end: bool,
    op: String,
}

/// The iterator model: for each module in order, for each local function not skipped in index
/// order, for each instruction index.
fn model_visits(mods: &[ModModel], skips: &[Vec<u32>]) -> Vec<Visit> {
    let mut v = vec![];
    for (m, mm) in mods.iter().enumerate() {
        for (j, ops) in mm.funcs.iter().enumerate() {
            let fid = mm.k + j as u32;
            if skips[m].contains(&fid) {
                continue;
            }
            for (i, op) in ops.iter().enumerate() {
                v.push(Visit { m: m as u32, f: fid, i, end: i + 1 == ops.len(), op: op.clone() });
            }
        }
    }
    v
}

// ---------------------------------------------------------------------------------------------
// driving the real iterators
// ---------------------------------------------------------------------------------------------
enum Term {
    End,
    Panic(&'static str, PanicInfo),
    Runaway,
}

struct PlanState<'p> {
    probes: &'p [Probe],
    applied: Vec<bool>,
}

/// Walk an iterator from its current position until `next()` returns `None`, recording
/// (curr_loc, is_end, curr_op) and applying the planned probes at matching locations.
/// Apply the probes of module `only_mod` (all modules if None) through the location-addressed API.
fn apply_at<'b, T>(it: &mut T, plan: &[Probe], only_mod: Option<u32>, component_locs: bool) -> Result<(), PanicInfo>
where
    T: Instrumenter<'b>,
{
    for (pi, p) in plan.iter().enumerate() {
        if only_mod.map(|m| m != p.m).unwrap_or(false) {
            continue;
        }
        let loc = if component_locs {
            Location::Component { mod_idx: ModuleID(p.m), func_idx: FunctionID(p.f), instr_idx: p.i }
        } else {
            Location::Module { func_idx: FunctionID(p.f), instr_idx: p.i }
        };
        let val = 0x6000 + pi as i32;
        catch(std::panic::AssertUnwindSafe(|| {
            match p.mode {
                0 => {
                    it.before_at(loc);
                }
                1 => {
                    it.after_at(loc);
                }
                2 => {
                    it.alternate_at(loc);
                }
                3 => {
                    it.empty_alternate_at(loc);
                }
                6 => {
                    it.block_entry_at(loc);
                }
                7 => {
                    it.block_exit_at(loc);
                }
                8 => {
                    it.block_alt_at(loc);
                }
                9 => {
                    it.empty_block_alt_at(loc);
                }
                _ => {
                    it.semantic_after_at(loc);
                }
            }
            if p.mode != 3 && p.mode != 9 {
                it.add_instr_at(loc, wasmparser::Operator::I32Const { value: val });
                it.add_instr_at(loc, wasmparser::Operator::Drop);
            }
        }))?;
    }
    Ok(())
}

fn walk<'b, T>(it: &mut T, fixed_mod: Option<u32>, cap: usize, plan: &mut PlanState) -> (Vec<Visit>, Term)
where
    T: WIterator + IteratingInstrumenter<'b> + Opcode<'b>,
{
    let mut v = vec![];
    loop {
        if v.len() > cap {
            return (v, Term::Runaway);
        }
        let op = match catch(|| it.curr_op().map(|o| format!("{:?}", o))) {
            Ok(Some(o)) => o,
            Ok(None) => return (v, Term::End),
            Err(p) => return (v, Term::Panic("curr_op", p)),
        };
        let (loc, end) = match catch(|| it.curr_loc()) {
            Ok(x) => x,
            Err(p) => return (v, Term::Panic("curr_loc", p)),
        };
        let (m, f, i) = match loc {
            Location::Component { mod_idx, func_idx, instr_idx } => (*mod_idx, *func_idx, instr_idx),
            Location::Module { func_idx, instr_idx } => (fixed_mod.unwrap_or(u32::MAX), *func_idx, instr_idx),
        };
        v.push(Visit { m, f, i, end, op });
        for (pi, p) in plan.probes.iter().enumerate() {
            if p.m == m && p.f == f && p.i == i && !plan.applied[pi] {
                let val = 0x6000 + pi as i32;
                let r = catch(|| {
                    match p.mode {
                        0 => it.before(),
                        1 => it.after(),
                        2 => it.alternate(),
                        3 => it.empty_alternate(),
                        4 => it.func_entry(),
                        5 => it.func_exit(),
                        6 => it.block_entry(),
                        7 => it.block_exit(),
                        8 => it.block_alt(),
                        9 => it.empty_block_alt(),
                        _ => it.semantic_after(),
                    };
                    if p.mode != 3 && p.mode != 9 {
                        it.i32_const(val);
                        it.drop();
                    }
                });
                if let Err(pn) = r {
                    return (v, Term::Panic("inject", pn));
                }
                plan.applied[pi] = true;
            }
        }
        match catch(|| it.next().is_some()) {
            Ok(true) => {}
            Ok(false) => return (v, Term::End),
            Err(p) => return (v, Term::Panic("next", p)),
        }
    }
}

fn skip_map(c: &Case) -> HashMap<ModuleID, Vec<FunctionID>> {
    let mut h = HashMap::new();
    for (m, ms) in c.mods.iter().enumerate() {
        if !ms.skip.is_empty() {
            h.insert(ModuleID(m as u32), ms.skip.iter().map(|f| FunctionID(*f)).collect());
        }
    }
    h
}

// ---------------------------------------------------------------------------------------------
// classification of the first divergence (signature = oracle clause + syntactic class of the site)
// ---------------------------------------------------------------------------------------------
struct Shape {
    /// per module: (function id, len, skipped) of every local function
    locals: Vec<Vec<(u32, usize, bool)>>,
}
impl Shape {
    fn new(mods: &[ModModel], skips: &[Vec<u32>]) -> Shape {
        Shape {
            locals: mods
                .iter()
                .enumerate()
                .map(|(m, mm)| {
                    mm.funcs
                        .iter()
                        .enumerate()
                        .map(|(j, ops)| (mm.k + j as u32, ops.len(), skips[m].contains(&(mm.k + j as u32))))
                        .collect()
                })
                .collect(),
        }
    }
    fn no_locals(&self, m: usize) -> bool {
        self.locals[m].is_empty()
    }
    fn all_skipped(&self, m: usize) -> bool {
        !self.locals[m].is_empty() && self.locals[m].iter().all(|l| l.2)
    }
    /// f is the first visited function of m and the first local function of m is skipped
    fn tainted(&self, m: u32, f: u32) -> bool {
        let l = &self.locals[m as usize];
        match l.first() {
            Some(first) if first.2 => l.iter().find(|x| !x.2).map(|x| x.0) == Some(f),
            _ => false,
        }
    }
    fn trailing_skipped_after(&self, m: u32, f: u32) -> bool {
        let l = &self.locals[m as usize];
        match l.iter().position(|x| x.0 == f) {
            Some(p) => p + 1 < l.len() && l[p + 1..].iter().all(|x| x.2),
            None => false,
        }
    }
    fn skipped_locals(&self, m: usize, skip: &[u32]) -> Vec<u32> {
        self.locals[m].iter().map(|x| x.0).filter(|f| skip.contains(f)).collect()
    }
}

fn describe(v: Option<&Visit>) -> String {
    match v {
        Some(v) => format!("(mod {}, func {}, instr {}, is_end {}, {})", v.m, v.f, v.i, v.end, v.op),
        None => "<end>".into(),
    }
}

/// Compare one pass; returns the mismatch (signature, detail) if the sequences differ.
#[allow(clippy::too_many_arguments)]
fn judge_pass(
    pass: usize,
    model: &[Visit],
    actual: &[Visit],
    term: &Term,
    shape: &Shape,
    skips: &[Vec<u32>],
    stale_from: Option<usize>,
) -> Option<(String, String)> {
    let n = model.len().min(actual.len());
    let mut i = 0;
    while i < n && model[i] == actual[i] {
        i += 1;
    }
    let clean_end = matches!(term, Term::End);
    if i == model.len() && i == actual.len() && clean_end {
        return None;
    }
    let e = model.get(i);
    let p = if i > 0 { model.get(i - 1) } else { None };
    let a = actual.get(i);
    let nm = shape.locals.len();
    let term_txt = match term {
        Term::End => "next()/curr_op() returned None".to_string(),
        Term::Panic(call, pi) => format!("panic in {}(): {} at {}:{}", call, pi.msg, pi.file, pi.line),
        Term::Runaway => "iteration did not terminate".to_string(),
    };
    let got = match a {
        Some(a) => describe(Some(a)),
        None => term_txt.clone(),
    };
    let detail = format!(
        "pass {} ({}), visit #{}: model expects {}, iterator gave {}; previous visit {}; {} of {} model visits matched",
        pass,
        if pass == 1 { "from construction" } else { "after reset()" },
        i,
        describe(e),
        got,
        describe(p),
        i,
        model.len()
    );
    let is_panic = a.is_none() && matches!(term, Term::Panic(..));

    // 1. first visited function of a module whose first local function is skipped: the function
    //    sub-iterator still carries the instruction count of function 0 (after reset() module 0 is
    //    re-initialised correctly, later modules are not)
    let taint_applies = |v: &Visit| shape.tainted(v.m, v.f) && !(pass == 2 && v.m == 0);
    if e.map(taint_applies).unwrap_or(false) || (p.map(taint_applies).unwrap_or(false) && e.map(|e| (e.m, e.f)) != p.map(|p| (p.m, p.f))) {
        return Some(("visit-sequence first-visited-function-after-skipped-first".into(), detail));
    }
    // 2. reset(): module 0 is re-entered with the skip list of the module the iterator was in
    if pass == 2 {
        if let Some(last) = stale_from {
            let in_mod0 = e.map(|e| e.m == 0).unwrap_or(false) || a.map(|a| a.m == 0).unwrap_or(false);
            if last != 0 && in_mod0 && shape.skipped_locals(0, &skips[0]) != shape.skipped_locals(0, &skips[last]) {
                return Some(("visit-sequence after-reset stale-skip-list".into(), detail));
            }
        }
    }
    // 3. stop at the end of a non-last module whose trailing functions are skipped
    if let (Some(p), None, true) = (p, a, clean_end) {
        if p.end && (p.m as usize) + 1 < nm && shape.trailing_skipped_after(p.m, p.f) && e.map(|e| e.m > p.m).unwrap_or(false) {
            return Some(("visit-sequence early-stop trailing-skipped-nonlast-module".into(), detail));
        }
    }
    // 4. modules that contribute no visit lie between the previous and the expected visit
    let lo = p.map(|p| p.m as usize + 1).unwrap_or(0);
    let hi = e.map(|e| e.m as usize).unwrap_or(nm);
    let gap: Vec<usize> = (lo..hi).collect();
    let head = if is_panic { "panic" } else { "visit-sequence" };
    if gap.iter().any(|m| shape.no_locals(*m)) && a.is_none() {
        return Some((format!("{} module-without-local-functions", head), detail));
    }
    if gap.iter().any(|m| shape.all_skipped(*m)) && a.is_none() {
        return Some((format!("{} all-skipped", head), detail));
    }
    // 5. anything else
    let site = match (p, e) {
        (None, _) => "start",
        (Some(_), None) => "end",
        (Some(p), Some(e)) if p.m != e.m => "module-entry",
        (Some(p), Some(e)) if p.f != e.f => "function-entry",
        _ => "next-instruction",
    };
    let kind = match (a, term) {
        (Some(_), _) if e.is_none() => "extra-visit".to_string(),
        (Some(a), _) => {
            let e = e.unwrap();
            if (a.m, a.f, a.i) != (e.m, e.f, e.i) {
                "wrong-location".to_string()
            } else if a.end != e.end {
                "wrong-is-end".to_string()
            } else {
                "wrong-op".to_string()
            }
        }
        (None, Term::End) => "stopped-early".to_string(),
        (None, Term::Panic(call, pi)) => format!("panic {} {}", call, pi.site()),
        (None, Term::Runaway) => "no-termination".to_string(),
    };
    Some((
        format!("visit-sequence {} at={} {}", if pass == 1 { "first-pass" } else { "after-reset" }, site, kind),
        detail,
    ))
}

// ---------------------------------------------------------------------------------------------
// case evaluation
// ---------------------------------------------------------------------------------------------
fn features(c: &Case) -> String {
    let mut s = format!("{}m", c.mods.len());
    if c.nest_at.is_some() {
        s.push_str("+nested");
    }
    for ms in c.mods.iter() {
        let n = ms.lens.len();
        let locals: Vec<u32> = (0..n as u32).map(|j| ms.k + j).collect();
        let sk: Vec<bool> = locals.iter().map(|f| ms.skip.contains(f)).collect();
        let pat = if n == 0 {
            "nolocals"
        } else if sk.iter().all(|x| *x) {
            "all"
        } else if !sk.iter().any(|x| *x) {
            "none"
        } else if sk[0] && sk[n - 1] {
            "first+last"
        } else if sk[0] {
            "first"
        } else if sk[n - 1] {
            "last"
        } else {
            "middle"
        };
        let imp = if ms.skip.iter().any(|f| *f < ms.k) { "+imp" } else { "" };
        let eq = if n > 1 && ms.lens.iter().all(|l| *l == ms.lens[0]) { "=" } else { "" };
        s.push_str(&format!("[n{}{}:{}{}]", n, eq, pat, imp));
    }
    s
}

struct Decoded {
    bytes: Vec<u8>,
    mods: Vec<ModModel>,
    skips: Vec<Vec<u32>>,
}

fn prepare(c: &Case) -> Result<Decoded, String> {
    let bytes = build_component(c);
    crate::wasmutil::validate(&bytes, crate::wasmutil::features_component())?;
    let mut mods = vec![];
    for mb in top_level_modules(&bytes)? {
        mods.push(decode_module(mb)?);
    }
    if mods.len() != c.mods.len() {
        return Err("generator: module count".into());
    }
    let skips = c.mods.iter().map(|m| m.skip.clone()).collect();
    Ok(Decoded { bytes, mods, skips })
}

fn run_visit(c: &Case) -> Outcome {
    let d = match prepare(c) {
        Ok(d) => d,
        Err(e) => return Outcome::skip(format!("generated input invalid: {}", e)),
    };
    let mut o = Outcome::ok(features(c));
    let model = model_visits(&d.mods, &d.skips);
    let shape = Shape::new(&d.mods, &d.skips);
    let cap = model.len() * 2 + 16;

    // reference behaviour of the module-level iterators (informational: does the module iterator
    // itself agree with the model on every module?)
    let mut module_level_ok = true;
    {
        let parsed = catch(|| Component::parse(&d.bytes, false));
        if let Ok(Ok(mut comp2)) = parsed {
            for m in 0..d.mods.len() {
                let want: Vec<Visit> = model.iter().filter(|v| v.m == m as u32).cloned().collect();
                let skip: Vec<FunctionID> = d.skips[m].iter().map(|f| FunctionID(*f)).collect();
                let r = catch(|| {
                    let mut it = ModuleIterator::new(&mut comp2.modules[m], &skip);
                    let mut ps = PlanState { probes: &[], applied: vec![] };
                    let (v1, t1) = walk(&mut it, Some(m as u32), cap, &mut ps);
                    (v1, matches!(t1, Term::End))
                });
                match r {
                    Ok((v1, true)) if v1 == want => {}
                    _ => module_level_ok = false,
                }
            }
        }
    }

    let mut comp = match catch(|| Component::parse(&d.bytes, false)) {
        Ok(Ok(c)) => c,
        Ok(Err(e)) => {
            o.fail("parse-error", format!("{:?}", e));
            return o;
        }
        Err(p) => {
            o.fail(format!("panic parse {}", p.site()), format!("{} at {}:{}", p.msg, p.file, p.line));
            return o;
        }
    };
    let note = if module_level_ok {
        " [module-level iterators agree with the model on every module]"
    } else {
        " [a module-level iterator deviates from the model on this case too]"
    };
    let sm = skip_map(c);
    let cref = &mut comp;
    let mut it = match catch(move || ComponentIterator::new(cref, sm)) {
        Ok(it) => it,
        Err(p) => {
            let t = Term::Panic("new", p);
            if let Some((sig, detail)) = judge_pass(1, &model, &[], &t, &shape, &d.skips, None) {
                o.fail(sig, format!("{}{}", detail, note));
            }
            return o;
        }
    };
    let mut ps = PlanState { probes: &[], applied: vec![] };
    let (a1, t1) = walk(&mut it, None, cap, &mut ps);
    o.observed = hash_of(&a1);
    let mut second = matches!(t1, Term::End);
    if let Some((sig, detail)) = judge_pass(1, &model, &a1, &t1, &shape, &d.skips, None) {
        o.fail(sig, format!("{}{}", detail, note));
    }
    if model.is_empty() {
        // nothing to visit: reset() on an iterator that never had a position is not exercised
        second = false;
    }
    if second {
        let stale_from = a1.last().map(|v| v.m as usize);
        match catch(|| it.reset()) {
            Err(p) => {
                let t = Term::Panic("reset", p);
                if let Some((sig, detail)) = judge_pass(2, &model, &[], &t, &shape, &d.skips, stale_from) {
                    o.fail(sig, format!("{}{}", detail, note));
                }
            }
            Ok(()) => {
                let (a2, t2) = walk(&mut it, None, cap, &mut ps);
                o.observed = hash_of(&(&a1, &a2));
                if let Some((sig, detail)) = judge_pass(2, &model, &a2, &t2, &shape, &d.skips, stale_from) {
                    o.fail(sig, format!("{}{}", detail, note));
                }
            }
        }
    }
    o
}

fn run_inject(c: &Case) -> Outcome {
    let d = match prepare(c) {
        Ok(d) => d,
        Err(e) => return Outcome::skip(format!("generated input invalid: {}", e)),
    };
    let modes: Vec<&str> = c.plan.iter().map(|p| ["before", "after", "alternate", "empty-alternate", "func-entry", "func-exit", "block-entry", "block-exit", "block-alt", "empty-block-alt", "semantic-after"][p.mode.min(10) as usize]).collect();
    let same_loc = c.plan.len() == 2 && (c.plan[0].m, c.plan[0].f, c.plan[0].i) == (c.plan[1].m, c.plan[1].f, c.plan[1].i);
    let same_mod = c.plan.len() == 2 && c.plan[0].m == c.plan[1].m;
    let at_end = c.plan.iter().any(|p| {
        let mm = &d.mods[p.m as usize];
        let j = (p.f - mm.k) as usize;
        p.i + 1 == mm.funcs[j].len()
    });
    let mut o = Outcome::ok(format!(
        "{}m {:?}{}{}{}",
        c.mods.len(),
        modes,
        if same_loc { " same-loc" } else if same_mod { " same-mod" } else { "" },
        if at_end { " on-final-end" } else { "" },
        if c.mods.iter().any(|m| !m.skip.is_empty()) { " skips" } else { "" }
    ));
    if c.at_api {
        o.class.push_str(" location-addressed");
    }
    let cap = 256;
    // (1) through the component iterator
    let mut comp1 = match catch(|| Component::parse(&d.bytes, false)) {
        Ok(Ok(c)) => c,
        _ => return Outcome::skip("parse failed (judged in family visit)"),
    };
    let mut ps = PlanState { probes: &c.plan, applied: vec![false; c.plan.len()] };
    {
        let sm = skip_map(c);
        let cref = &mut comp1;
        let mut it = match catch(move || ComponentIterator::new(cref, sm)) {
            Ok(it) => it,
            Err(_) => return Outcome::skip("iterator panicked (judged in family visit)"),
        };
        if c.at_api {
            if let Err(p) = apply_at(&mut it, &c.plan, None, true) {
                o.fail(format!("injection panic component-iterator {}", p.site()), format!("{} at {}:{}", p.msg, p.file, p.line));
                return o;
            }
            ps.applied.iter_mut().for_each(|a| *a = true);
        } else {
            let (_v, t) = walk(&mut it, None, cap, &mut ps);
            match t {
                Term::End => {}
                Term::Panic("inject", p) => {
                    o.fail(format!("injection panic component-iterator {}", p.site()), format!("{} at {}:{}", p.msg, p.file, p.line));
                    return o;
                }
                _ => return Outcome::skip("iterator panicked (judged in family visit)"),
            }
        }
    }
    if ps.applied.iter().any(|a| !a) {
        return Outcome::skip("planned location not reached by the component iterator (visit-sequence defect, judged in family visit)");
    }
    let out1 = catch(|| comp1.encode());
    // (2) through one module iterator per module, on a second parse
    let mut comp2 = match catch(|| Component::parse(&d.bytes, false)) {
        Ok(Ok(c)) => c,
        _ => return Outcome::skip("parse failed (judged in family visit)"),
    };
    let mut enc2: Vec<Result<Vec<u8>, PanicInfo>> = vec![];
    for m in 0..d.mods.len() {
        let probes: Vec<Probe> = c.plan.iter().filter(|p| p.m == m as u32).cloned().collect();
        if !probes.is_empty() {
            // probe values must be those of the whole plan: keep the plan, filter by module in walk
            let mut ps2 = PlanState { probes: &c.plan, applied: vec![false; c.plan.len()] };
            let skip: Vec<FunctionID> = d.skips[m].iter().map(|f| FunctionID(*f)).collect();
            let mref = &mut comp2.modules[m];
            let mut it = match catch(move || ModuleIterator::new(mref, &skip)) {
                Ok(it) => it,
                Err(_) => return Outcome::skip("module iterator panicked (C25's business)"),
            };
            if c.at_api {
                if let Err(p) = apply_at(&mut it, &c.plan, Some(m as u32), false) {
                    o.fail(format!("injection panic module-iterator {}", p.site()), format!("{} at {}:{}", p.msg, p.file, p.line));
                    return o;
                }
                ps2.applied.iter_mut().for_each(|a| *a = true);
            } else {
                let (_v, t) = walk(&mut it, Some(m as u32), cap, &mut ps2);
                match t {
                    Term::End => {}
                    Term::Panic("inject", p) => {
                        o.fail(format!("injection panic module-iterator {}", p.site()), format!("{} at {}:{}", p.msg, p.file, p.line));
                        return o;
                    }
                    _ => return Outcome::skip("module iterator panicked (C25's business)"),
                }
            }
            let reached = c.plan.iter().zip(ps2.applied.iter()).all(|(p, a)| p.m != m as u32 || *a);
            if !reached {
                return Outcome::skip("planned location not reached by the module iterator (C25's business)");
            }
        }
        enc2.push(catch(|| comp2.modules[m].encode()));
    }
    let out1 = match out1 {
        Ok(b) => b,
        Err(p) => {
            if enc2.iter().any(|e| e.is_err()) {
                // both ways fail to encode: same behaviour
                o.class.push_str(" both-encodes-panic");
                return o;
            }
            o.fail(
                format!("injection panic component-encode {}", p.site()),
                format!("comp.encode() panics ({} at {}:{}) while the standalone modules encode", p.msg, p.file, p.line),
            );
            return o;
        }
    };
    o.observed = hash_of(&out1);
    let got = match top_level_modules(&out1) {
        Ok(g) => g,
        Err(e) => {
            o.fail("injection output-undecodable", e);
            return o;
        }
    };
    if got.len() != enc2.len() {
        o.fail("injection module-count", format!("component output has {} core modules, input had {}", got.len(), enc2.len()));
        return o;
    }
    for (m, (g, e)) in got.iter().zip(enc2.iter()).enumerate() {
        match e {
            Err(p) => {
                o.fail(
                    format!("injection panic module-encode-only {}", p.site()),
                    format!("module {}: standalone encode panics ({}) but the component encoded it", m, p.msg),
                );
            }
            Ok(e) => {
                if *g != e.as_slice() {
                    let planned = c.plan.iter().any(|p| p.m == m as u32);
                    let ta = crate::wasmutil::print_text(g).unwrap_or_else(|e| format!("<unprintable: {}>", e));
                    let tb = crate::wasmutil::print_text(e).unwrap_or_else(|e| format!("<unprintable: {}>", e));
                    o.fail(
                        format!(
                            "injection module-bytes-differ {}",
                            if planned { modes.join("+") } else { "uninstrumented-module".to_string() }
                        ),
                        format!(
                            "module {} of comp.encode() differs from the module-iterator encoding; plan {:?}\n-- via component iterator:\n{}\n-- via module iterator:\n{}",
                            m, c.plan, ta, tb
                        ),
                    );
                }
            }
        }
    }
    o
}

// ---------------------------------------------------------------------------------------------
// enumeration
// ---------------------------------------------------------------------------------------------
fn family(ks: &[u32], ns: &[usize], lens: &[u32], import_variants: bool) -> Vec<ModSpec> {
    let mut out = vec![];
    for &n in ns {
        for &k in ks {
            // all length vectors
            let total = lens.len().pow(n as u32);
            for li in 0..total {
                let mut x = li;
                let mut lv = vec![];
                for _ in 0..n {
                    lv.push(lens[x % lens.len()]);
                    x /= lens.len();
                }
                for mask in 0..(1u32 << n) {
                    let skip: Vec<u32> = (0..n as u32).filter(|j| mask & (1 << j) != 0).map(|j| k + j).collect();
                    out.push(ModSpec { k, lens: lv.clone(), skip: skip.clone() });
                    if import_variants && k > 0 {
                        let mut s2: Vec<u32> = (0..k).collect();
                        s2.extend(skip.iter());
                        out.push(ModSpec { k, lens: lv.clone(), skip: s2 });
                    }
                }
            }
        }
    }
    out
}

fn plans(model: &[Visit], max: usize) -> Vec<Vec<Probe>> {
    let mut out = vec![vec![]];
    let pr = |v: &Visit, mode: u8| Probe { m: v.m, f: v.f, i: v.i, mode };
    if max >= 1 {
        for v in model {
            for mode in 0..3u8 {
                out.push(vec![pr(v, mode)]);
            }
        }
    }
    if max >= 2 {
        for (a, va) in model.iter().enumerate() {
            for vb in model[a..].iter() {
                for ma in 0..3u8 {
                    for mb in 0..3u8 {
                        out.push(vec![pr(va, ma), pr(vb, mb)]);
                    }
                }
            }
        }
    }
    out
}

/// plans over all injection modes: the basic ones and function entry/exit anywhere, the block modes on
/// `block` openers
fn plans_all_modes(model: &[Visit], max: usize) -> Vec<Vec<Probe>> {
    let pr = |v: &Visit, mode: u8| Probe { m: v.m, f: v.f, i: v.i, mode };
    let mut singles = vec![];
    for v in model {
        let blockish = v.op.starts_with("Block");
        for mode in 0..=10u8 {
            if mode >= 6 && !blockish {
                continue;
            }
            if (mode == 4 || mode == 5) && v.i != 0 {
                continue; // function-level: once per function, issued at its first instruction
            }
            if (mode == 2 || mode == 3) && (blockish || v.op == "End") {
                continue; // an alternate on a structural instruction unbalances the body
            }
            singles.push(pr(v, mode));
        }
    }
    let mut out: Vec<Vec<Probe>> = singles.iter().map(|p| vec![p.clone()]).collect();
    if max >= 2 {
        for (a, pa) in singles.iter().enumerate() {
            for pb in singles[a..].iter() {
                out.push(vec![pa.clone(), pb.clone()]);
            }
        }
    }
    out
}

pub fn check(tier: Tier) -> i32 {
    let mut run = Run::new("C26", tier, "exploration");
    let full = family(&[0, 1, 2], &[0, 1, 2, 3], &[1, 2, 3], true);
    let mid = family(&[0, 1], &[0, 1, 2, 3], &[1, 2], false);
    let small = family(&[0, 1], &[0, 1, 2], &[1, 2], false);
    let two = tier.pick(&mid, &full);
    let three = tier.pick(&small, &mid);
    run.rule = format!(
        "visit: components of 1..3 core modules (k function imports x n local functions of body length l, bodies = nop padding + end) x ALL skip maps (every subset of each module's local function ids; variants that also name every imported id); 1 module: k<=2,n<=3,l<=3 with import-id variants ({} configs) x nested-component position; 2 modules: {} configs squared; 3 modules: {} configs cubed; oracle = iterator model (nested loops over wasmparser-decoded code sections), compared on (mod,func,instr,is_end,op) from construction to None and again after reset(). inject: components of 1..2 modules over {{k<=1,n in 1..2,l<=2, all skip subsets}} and 3 modules with k=0, every plan of <= {} probes (i32.const unique; drop) x modes before/after/alternate at every model-visited location (ordered pairs incl. same location), and on bodies with a block every plan of <= that many probes (one-module components: <= 2 in both tiers) over ALL modes (before, after, alternate, empty alternate, function entry/exit, block entry/exit, block alternate, empty block alternate, semantic after), each also through the location-addressed API (`*_at(loc)` + `add_instr_at`) from a fresh iterator, so that locations in other modules than the one the iterator stands in occur; every core module of comp.encode() byte-equal to module.encode() after the same plan through ModuleIterator on a second parse. non-trivial class = (module count, per-module local count and skip pattern) resp. (module count, mode list, same location/module, on final end, skips present)",
        full.len(),
        two.len(),
        three.len(),
        tier.pick(1, 2)
    );
    run.extra.insert("module_configs_1".into(), serde_json::json!(full.len()));
    run.extra.insert("module_configs_2".into(), serde_json::json!(two.len()));
    run.extra.insert("module_configs_3".into(), serde_json::json!(three.len()));
    run.extra.insert("max_probes".into(), serde_json::json!(tier.pick(1, 2)));

    // ---- visit, smallest first
    let mut cases = vec![];
    for a in full.iter() {
        cases.push(Case { mods: vec![a.clone()], nest_at: None, plan: vec![], at_api: false });
    }
    for a in full.iter() {
        for pos in 0..=1 {
            cases.push(Case { mods: vec![a.clone()], nest_at: Some(pos), plan: vec![], at_api: false });
        }
    }
    run.run_cases("visit", &cases, run_visit);
    for a in two.iter() {
        let mut cases = vec![];
        for b in two.iter() {
            cases.push(Case { mods: vec![a.clone(), b.clone()], nest_at: None, plan: vec![], at_api: false });
        }
        run.run_cases("visit", &cases, run_visit);
    }
    {
        let mut cases = vec![];
        for a in small.iter() {
            for b in small.iter() {
                for pos in 0..=2 {
                    cases.push(Case { mods: vec![a.clone(), b.clone()], nest_at: Some(pos), plan: vec![], at_api: false });
                }
            }
        }
        run.run_cases("visit", &cases, run_visit);
    }
    for a in three.iter() {
        let mut cases = vec![];
        for b in three.iter() {
            for c in three.iter() {
                cases.push(Case { mods: vec![a.clone(), b.clone(), c.clone()], nest_at: None, plan: vec![], at_api: false });
            }
        }
        run.run_cases("visit", &cases, run_visit);
    }

    // ---- inject
    let inj = family(&[0, 1], &[1, 2], &[1, 2], false);
    let inj0 = family(&[0], &[1, 2], &[1, 2], false);
    let maxp = tier.pick(1usize, 2usize);
    let mut comps: Vec<Vec<ModSpec>> = vec![];
    for a in inj.iter() {
        comps.push(vec![a.clone()]);
    }
    for a in inj.iter() {
        for b in inj.iter() {
            comps.push(vec![a.clone(), b.clone()]);
        }
    }
    for a in inj0.iter() {
        for b in inj0.iter() {
            for c in inj0.iter() {
                comps.push(vec![a.clone(), b.clone(), c.clone()]);
            }
        }
    }
    run.extra.insert("inject_components".into(), serde_json::json!(comps.len()));
    let mut cases = vec![];
    for mods in comps {
        let base = Case { mods, nest_at: None, plan: vec![], at_api: false };
        let d = match prepare(&base) {
            Ok(d) => d,
            Err(e) => {
                run.machinery_error(format!("inject generator: {}", e));
                continue;
            }
        };
        let model = model_visits(&d.mods, &d.skips);
        for plan in plans(&model, maxp) {
            cases.push(Case { mods: base.mods.clone(), nest_at: None, plan, at_api: false });
        }
        if cases.len() > 400_000 {
            run.run_cases("inject", &cases, run_inject);
            cases.clear();
        }
    }
    run.run_cases("inject", &cases, run_inject);
    // ---- inject, every mode: bodies with a construct, special modes included (differential oracle only)
    {
        let fam = family(&[0, 1], &[1, 2], &[10, 2], false);
        let mut comps: Vec<Vec<ModSpec>> = fam.iter().map(|a| vec![a.clone()]).collect();
        for a in fam.iter().filter(|a| a.skip.is_empty()) {
            for b in fam.iter().filter(|b| b.skip.is_empty()) {
                comps.push(vec![a.clone(), b.clone()]);
            }
        }
        let mut cases = vec![];
        for mods in comps {
            let base = Case { mods, nest_at: None, plan: vec![], at_api: false };
            let d = match prepare(&base) {
                Ok(d) => d,
                Err(e) => {
                    run.machinery_error(format!("inject generator: {}", e));
                    continue;
                }
            };
            let model = model_visits(&d.mods, &d.skips);
            // pairs also in the quick tier for one-module components: a second injection at a location
            // that already carries one (alternate then removal, function entry then before, ...)
            let maxp_here = if base.mods.len() == 1 { 2 } else { maxp };
            for plan in plans_all_modes(&model, maxp_here) {
                // the location-addressed API has no function-level modes
                if plan.iter().all(|p| p.mode != 4 && p.mode != 5) {
                    cases.push(Case { mods: base.mods.clone(), nest_at: None, plan: plan.clone(), at_api: true });
                }
                cases.push(Case { mods: base.mods.clone(), nest_at: None, plan, at_api: false });
            }
        }
        run.run_cases("inject", &cases, run_inject);
    }
    run.assumptions.push("decoding by wasmparser 0.235 and the component section framing (id, LEB size) are as specified; modules without local functions or with every function skipped contribute no visit; cases where an iterator does not reach a planned location are excluded from the injection comparison (they are consequences of visit-sequence defects judged in family visit)".into());
    run.finish()
}

pub fn replay(family: &str, case: &serde_json::Value) -> Vec<Mismatch> {
    let c: Case = match serde_json::from_value(case.clone()) {
        Ok(c) => c,
        Err(e) => return vec![Mismatch::new("replay-case-unreadable", e.to_string())],
    };
    match family {
        "inject" => run_inject(&c).mismatches,
        _ => run_visit(&c).mismatches,
    }
}
