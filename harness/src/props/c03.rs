//! C03 — Parsing never panics.
//!
//! Property: `wirm::Module::parse(bytes, false)`, `Module::parse(bytes, true)` and
//! `wirm::Component::parse(bytes, false)` on ANY byte string return `Ok`/`Err`; they never panic
//! and never abort the process.
//!
//! Technique (DESIGN §1 E7): fault enumeration. A bounded family of valid seed binaries (built
//! without wirm) and, for every seed, the COMPLETE neighbourhoods
//!   seed   the seed itself
//!   trunc  every proper prefix
//!   sub1s  every offset x {0x00,0x01,0x7F,0x80,0xFF,b+1,b-1,b^0x80,b^0x01}          (quick)
//!   sub1f  every offset x all 255 other byte values (complete 1-byte neighbourhood) (thorough)
//!   del1   every single-byte deletion
//!   ins1   every insertion position x {0x00,0x01,0x7F,0x80,0xFF,copy of the next byte}
//!   sub2s  seeds <= 64 bytes: every pair of offsets x small alphabet squared       (thorough)
//! are enumerated (nothing is sampled; mutants that coincide with another mutant of the same seed
//! are recognised analytically and executed once). Every mutant goes through the three parsers.
//!
//! Oracle: `Ok`/`Err` is fine. A panic is a mismatch whose signature is the panic site
//! (`panic <file>:<enclosing fn>:<message head> (<module|component>)`). Allocation failure, stack
//! overflow and other aborts cannot be caught, therefore the sweep runs in worker sub-processes of
//! this binary (`orca-mc c03-worker ...`); a dead worker is attributed to one (mutant, parser) by
//! the index a signal handler leaves on stderr, confirmed by re-running that mutant alone in a
//! fresh worker (bisection when there is no hint), and reported as `abort <signal> (<parser>)`.
//! A parse that does not return within 30 s is reported as `no-return-within-30s (<parser>)`.
//!
//! Lenient readings (no false alarm): only panics/aborts/non-return are judged; what the parsers
//! return (Ok on garbage, Err on valid input) is not this property's business.
use crate::engine::*;
use serde_json::{json, Map, Value};
use std::collections::{BTreeMap, BTreeSet, HashMap, HashSet, VecDeque};
use std::io::{BufRead, BufReader, Read, Write};
use std::process::{Child, ChildStdin, ChildStdout, Command, Stdio};
use std::sync::atomic::{AtomicBool, AtomicU64, Ordering};
use std::sync::{Arc, Condvar, Mutex};

include!("c03_seeds.rs");

// ---------------------------------------------------------------------------------------------
// seeds
// ---------------------------------------------------------------------------------------------
#[derive(Clone, Debug)]
struct Seed {
    name: String,
    /// core | component | ladder | corpus
    kind: &'static str,
    bytes: Vec<u8>,
    /// 0 = all families of the tier; 1 = small substitution alphabet in both tiers (parse time
    /// grows quadratically with nesting depth); 2 = only seed/trunc (inputs that exist to show
    /// a stack overflow: every structure-preserving mutant aborts as well)
    policy: u8,
}

/// offsets at or beyond this are not mutated by sub1/del1/ins1 (only the deepest ladders and a
/// few corpus files are larger)
const LIMIT: usize = 4096;
/// seeds up to this size get every proper prefix; larger ones a strided set of prefixes
const TRUNC_LIMIT: usize = 65536;
/// seeds larger than this get the small substitution alphabet even in the thorough tier
const FULL_ALPHABET_MAX_SEED: usize = 65536;
const SUB2_MAX_SEED: usize = 64;
const CORPUS_DIR: &str = "/repo/tests/test_inputs";

struct SeedSet {
    seeds: Vec<Seed>,
    /// built-in seeds whose text did not convert (a defect of this file: machinery error)
    broken: Vec<String>,
    corpus_skipped: Vec<String>,
    duplicates: Vec<String>,
}

fn ladder_depths(tier: Tier) -> Vec<usize> {
    let mut d = vec![1, 2, 3, 4, 5, 6, 7, 8, 16, 64, 256];
    if tier == Tier::Thorough {
        d.push(1024);
    }
    d.push(2048);
    d
}
fn type_ladder_depths(_tier: Tier) -> Vec<usize> {
    vec![1, 2, 8, 64, 256, 16384]
}

fn build_seeds(tier: Tier) -> SeedSet {
    let mut set = SeedSet { seeds: vec![], broken: vec![], corpus_skipped: vec![], duplicates: vec![] };
    let mut seen: HashSet<Vec<u8>> = HashSet::new();
    let mut push = |set: &mut SeedSet, name: String, kind: &'static str, bytes: Vec<u8>| {
        if seen.insert(bytes.clone()) {
            let depth: usize = name.rsplit('-').next().and_then(|d| d.parse().ok()).unwrap_or(0);
            let policy = match kind {
                "ladder" if depth > 1024 => 2,
                "ladder" if depth > 64 => 1,
                "typeladder" if depth > 1024 => 2,
                _ => 0,
            };
            set.seeds.push(Seed { name, kind, bytes, policy });
        } else {
            set.duplicates.push(name);
        }
    };
    for (n, w) in CORE_WATS {
        match wat::parse_str(w) {
            Ok(b) => push(&mut set, n.to_string(), "core", b),
            Err(e) => set.broken.push(format!("{}: {}", n, e)),
        }
    }
    for (n, w) in generated_core_wats() {
        match wat::parse_str(&w) {
            Ok(b) => push(&mut set, n, "core", b),
            Err(e) => set.broken.push(format!("{}: {}", n, e)),
        }
    }
    for (n, b) in raw_core_seeds() {
        push(&mut set, n, "core", b);
    }
    for (n, w) in COMPONENT_WATS {
        match wat::parse_str(w) {
            Ok(b) => push(&mut set, n.to_string(), "component", b),
            Err(e) => set.broken.push(format!("{}: {}", n, e)),
        }
    }
    for (n, b) in raw_component_seeds() {
        push(&mut set, n, "component", b);
    }
    for d in ladder_depths(tier) {
        push(&mut set, format!("ladder-{}", d), "ladder", ladder(d));
    }
    for d in type_ladder_depths(tier) {
        push(&mut set, format!("ctype-ladder-{}", d), "typeladder", type_ladder(d, 0x41));
        if d <= 256 {
            push(&mut set, format!("itype-ladder-{}", d), "typeladder", type_ladder(d, 0x42));
        }
    }
    if tier == Tier::Thorough {
        let mut files = vec![];
        collect_files(std::path::Path::new(CORPUS_DIR), &mut files);
        files.sort();
        for f in files {
            let rel = f.strip_prefix(CORPUS_DIR).unwrap_or(&f).trim_start_matches('/').to_string();
            match wat::parse_file(&f) {
                Ok(b) if !b.is_empty() => push(&mut set, format!("corpus:{}", rel), "corpus", b),
                Ok(_) => set.corpus_skipped.push(format!("{}: empty", rel)),
                Err(e) => {
                    let msg = e.to_string();
                    set.corpus_skipped.push(format!("{}: {}", rel, msg.lines().next().unwrap_or("")));
                }
            }
        }
    }
    set
}

fn collect_files(dir: &std::path::Path, out: &mut Vec<String>) {
    if let Ok(rd) = std::fs::read_dir(dir) {
        for e in rd.flatten() {
            let p = e.path();
            if p.is_dir() {
                collect_files(&p, out);
            } else if let Some(ext) = p.extension().and_then(|x| x.to_str()) {
                if ext == "wat" || ext == "wasm" {
                    out.push(p.to_string_lossy().to_string());
                }
            }
        }
    }
}

fn write_seed_file(path: &str, seeds: &[Seed]) -> std::io::Result<()> {
    let mut buf = vec![];
    buf.extend_from_slice(&(seeds.len() as u32).to_le_bytes());
    for s in seeds {
        buf.extend_from_slice(&(s.name.len() as u32).to_le_bytes());
        buf.extend_from_slice(s.name.as_bytes());
        buf.extend_from_slice(&(s.bytes.len() as u32).to_le_bytes());
        buf.extend_from_slice(&s.bytes);
    }
    std::fs::write(path, buf)
}

fn read_seed_file(path: &str) -> Result<Vec<Seed>, String> {
    let buf = std::fs::read(path).map_err(|e| e.to_string())?;
    let mut pos = 0usize;
    let u32_at = |pos: &mut usize| -> Result<usize, String> {
        let b = buf.get(*pos..*pos + 4).ok_or("seed file truncated")?;
        *pos += 4;
        Ok(u32::from_le_bytes([b[0], b[1], b[2], b[3]]) as usize)
    };
    let n = u32_at(&mut pos)?;
    let mut seeds = vec![];
    for _ in 0..n {
        let l = u32_at(&mut pos)?;
        let name = String::from_utf8_lossy(buf.get(pos..pos + l).ok_or("seed file truncated")?).to_string();
        pos += l;
        let l = u32_at(&mut pos)?;
        let bytes = buf.get(pos..pos + l).ok_or("seed file truncated")?.to_vec();
        pos += l;
        seeds.push(Seed { name, kind: "", bytes, policy: 0 });
    }
    Ok(seeds)
}

// ---------------------------------------------------------------------------------------------
// mutation families: index space -> mutant
// ---------------------------------------------------------------------------------------------
#[derive(Clone, Copy, PartialEq, Eq, Hash, PartialOrd, Ord, Debug)]
enum Fam {
    Seed,
    Trunc,
    Sub1S,
    Sub1F,
    Del1,
    Ins1,
    Sub2S,
}
const ALL_FAMS: [Fam; 7] = [Fam::Seed, Fam::Trunc, Fam::Sub1S, Fam::Sub1F, Fam::Del1, Fam::Ins1, Fam::Sub2S];
impl Fam {
    fn name(self) -> &'static str {
        match self {
            Fam::Seed => "seed",
            Fam::Trunc => "trunc",
            Fam::Sub1S => "sub1s",
            Fam::Sub1F => "sub1f",
            Fam::Del1 => "del1",
            Fam::Ins1 => "ins1",
            Fam::Sub2S => "sub2s",
        }
    }
    fn from_name(s: &str) -> Option<Fam> {
        ALL_FAMS.iter().copied().find(|f| f.name() == s)
    }
}

fn small_alpha(b: u8) -> [u8; 9] {
    [0x00, 0x01, 0x7F, 0x80, 0xFF, b.wrapping_add(1), b.wrapping_sub(1), b ^ 0x80, b ^ 0x01]
}
/// k-th value of the small alphabet for a byte `b`; None when it equals `b` or an earlier entry
fn small_pick(b: u8, k: usize) -> Option<u8> {
    let a = small_alpha(b);
    let v = a[k];
    if v == b || a[..k].contains(&v) {
        None
    } else {
        Some(v)
    }
}
const INS_CONSTS: [u8; 5] = [0x00, 0x01, 0x7F, 0x80, 0xFF];

const TR_HEAD: usize = 1024;
const TR_MID: usize = 2048;
const TR_TAIL: usize = 256;
/// length of the i-th truncation of a seed of n bytes (all proper prefixes when n <= TRUNC_LIMIT)
fn trunc_len(n: usize, i: u64) -> usize {
    let i = i as usize;
    if n <= TRUNC_LIMIT {
        return i;
    }
    if i < TR_HEAD {
        i
    } else if i < TR_HEAD + TR_MID {
        let j = i - TR_HEAD;
        TR_HEAD + ((j + 1) * (n - TR_TAIL - TR_HEAD)) / (TR_MID + 1)
    } else {
        n - TR_TAIL + (i - TR_HEAD - TR_MID)
    }
}

fn family_size(n: usize, fam: Fam) -> u64 {
    let m = n.min(LIMIT) as u64;
    match fam {
        Fam::Seed => 1,
        Fam::Trunc => {
            if n <= TRUNC_LIMIT {
                n as u64
            } else {
                (TR_HEAD + TR_MID + TR_TAIL) as u64
            }
        }
        Fam::Sub1S => m * 9,
        Fam::Sub1F => m * 256,
        Fam::Del1 => m,
        Fam::Ins1 => (m + 1) * 6,
        Fam::Sub2S => {
            if n <= SUB2_MAX_SEED && n >= 2 {
                (n as u64 * (n as u64 - 1) / 2) * 81
            } else {
                0
            }
        }
    }
}

/// pair index -> (i, j) with i < j < n, lexicographic
fn pair_of(n: usize, mut p: u64) -> (usize, usize) {
    let mut i = 0usize;
    loop {
        let row = (n - 1 - i) as u64;
        if p < row {
            return (i, i + 1 + p as usize);
        }
        p -= row;
        i += 1;
    }
}

/// Build mutant `idx` of family `fam` into `out`. Returns false when the mutant coincides with
/// the seed or with another mutant of the same seed that is enumerated elsewhere (duplicate).
fn mutant(seed: &[u8], fam: Fam, idx: u64, out: &mut Vec<u8>) -> bool {
    let n = seed.len();
    out.clear();
    match fam {
        Fam::Seed => {
            out.extend_from_slice(seed);
            true
        }
        Fam::Trunc => {
            let l = trunc_len(n, idx);
            out.extend_from_slice(&seed[..l]);
            true
        }
        Fam::Sub1S => {
            let off = (idx / 9) as usize;
            match small_pick(seed[off], (idx % 9) as usize) {
                Some(v) => {
                    out.extend_from_slice(seed);
                    out[off] = v;
                    true
                }
                None => false,
            }
        }
        Fam::Sub1F => {
            let off = (idx / 256) as usize;
            let v = (idx % 256) as u8;
            if v == seed[off] {
                return false;
            }
            out.extend_from_slice(seed);
            out[off] = v;
            true
        }
        Fam::Del1 => {
            let off = idx as usize;
            // deleting the last byte is the longest truncation; deleting inside a run of equal
            // bytes gives the same string for every position of the run (keep the first)
            if off == n - 1 || (off > 0 && seed[off] == seed[off - 1]) {
                return false;
            }
            out.extend_from_slice(&seed[..off]);
            out.extend_from_slice(&seed[off + 1..]);
            true
        }
        Fam::Ins1 => {
            let pos = (idx / 6) as usize;
            let k = (idx % 6) as usize;
            let v = if k < 5 {
                INS_CONSTS[k]
            } else if pos < n {
                seed[pos]
            } else {
                0x0B
            };
            if k == 5 && INS_CONSTS.contains(&v) {
                return false;
            }
            // inserting v right after a byte equal to v equals inserting it before that byte
            if pos > 0 && seed[pos - 1] == v {
                return false;
            }
            out.extend_from_slice(&seed[..pos]);
            out.push(v);
            out.extend_from_slice(&seed[pos..]);
            true
        }
        Fam::Sub2S => {
            let (i, j) = pair_of(n, idx / 81);
            let k = (idx % 81) as usize;
            match (small_pick(seed[i], k / 9), small_pick(seed[j], k % 9)) {
                (Some(a), Some(b)) => {
                    out.extend_from_slice(seed);
                    out[i] = a;
                    out[j] = b;
                    true
                }
                _ => false,
            }
        }
    }
}

fn describe(seed: &[u8], fam: Fam, idx: u64) -> String {
    let n = seed.len();
    match fam {
        Fam::Seed => "unmodified seed".to_string(),
        Fam::Trunc => format!("prefix of {} of {} bytes", trunc_len(n, idx), n),
        Fam::Sub1S => {
            let off = (idx / 9) as usize;
            format!("byte {} 0x{:02x} -> 0x{:02x}", off, seed[off], small_alpha(seed[off])[(idx % 9) as usize])
        }
        Fam::Sub1F => format!("byte {} 0x{:02x} -> 0x{:02x}", idx / 256, seed[(idx / 256) as usize], idx % 256),
        Fam::Del1 => format!("byte {} (0x{:02x}) deleted", idx, seed[idx as usize]),
        Fam::Ins1 => {
            let mut m = vec![];
            mutant(seed, fam, idx, &mut m);
            let pos = (idx / 6) as usize;
            format!("0x{:02x} inserted at {}", m.get(pos).copied().unwrap_or(0), pos)
        }
        Fam::Sub2S => {
            let (i, j) = pair_of(n, idx / 81);
            let k = (idx % 81) as usize;
            format!(
                "byte {} 0x{:02x} -> 0x{:02x}, byte {} 0x{:02x} -> 0x{:02x}",
                i,
                seed[i],
                small_alpha(seed[i])[k / 9],
                j,
                seed[j],
                small_alpha(seed[j])[k % 9]
            )
        }
    }
}

fn families_for(seed: &Seed, tier: Tier) -> Vec<Fam> {
    let n = seed.bytes.len();
    let mut v = vec![Fam::Seed, Fam::Trunc];
    if seed.policy == 2 {
        return v;
    }
    let full = tier == Tier::Thorough && n <= FULL_ALPHABET_MAX_SEED && seed.policy == 0;
    v.push(if full { Fam::Sub1F } else { Fam::Sub1S });
    v.push(Fam::Del1);
    v.push(Fam::Ins1);
    if tier == Tier::Thorough && n <= SUB2_MAX_SEED && n >= 2 {
        v.push(Fam::Sub2S);
    }
    v
}

// ---------------------------------------------------------------------------------------------
// the three parsers and the outcome of one call
// ---------------------------------------------------------------------------------------------
const PARSERS: [&str; 3] = ["module(multi_memory=false)", "module(multi_memory=true)", "component"];
fn parser_group(p: usize) -> &'static str {
    if p == 2 {
        "component"
    } else {
        "module"
    }
}

enum Parsed {
    Ok,
    Err(String),
    Panic(PanicInfo),
}

fn run_parser(p: usize, bytes: &[u8]) -> Parsed {
    let r = catch(|| match p {
        0 => wirm::Module::parse(bytes, false).map(|_| ()).map_err(|e| e.to_string()),
        1 => wirm::Module::parse(bytes, true).map(|_| ()).map_err(|e| e.to_string()),
        _ => wirm::Component::parse(bytes, false).map(|_| ()).map_err(|e| e.to_string()),
    });
    match r {
        Ok(Ok(())) => Parsed::Ok,
        Ok(Err(e)) => Parsed::Err(e),
        Err(p) => Parsed::Panic(p),
    }
}

/// digits (decimal runs, 0x.. runs) masked, cut at `cut` characters
fn mask(s: &str, cut: usize) -> String {
    let mut out = String::new();
    let cs: Vec<char> = s.chars().collect();
    let mut i = 0;
    while i < cs.len() && out.chars().count() < cut {
        let c = cs[i];
        if c == '0' && i + 1 < cs.len() && cs[i + 1] == 'x' && i + 2 < cs.len() && cs[i + 2].is_ascii_hexdigit() {
            out.push_str("0x#");
            i += 2;
            while i < cs.len() && cs[i].is_ascii_hexdigit() {
                i += 1;
            }
        } else if c.is_ascii_digit() {
            out.push('#');
            while i < cs.len() && cs[i].is_ascii_digit() {
                i += 1;
            }
        } else if c.is_whitespace() {
            if !out.ends_with(' ') {
                out.push(' ');
            }
            i += 1;
        } else {
            out.push(c);
            i += 1;
        }
    }
    out.trim().to_string()
}

/// class of an error return: message without positions and numbers
fn err_class(msg: &str) -> String {
    let m = match msg.find(" (at offset") {
        Some(i) => &msg[..i],
        None => msg,
    };
    mask(m, 56)
}

/// head of a panic message: digits masked, cut at the first ": " (what follows is the payload of
/// an `unwrap`/`expect`/`panic!("..: {}", e)` and varies with the input), at most 60 characters
fn panic_head(msg: &str) -> String {
    let m = mask(msg, 200);
    // `unreachable!`/`unimplemented!`/`todo!` put a fixed phrase in front of the message
    let skip = ["internal error: entered unreachable code: ", "not implemented: ", "not yet implemented: "]
        .iter()
        .find(|p| m.starts_with(**p))
        .map(|p| p.len())
        .unwrap_or(0);
    let m = match m[skip..].find(": ") {
        Some(i) if i >= 3 => m[..skip + i].to_string(),
        _ => m,
    };
    m.chars().take(60).collect::<String>().trim().to_string()
}

/// file of a panic location relative to the crate that contains it
fn rel_file(file: &str) -> String {
    if let Some(i) = file.find("/registry/src/") {
        // <index dir>/<crate-version>/src/...
        let rest = &file[i + "/registry/src/".len()..];
        return rest.splitn(2, '/').nth(1).unwrap_or(rest).to_string();
    }
    if let Some(i) = file.find("/rustc/") {
        let rest = &file[i + "/rustc/".len()..];
        return rest.splitn(2, '/').nth(1).unwrap_or(rest).to_string();
    }
    if file.contains("/library/") && !file.contains("/src/ir/") {
        return file[file.find("/library/").unwrap() + 1..].to_string();
    }
    match file.rfind("/src/") {
        Some(i) => file[i + "/src/".len()..].to_string(),
        None => file.trim_start_matches("src/").to_string(),
    }
}

/// `Type::function` that encloses `line` of `file` (read from the source tree; "?" if unreadable)
fn enclosing_fn(file: &str, line: u32) -> String {
    static CACHE: Mutex<Option<HashMap<String, Option<Vec<String>>>>> = Mutex::new(None);
    let mut g = CACHE.lock().unwrap();
    let cache = g.get_or_insert_with(HashMap::new);
    let lines = cache.entry(file.to_string()).or_insert_with(|| {
        let candidates = [file.to_string(), format!("/repo/{}", file)];
        candidates
            .iter()
            .find_map(|p| std::fs::read_to_string(p).ok())
            .map(|s| s.lines().map(|l| l.to_string()).collect())
    });
    let lines = match lines {
        Some(l) => l,
        None => return "?".to_string(),
    };
    let upto = (line as usize).min(lines.len());
    let mut fname: Option<(String, usize)> = None;
    for l in lines[..upto].iter().rev() {
        let t = l.trim_start();
        let indent = l.len() - t.len();
        if fname.is_none() {
            if let Some(i) = find_fn_kw(t) {
                let rest = &t[i + 3..];
                let id: String = rest.chars().take_while(|c| c.is_alphanumeric() || *c == '_').collect();
                if !id.is_empty() {
                    if indent == 0 {
                        return id;
                    }
                    fname = Some((id, indent));
                }
            }
        } else if let Some((id, ind)) = &fname {
            if indent < *ind && (t.starts_with("impl") || t.starts_with("pub trait") || t.starts_with("trait")) {
                // self type: text after " for " if present, else the first type name
                let hdr = t.trim_end_matches('{').trim();
                let ty = match hdr.rfind(" for ") {
                    Some(i) => &hdr[i + 5..],
                    None => {
                        let h = hdr.trim_start_matches("impl").trim_start_matches("pub trait").trim_start_matches("trait");
                        // skip generics `<...>` directly after impl
                        let h = h.trim_start();
                        if let Some(stripped) = h.strip_prefix('<') {
                            let mut depth = 1;
                            let mut end = 0;
                            for (k, c) in stripped.char_indices() {
                                if c == '<' {
                                    depth += 1;
                                } else if c == '>' {
                                    depth -= 1;
                                    if depth == 0 {
                                        end = k + 1;
                                        break;
                                    }
                                }
                            }
                            &h[end + 1..]
                        } else {
                            h
                        }
                    }
                };
                let ty: String = ty.trim().chars().take_while(|c| c.is_alphanumeric() || *c == '_' || *c == ':').collect();
                return format!("{}::{}", ty, id);
            }
        }
    }
    fname.map(|f| f.0).unwrap_or_else(|| "?".to_string())
}

fn find_fn_kw(t: &str) -> Option<usize> {
    if t.starts_with("//") {
        return None;
    }
    let mut from = 0;
    while let Some(i) = t[from..].find("fn ") {
        let at = from + i;
        let before_ok = at == 0 || t.as_bytes()[at - 1] == b' ' || t.as_bytes()[at - 1] == b'(';
        // only declarations: the text before must consist of qualifiers
        let pre = t[..at].trim();
        let quals_ok = pre.split_whitespace().all(|w| {
            matches!(w, "pub" | "const" | "async" | "unsafe" | "extern" | "default") || w.starts_with("pub(") || w.starts_with('"')
        });
        if before_ok && quals_ok {
            return Some(at);
        }
        from = at + 3;
    }
    None
}

/// An abort has no site; the signature carries the cause, the parser and the shape of the input
/// family that triggers it (nested components / nested component types / anything else).
fn abort_signature(status: &str, parser: usize, seed_kind: &str) -> String {
    let shape = match seed_kind {
        "ladder" => "nested-components",
        "typeladder" => "nested-component-types",
        _ => "other-input",
    };
    if status.starts_with("no-return") {
        format!("{} ({}) {}", status, parser_group(parser), shape)
    } else {
        format!("abort {} ({}) {}", status, parser_group(parser), shape)
    }
}

fn panic_signature(group: &str, file: &str, line: u32, head: &str) -> String {
    format!("panic {}:{}:{} ({})", rel_file(file), enclosing_fn(file, line), head, group)
}

// ---------------------------------------------------------------------------------------------
// worker side
// ---------------------------------------------------------------------------------------------
static CUR_IDX: AtomicU64 = AtomicU64::new(u64::MAX);
static CUR_PARSER: AtomicU64 = AtomicU64::new(9);
static PARSE_SEQ: AtomicU64 = AtomicU64::new(0);
static BUSY: AtomicBool = AtomicBool::new(false);
const HANG_SECS: u64 = 30;

fn write_hint(cause: &[u8]) {
    // async-signal-safe: fixed buffer, manual formatting, write(2)
    let mut buf = [0u8; 96];
    let mut n = 0usize;
    for b in b"\nC03-DIED " {
        buf[n] = *b;
        n += 1;
    }
    for b in cause {
        buf[n] = *b;
        n += 1;
    }
    buf[n] = b' ';
    n += 1;
    let put = |buf: &mut [u8; 96], n: &mut usize, mut v: u64| {
        let mut d = [0u8; 20];
        let mut k = 0;
        if v == 0 {
            d[0] = b'0';
            k = 1;
        }
        while v > 0 {
            d[k] = b'0' + (v % 10) as u8;
            v /= 10;
            k += 1;
        }
        while k > 0 {
            k -= 1;
            buf[*n] = d[k];
            *n += 1;
        }
    };
    put(&mut buf, &mut n, CUR_IDX.load(Ordering::Relaxed));
    buf[n] = b' ';
    n += 1;
    put(&mut buf, &mut n, CUR_PARSER.load(Ordering::Relaxed));
    buf[n] = b'\n';
    n += 1;
    unsafe {
        libc::write(2, buf.as_ptr() as *const libc::c_void, n);
    }
}

extern "C" fn on_fatal_signal(sig: libc::c_int) {
    let name: &[u8] = match sig {
        libc::SIGSEGV => b"SIGSEGV",
        libc::SIGBUS => b"SIGBUS",
        libc::SIGABRT => b"SIGABRT",
        libc::SIGILL => b"SIGILL",
        libc::SIGFPE => b"SIGFPE",
        _ => b"SIG?",
    };
    write_hint(name);
    unsafe {
        // die with the original signal so that the parent sees the real cause
        libc::signal(sig, libc::SIG_DFL);
        libc::raise(sig);
        libc::_exit(97);
    }
}

fn install_worker_guards() {
    unsafe {
        for sig in [libc::SIGSEGV, libc::SIGBUS, libc::SIGABRT, libc::SIGILL, libc::SIGFPE] {
            let mut sa: libc::sigaction = std::mem::zeroed();
            sa.sa_sigaction = on_fatal_signal as *const () as usize;
            sa.sa_flags = libc::SA_ONSTACK | libc::SA_NODEFER;
            libc::sigemptyset(&mut sa.sa_mask);
            libc::sigaction(sig, &sa, std::ptr::null_mut());
        }
        // allocation failure must abort this process, not take the machine down
        let lim = libc::rlimit { rlim_cur: 4 << 30, rlim_max: 4 << 30 };
        libc::setrlimit(libc::RLIMIT_AS, &lim);
        let nocore = libc::rlimit { rlim_cur: 0, rlim_max: 0 };
        libc::setrlimit(libc::RLIMIT_CORE, &nocore);
    }
    std::thread::spawn(|| {
        let mut last = u64::MAX;
        let mut same = 0u64;
        loop {
            std::thread::sleep(std::time::Duration::from_secs(1));
            let s = PARSE_SEQ.load(Ordering::Relaxed);
            if BUSY.load(Ordering::Relaxed) && s == last {
                same += 1;
                if same >= HANG_SECS {
                    write_hint(b"HANG");
                    unsafe { libc::_exit(98) };
                }
            } else {
                same = 0;
                last = s;
            }
        }
    });
}

#[derive(Default)]
struct PanicSite {
    count: u64,
    w_idx: u64,
    w_len: usize,
}

#[derive(Default)]
struct ChunkStats {
    mutants: u64,
    dups: u64,
    parses: u64,
    bytes: u64,
    ok: [u64; 3],
    err: [u64; 3],
    panic: [u64; 3],
    /// (parser, outcome class) -> count
    classes: BTreeMap<(usize, String), u64>,
    /// (parser, file, line, head) -> site
    panics: BTreeMap<(usize, String, u32, String), PanicSite>,
}

impl ChunkStats {
    fn feed(&mut self, idx: u64, bytes: &[u8], mask: u8) {
        self.mutants += 1;
        self.bytes += bytes.len() as u64;
        CUR_IDX.store(idx, Ordering::Relaxed);
        for p in 0..3 {
            if mask & (1 << p) == 0 {
                continue;
            }
            CUR_PARSER.store(p as u64, Ordering::Relaxed);
            PARSE_SEQ.fetch_add(1, Ordering::Relaxed);
            self.parses += 1;
            let class = match run_parser(p, bytes) {
                Parsed::Ok => {
                    self.ok[p] += 1;
                    "ok".to_string()
                }
                Parsed::Err(e) => {
                    self.err[p] += 1;
                    format!("err {}", err_class(&e))
                }
                Parsed::Panic(pi) => {
                    self.panic[p] += 1;
                    let head = panic_head(&pi.msg);
                    let site = self.panics.entry((p, pi.file.clone(), pi.line, head.clone())).or_insert(PanicSite {
                        count: 0,
                        w_idx: idx,
                        w_len: bytes.len(),
                    });
                    site.count += 1;
                    if (bytes.len(), idx) < (site.w_len, site.w_idx) {
                        site.w_len = bytes.len();
                        site.w_idx = idx;
                    }
                    format!("panic {}:{}:{}", rel_file(&pi.file), pi.line, head)
                }
            };
            *self.classes.entry((p, class)).or_insert(0) += 1;
        }
        CUR_PARSER.store(9, Ordering::Relaxed);
    }

    fn to_json(&self) -> Value {
        let classes: Vec<Value> = self.classes.iter().map(|((p, c), n)| json!([p, c, n])).collect();
        let panics: Vec<Value> = self
            .panics
            .iter()
            .map(|((p, f, l, h), s)| json!({"parser": p, "file": f, "line": l, "head": h, "count": s.count, "w_idx": s.w_idx, "w_len": s.w_len}))
            .collect();
        json!({"mutants": self.mutants, "dups": self.dups, "parses": self.parses, "bytes": self.bytes,
               "ok": self.ok, "err": self.err, "panic": self.panic, "classes": classes, "panics": panics})
    }
}

fn hex(b: &[u8]) -> String {
    let mut s = String::with_capacity(b.len() * 2);
    for x in b {
        s.push_str(&format!("{:02x}", x));
    }
    s
}
fn unhex(s: &str) -> Option<Vec<u8>> {
    let s = s.trim();
    if s.len() % 2 != 0 {
        return None;
    }
    (0..s.len() / 2).map(|i| u8::from_str_radix(s.get(2 * i..2 * i + 2)?, 16).ok()).collect()
}

fn worker_fail(msg: &str) -> ! {
    eprintln!("C03-MACHINERY {}", msg);
    std::process::exit(3)
}

/// Hidden sub-command: `orca-mc c03-worker run <seedfile>` | `bytes` | `seeds <tier>`.
/// Protocol (stdin, one request per line; one JSON line per request on the real stdout):
///   S <seed index> <family> <lo> <hi> <parser mask>     run mutants lo..hi of that family
///   B <parser mask> <hex>                               run exactly these bytes
pub fn worker_main(args: &[String]) -> ! {
    let mode = args.first().map(|s| s.as_str()).unwrap_or("");
    if mode == "seeds" {
        let tier = if args.get(1).map(|s| s.as_str()) == Some("thorough") { Tier::Thorough } else { Tier::Quick };
        dump_seeds(tier);
        std::process::exit(0);
    }
    let seeds: Vec<Seed> = match mode {
        "run" => match args.get(1) {
            Some(p) => read_seed_file(p).unwrap_or_else(|e| worker_fail(&format!("seed file: {}", e))),
            None => worker_fail("missing seed file"),
        },
        "bytes" => vec![],
        _ => worker_fail("unknown worker mode"),
    };
    install_worker_guards();
    // 8 MiB: the default size of a main thread's stack, so that a stack overflow here is one a
    // normal caller would see as well
    let h = std::thread::Builder::new().stack_size(8 << 20).name("c03-parse".into()).spawn(move || worker_loop(&seeds));
    match h.map(|h| h.join()) {
        Ok(Ok(())) => std::process::exit(0),
        Ok(Err(_)) => worker_fail("worker loop panicked (defect of the harness)"),
        Err(e) => worker_fail(&format!("cannot start thread: {}", e)),
    }
}

fn worker_loop(seeds: &[Seed]) {
    let stdin = std::io::stdin();
    let mut line = String::new();
    let mut buf: Vec<u8> = Vec::new();
    loop {
        line.clear();
        match stdin.lock().read_line(&mut line) {
            Ok(0) | Err(_) => return,
            Ok(_) => {}
        }
        let t: Vec<&str> = line.split_whitespace().collect();
        if t.is_empty() {
            continue;
        }
        let mut st = ChunkStats::default();
        match t[0] {
            "S" if t.len() == 6 => {
                let si: usize = t[1].parse().unwrap_or(usize::MAX);
                let fam = Fam::from_name(t[2]);
                let lo: u64 = t[3].parse().unwrap_or(0);
                let hi: u64 = t[4].parse().unwrap_or(0);
                let mask: u8 = t[5].parse().unwrap_or(7);
                let (seed, fam) = match (seeds.get(si), fam) {
                    (Some(s), Some(f)) => (s, f),
                    _ => worker_fail("bad shard request"),
                };
                if hi > family_size(seed.bytes.len(), fam) || lo > hi {
                    worker_fail("shard range outside the family");
                }
                BUSY.store(true, Ordering::Relaxed);
                for idx in lo..hi {
                    if mutant(&seed.bytes, fam, idx, &mut buf) {
                        st.feed(idx, &buf, mask);
                    } else {
                        st.dups += 1;
                    }
                }
                BUSY.store(false, Ordering::Relaxed);
            }
            "B" if t.len() == 3 || t.len() == 2 => {
                let mask: u8 = t[1].parse().unwrap_or(7);
                let bytes = match unhex(t.get(2).copied().unwrap_or("")) {
                    Some(b) => b,
                    None => worker_fail("bad hex"),
                };
                BUSY.store(true, Ordering::Relaxed);
                st.feed(0, &bytes, mask);
                BUSY.store(false, Ordering::Relaxed);
            }
            _ => worker_fail("bad request"),
        }
        CUR_IDX.store(u64::MAX, Ordering::Relaxed);
        out(&st.to_json().to_string());
    }
}

fn dump_seeds(tier: Tier) {
    let set = build_seeds(tier);
    for s in set.seeds.iter() {
        let valid_core = s.policy == 2 || crate::wasmutil::validate(&s.bytes, crate::wasmutil::features_all()).is_ok();
        out(&format!(
            "{:40} {:9} {:7} bytes  validates(all features)={} {}",
            s.name,
            s.kind,
            s.bytes.len(),
            valid_core,
            if s.bytes.len() <= 72 { hex(&s.bytes) } else { String::new() }
        ));
    }
    for b in set.broken.iter() {
        out(&format!("BROKEN {}", b));
    }
    for b in set.corpus_skipped.iter() {
        out(&format!("corpus skipped: {}", b));
    }
    for b in set.duplicates.iter() {
        out(&format!("duplicate bytes: {}", b));
    }
    out(&format!("{} seeds, {} bytes", set.seeds.len(), set.seeds.iter().map(|s| s.bytes.len()).sum::<usize>()));
}

// ---------------------------------------------------------------------------------------------
// parent side
// ---------------------------------------------------------------------------------------------
#[derive(Clone, Debug)]
struct Chunk {
    seed: usize,
    fam: Fam,
    lo: u64,
    hi: u64,
    mask: u8,
    cost: u64,
    /// worker deaths so far inside the static chunk this piece belongs to
    deaths: u32,
}

struct Worker {
    child: Child,
    stdin: ChildStdin,
    stdout: BufReader<ChildStdout>,
    stderr: Arc<Mutex<Vec<u8>>>,
    drain: Option<std::thread::JoinHandle<()>>,
}

enum Reply {
    Summary(Value),
    Died { status: String, hint: Option<(String, u64, usize)>, machinery: Option<String> },
}

fn signal_name(sig: i32) -> String {
    match sig {
        libc::SIGSEGV => "SIGSEGV".into(),
        libc::SIGBUS => "SIGBUS".into(),
        libc::SIGABRT => "SIGABRT".into(),
        libc::SIGILL => "SIGILL".into(),
        libc::SIGFPE => "SIGFPE".into(),
        libc::SIGKILL => "SIGKILL".into(),
        n => format!("SIG{}", n),
    }
}

impl Worker {
    fn spawn(args: &[String]) -> Result<Worker, String> {
        let exe = std::env::current_exe().map_err(|e| e.to_string())?;
        let mut child = Command::new(exe)
            .arg("c03-worker")
            .args(args)
            .stdin(Stdio::piped())
            .stdout(Stdio::piped())
            .stderr(Stdio::piped())
            .spawn()
            .map_err(|e| format!("cannot spawn worker: {}", e))?;
        let stdin = child.stdin.take().ok_or("no stdin")?;
        let stdout = BufReader::new(child.stdout.take().ok_or("no stdout")?);
        let mut errpipe = child.stderr.take().ok_or("no stderr")?;
        let stderr = Arc::new(Mutex::new(Vec::new()));
        let sink = stderr.clone();
        let drain = std::thread::spawn(move || {
            let mut b = [0u8; 4096];
            loop {
                match errpipe.read(&mut b) {
                    Ok(0) | Err(_) => break,
                    Ok(n) => {
                        let mut g = sink.lock().unwrap();
                        g.extend_from_slice(&b[..n]);
                        if g.len() > 1 << 16 {
                            let cut = g.len() - (1 << 15);
                            g.drain(..cut);
                        }
                    }
                }
            }
        });
        Ok(Worker { child, stdin, stdout, stderr, drain: Some(drain) })
    }

    /// send one request line, wait for the JSON reply; a dead worker is reaped and described
    fn request(mut self, line: &str) -> (Option<Worker>, Reply) {
        let sent = self.stdin.write_all(line.as_bytes()).and_then(|_| self.stdin.write_all(b"\n")).and_then(|_| self.stdin.flush());
        let mut resp = String::new();
        if sent.is_ok() {
            if let Ok(n) = self.stdout.read_line(&mut resp) {
                if n > 0 {
                    if let Ok(v) = serde_json::from_str::<Value>(resp.trim()) {
                        return (Some(self), Reply::Summary(v));
                    }
                }
            }
        }
        // no (valid) reply: the worker is dead or dying
        drop(self.stdin);
        let status = self.child.wait();
        if let Some(d) = self.drain.take() {
            let _ = d.join();
        }
        let err = String::from_utf8_lossy(&self.stderr.lock().unwrap()).to_string();
        let mut hint = None;
        let mut machinery = None;
        for l in err.lines() {
            if let Some(rest) = l.strip_prefix("C03-DIED ") {
                let t: Vec<&str> = rest.split_whitespace().collect();
                if t.len() == 3 {
                    if let (Ok(i), Ok(p)) = (t[1].parse::<u64>(), t[2].parse::<usize>()) {
                        hint = Some((t[0].to_string(), i, p));
                    }
                }
            }
            if let Some(rest) = l.strip_prefix("C03-MACHINERY ") {
                machinery = Some(rest.to_string());
            }
        }
        let status = match status {
            Ok(s) => {
                use std::os::unix::process::ExitStatusExt;
                if let Some(sig) = s.signal() {
                    signal_name(sig)
                } else if s.code() == Some(98) {
                    format!("no-return-within-{}s", HANG_SECS)
                } else {
                    if s.code() == Some(3) && machinery.is_none() {
                        machinery = Some("worker exit 3".into());
                    }
                    if s.code() == Some(0) && machinery.is_none() {
                        machinery = Some(format!("worker exited without a reply (reply {:?})", resp.chars().take(80).collect::<String>()));
                    }
                    format!("exit-{}", s.code().unwrap_or(-1))
                }
            }
            Err(e) => {
                machinery = Some(format!("wait failed: {}", e));
                "unknown".into()
            }
        };
        (None, Reply::Died { status, hint, machinery })
    }

    fn shutdown(mut self) {
        drop(self.stdin);
        let _ = self.child.wait();
        if let Some(d) = self.drain.take() {
            let _ = d.join();
        }
    }
}

#[derive(Default, Clone)]
struct FamStats {
    mutants: u64,
    dups: u64,
    parses: u64,
    bytes: u64,
    ok: [u64; 3],
    err: [u64; 3],
    panic: [u64; 3],
    abort: [u64; 3],
    classes: BTreeSet<(usize, String)>,
}

#[derive(Clone)]
struct SiteAgg {
    count: u64,
    seeds: BTreeSet<usize>,
    /// (len, seed, fam, idx, parser)
    witness: (usize, usize, Fam, u64, usize),
    file: String,
    line: u32,
}

#[derive(Clone, Debug)]
struct Abort {
    seed: usize,
    fam: Fam,
    idx: u64,
    parser: usize,
    status: String,
}

#[derive(Default)]
struct Agg {
    per: BTreeMap<(usize, Fam), FamStats>,
    /// (group, file, line, head) -> site
    sites: BTreeMap<(String, String, u32, String), SiteAgg>,
    aborts: Vec<Abort>,
    deaths: u64,
    machinery: Vec<String>,
    dropped_after_abort_cap: u64,
    capped: BTreeSet<(usize, Fam)>,
    /// mutants that were executed one parser per process: (seed, family, index) -> length
    single: BTreeMap<(usize, Fam, u64), u64>,
}

/// after this many aborting mutants inside one static chunk the rest of the chunk is not run
const ABORT_CAP_PER_CHUNK: u32 = 3;

struct Shared {
    queue: Mutex<(VecDeque<Chunk>, usize)>,
    cv: Condvar,
    agg: Mutex<Agg>,
}

fn absorb(agg: &mut Agg, c: &Chunk, v: &Value) {
    let g = |k: &str| v[k].as_u64().unwrap_or(0);
    if c.mask != 7 {
        // one mutant re-run parser by parser after a worker death: counted once, below
        for i in c.lo..c.hi {
            agg.single.insert((c.seed, c.fam, i), g("bytes") / (c.hi - c.lo).max(1));
        }
    }
    let fs = agg.per.entry((c.seed, c.fam)).or_default();
    if c.mask == 7 {
        fs.mutants += g("mutants");
        fs.dups += g("dups");
        fs.bytes += g("bytes");
    }
    fs.parses += g("parses");
    for p in 0..3 {
        fs.ok[p] += v["ok"][p].as_u64().unwrap_or(0);
        fs.err[p] += v["err"][p].as_u64().unwrap_or(0);
        fs.panic[p] += v["panic"][p].as_u64().unwrap_or(0);
    }
    if let Some(cl) = v["classes"].as_array() {
        for e in cl {
            let p = e[0].as_u64().unwrap_or(0) as usize;
            fs.classes.insert((p, e[1].as_str().unwrap_or("").to_string()));
        }
    }
    if let Some(ps) = v["panics"].as_array() {
        for e in ps {
            let p = e["parser"].as_u64().unwrap_or(0) as usize;
            let key = (
                parser_group(p).to_string(),
                e["file"].as_str().unwrap_or("").to_string(),
                e["line"].as_u64().unwrap_or(0) as u32,
                e["head"].as_str().unwrap_or("").to_string(),
            );
            let w = (e["w_len"].as_u64().unwrap_or(0) as usize, c.seed, c.fam, e["w_idx"].as_u64().unwrap_or(0), p);
            let s = agg.sites.entry(key.clone()).or_insert(SiteAgg { count: 0, seeds: BTreeSet::new(), witness: w, file: key.1.clone(), line: key.2 });
            s.count += e["count"].as_u64().unwrap_or(0);
            s.seeds.insert(c.seed);
            if w < s.witness {
                s.witness = w;
            }
        }
    }
}

fn chunk_cost(len: usize, n: u64) -> u64 {
    n * (len as u64 + 200)
}

/// Static partition of a family into chunks (about 3 MB of input per chunk, x 3 parsers).
fn split_chunks(seed: usize, s: &Seed, fam: Fam, lo: u64, hi: u64, out: &mut Vec<Chunk>) {
    let len = s.bytes.len();
    let per = if s.policy == 2 { 4096 } else { (3_000_000 / (len as u64 + 200)).clamp(16, 40_000) };
    let mut a = lo;
    while a < hi {
        let b = (a + per).min(hi);
        out.push(Chunk { seed, fam, lo: a, hi: b, mask: 7, cost: chunk_cost(len, b - a), deaths: 0 });
        a = b;
    }
}

fn driver_thread(sh: Arc<Shared>, seeds: Arc<Vec<Seed>>, worker_args: Vec<String>) {
    let mut worker: Option<Worker> = None;
    loop {
        let chunk = {
            let mut g = sh.queue.lock().unwrap();
            loop {
                if let Some(c) = g.0.pop_front() {
                    g.1 += 1;
                    break Some(c);
                }
                if g.1 == 0 {
                    break None;
                }
                g = sh.cv.wait(g).unwrap();
            }
        };
        let chunk = match chunk {
            Some(c) => c,
            None => break,
        };
        let mut requeue: Vec<Chunk> = vec![];
        let w = match worker.take() {
            Some(w) => Ok(w),
            None => Worker::spawn(&worker_args),
        };
        match w {
            Err(e) => {
                sh.agg.lock().unwrap().machinery.push(e);
            }
            Ok(w) => {
                let line = format!("S {} {} {} {} {}", chunk.seed, chunk.fam.name(), chunk.lo, chunk.hi, chunk.mask);
                let (w, reply) = w.request(&line);
                worker = w;
                let len = seeds[chunk.seed].bytes.len();
                let mut agg = sh.agg.lock().unwrap();
                match reply {
                    Reply::Summary(v) => absorb(&mut agg, &chunk, &v),
                    Reply::Died { status, hint, machinery } => {
                        agg.deaths += 1;
                        let single = |q: usize, idx: u64| Chunk { seed: chunk.seed, fam: chunk.fam, lo: idx, hi: idx + 1, mask: 1 << q, cost: u64::MAX, deaths: 0 };
                        if let Some(m) = machinery {
                            agg.machinery.push(format!("worker failed on seed {} {} [{}..{}): {}", seeds[chunk.seed].name, chunk.fam.name(), chunk.lo, chunk.hi, m));
                        } else if chunk.hi - chunk.lo == 1 && chunk.mask.count_ones() == 1 {
                            // one mutant, one parser, in a fresh worker process: attributed
                            let p = chunk.mask.trailing_zeros() as usize;
                            agg.aborts.push(Abort { seed: chunk.seed, fam: chunk.fam, idx: chunk.lo, parser: p, status });
                            agg.single.entry((chunk.seed, chunk.fam, chunk.lo)).or_insert(len as u64);
                            let fs = agg.per.entry((chunk.seed, chunk.fam)).or_default();
                            fs.abort[p] += 1;
                            fs.parses += 1;
                            fs.classes.insert((p, "abort".to_string()));
                        } else {
                            match hint {
                                Some((_, idx, p)) if idx >= chunk.lo && idx < chunk.hi && p < 3 && chunk.mask & (1 << p) != 0 => {
                                    // the part before the culprit is run again (its summary was lost);
                                    // the culprit is confirmed alone, one parser per fresh worker; the
                                    // rest of this static chunk continues as one piece, so that the
                                    // cap below does not depend on scheduling
                                    if idx > chunk.lo {
                                        requeue.push(Chunk { lo: chunk.lo, hi: idx, cost: u64::MAX, ..chunk.clone() });
                                    }
                                    for q in 0..3 {
                                        if chunk.mask & (1 << q) != 0 {
                                            requeue.push(single(q, idx));
                                        }
                                    }
                                    if idx + 1 < chunk.hi {
                                        if chunk.deaths + 1 >= ABORT_CAP_PER_CHUNK {
                                            agg.dropped_after_abort_cap += chunk.hi - (idx + 1);
                                            agg.capped.insert((chunk.seed, chunk.fam));
                                        } else {
                                            requeue.push(Chunk { lo: idx + 1, hi: chunk.hi, cost: u64::MAX, deaths: chunk.deaths + 1, ..chunk.clone() });
                                        }
                                    }
                                }
                                _ => {
                                    // no usable hint (e.g. SIGKILL): bisect; one mutant: one parser each
                                    if chunk.hi - chunk.lo == 1 {
                                        for q in 0..3 {
                                            if chunk.mask & (1 << q) != 0 {
                                                requeue.push(single(q, chunk.lo));
                                            }
                                        }
                                    } else {
                                        let mid = chunk.lo + (chunk.hi - chunk.lo) / 2;
                                        requeue.push(Chunk { lo: chunk.lo, hi: mid, cost: u64::MAX, ..chunk.clone() });
                                        requeue.push(Chunk { lo: mid, hi: chunk.hi, cost: u64::MAX, ..chunk.clone() });
                                    }
                                }
                            }
                        }
                    }
                }
            }
        }
        let mut g = sh.queue.lock().unwrap();
        for c in requeue.into_iter().rev() {
            g.0.push_front(c);
        }
        g.1 -= 1;
        sh.cv.notify_all();
    }
    if let Some(w) = worker {
        w.shutdown();
    }
}

/// Run explicit bytes through one parser mask in a fresh worker (used by replay of aborts).
fn run_isolated(bytes: &[u8], mask: u8) -> Result<Reply, String> {
    let w = Worker::spawn(&["bytes".to_string()])?;
    let (w, r) = w.request(&format!("B {} {}", mask, hex(bytes)));
    if let Some(w) = w {
        w.shutdown();
    }
    Ok(r)
}

pub fn check(tier: Tier) -> i32 {
    let mut run = Run::new("C03", tier, "fault_enumeration");
    let set = build_seeds(tier);
    for b in set.broken.iter() {
        run.machinery_error(format!("built-in seed does not convert: {}", b));
    }
    let seeds = Arc::new(set.seeds.clone());
    let threads = std::env::var("VERIF_THREADS").ok().and_then(|s| s.parse().ok()).unwrap_or(16usize).max(1);

    run.rule = format!(
        "seeds (valid binaries built with wat/raw bytes, never with wirm, plus a few hand-assembled near-valid ones): {} core modules, {} components, {} nested-component ladders (depths {:?}), {} nested component/instance-type ladders (depths {:?}){}; for each seed the complete families: seed itself, every proper prefix, {}, every single-byte deletion, every insertion position x {{0x00,0x01,0x7F,0x80,0xFF,copy of next byte}}{}; restrictions: nested-component ladders deeper than 64 levels keep the small substitution alphabet in both tiers (parse time is quadratic in depth), the two stack-overflow witnesses (ladder-2048, ctype-ladder-16384) get seed + every prefix only, offsets >= 4096 of larger seeds are not mutated (listed under caps_hit); identical mutants of one seed are executed once; every mutant is parsed by Module::parse(_,false), Module::parse(_,true), Component::parse(_,false) inside worker sub-processes (8 MiB stack, 4 GiB address space). evaluations = (mutant, parser) pairs executed. distinct_nontrivial = number of distinct (seed, family, parser, outcome class) tuples observed, outcome class = ok | err <error text with numbers masked> | panic <file:line:message head> | abort.",
        set.seeds.iter().filter(|s| s.kind == "core").count(),
        set.seeds.iter().filter(|s| s.kind == "component").count(),
        set.seeds.iter().filter(|s| s.kind == "ladder").count(),
        ladder_depths(tier),
        set.seeds.iter().filter(|s| s.kind == "typeladder").count(),
        type_ladder_depths(tier),
        if tier == Tier::Thorough { format!(", {} corpus files of {}", set.seeds.iter().filter(|s| s.kind == "corpus").count(), CORPUS_DIR) } else { String::new() },
        tier.pick("every offset x {0x00,0x01,0x7F,0x80,0xFF,b+1,b-1,b^0x80,b^0x01}", "every offset x all 255 other byte values"),
        tier.pick("", "; seeds <= 64 bytes: every pair of offsets x small alphabet squared"),
    );

    // seed file for the workers
    let seed_path = std::env::temp_dir().join(format!("orca-mc-c03-{}.seeds", std::process::id())).to_string_lossy().to_string();
    if let Err(e) = write_seed_file(&seed_path, &seeds) {
        run.machinery_error(format!("cannot write {}: {}", seed_path, e));
        return run.finish();
    }

    // work list
    let mut chunks: Vec<Chunk> = vec![];
    let mut planned: BTreeMap<(usize, Fam), u64> = BTreeMap::new();
    for (si, s) in seeds.iter().enumerate() {
        let n = s.bytes.len();
        if n == 0 {
            continue;
        }
        for fam in families_for(s, tier) {
            let size = family_size(n, fam);
            planned.insert((si, fam), size);
            split_chunks(si, s, fam, 0, size, &mut chunks);
        }
        if n > TRUNC_LIMIT {
            run.cap(format!(
                "seed {} has {} bytes (> {}): truncation strided (all lengths < {}, {} evenly spaced lengths, the last {} lengths)",
                s.name, n, TRUNC_LIMIT, TR_HEAD, TR_MID, TR_TAIL
            ));
        }
        if n > LIMIT && s.policy != 2 {
            run.cap(format!(
                "seed {} has {} bytes (> {}): substitutions/deletions/insertions only at offsets < {}{}",
                s.name,
                n,
                LIMIT,
                LIMIT,
                if tier == Tier::Thorough && (n > FULL_ALPHABET_MAX_SEED || s.policy == 1) { "; small substitution alphabet instead of all 255 values" } else { "" }
            ));
        }
    }
    // longest first (load balance); witnesses are minimised afterwards, so order does not matter
    chunks.sort_by(|a, b| b.cost.cmp(&a.cost).then(a.seed.cmp(&b.seed)).then(a.fam.cmp(&b.fam)).then(a.lo.cmp(&b.lo)));
    let n_chunks = chunks.len();

    let sh = Arc::new(Shared { queue: Mutex::new((chunks.into_iter().collect(), 0)), cv: Condvar::new(), agg: Mutex::new(Agg::default()) });
    let t0 = std::time::Instant::now();
    let mut handles = vec![];
    for _ in 0..threads.min(n_chunks.max(1)) {
        let sh2 = sh.clone();
        let seeds2 = seeds.clone();
        let args = vec!["run".to_string(), seed_path.clone()];
        handles.push(std::thread::spawn(move || driver_thread(sh2, seeds2, args)));
    }
    for h in handles {
        if h.join().is_err() {
            run.machinery_error("driver thread panicked");
        }
    }
    let sweep_s = t0.elapsed().as_secs_f64();
    let _ = std::fs::remove_file(&seed_path);
    let agg = std::mem::take(&mut *sh.agg.lock().unwrap());

    for m in agg.machinery.iter().take(20) {
        run.machinery_error(m.clone());
    }

    // completeness: every planned index was either executed, recognised as duplicate, attributed
    // to an abort, or dropped under the abort cap
    let mut fam_tot: BTreeMap<&'static str, (u64, u64, u64, u64)> = BTreeMap::new();
    let mut tot = FamStats::default();
    let mut classes_total = 0u64;
    let mut outcome_classes: BTreeMap<String, u64> = BTreeMap::new();
    for ((si, fam), size) in planned.iter() {
        let mut fs = agg.per.get(&(*si, *fam)).cloned().unwrap_or_default();
        for ((s2, f2, _), l) in agg.single.range((*si, *fam, 0)..=(*si, *fam, u64::MAX)) {
            debug_assert!(s2 == si && f2 == fam);
            fs.mutants += 1;
            fs.bytes += *l;
        }
        let expect_parses = (size - fs.dups.min(*size)) * 3;
        if !agg.capped.contains(&(*si, *fam)) && (fs.mutants + fs.dups != *size || fs.parses != expect_parses) {
            run.machinery_error(format!(
                "incomplete sweep of seed {} family {}: planned {} indices, executed {} + duplicates {}, parses {}",
                seeds[*si].name, fam.name(), size, fs.mutants, fs.dups, fs.parses
            ));
        }
        let e = fam_tot.entry(fam.name()).or_insert((0, 0, 0, 0));
        e.0 += fs.mutants;
        e.1 += fs.dups;
        e.2 += fs.parses;
        e.3 += fs.bytes;
        tot.mutants += fs.mutants;
        tot.dups += fs.dups;
        tot.parses += fs.parses;
        tot.bytes += fs.bytes;
        for p in 0..3 {
            tot.ok[p] += fs.ok[p];
            tot.err[p] += fs.err[p];
            tot.panic[p] += fs.panic[p];
            tot.abort[p] += fs.abort[p];
        }
        classes_total += fs.classes.len() as u64;
        for (p, c) in fs.classes.iter() {
            // the global list of outcome classes is per parser group (module / component)
            *outcome_classes.entry(format!("{} | {}", parser_group(*p), c)).or_insert(0) += 1;
        }
        // one record per seed x family
        let mut o = Outcome::ok(format!("{}/{}", seeds[*si].kind, fam.name()));
        o.observed = hash_of(&(si, fam.name(), &fs.classes));
        o.count("mutants", fs.mutants);
        o.count("duplicate_mutants_not_rerun", fs.dups);
        run.record(
            fam.name(),
            json!({"seed": seeds[*si].name, "seed_bytes": seeds[*si].bytes.len(), "family": fam.name(), "indices": size,
                   "mutants": fs.mutants, "duplicates": fs.dups, "parses": fs.parses,
                   "ok": fs.ok, "err": fs.err, "panic": fs.panic, "abort": fs.abort}),
            o,
        );
    }

    // panic signatures: smallest witness first
    struct SigAgg {
        count: u64,
        seeds: BTreeSet<usize>,
        witness: (usize, usize, Fam, u64, usize),
        places: BTreeSet<String>,
        head: String,
    }
    let mut sigs: BTreeMap<String, SigAgg> = BTreeMap::new();
    for ((group, file, line, head), s) in agg.sites.iter() {
        let sig = panic_signature(group, file, *line, head);
        let e = sigs.entry(sig).or_insert(SigAgg { count: 0, seeds: BTreeSet::new(), witness: s.witness, places: BTreeSet::new(), head: head.clone() });
        e.count += s.count;
        e.seeds.extend(s.seeds.iter().copied());
        e.places.insert(format!("{}:{}", s.file, s.line));
        if s.witness < e.witness {
            e.witness = s.witness;
        }
    }
    let mut order: Vec<(&String, &SigAgg)> = sigs.iter().collect();
    order.sort_by(|a, b| a.1.witness.cmp(&b.1.witness).then(a.0.cmp(b.0)));
    let mut sig_json = Map::new();
    let mut buf = vec![];
    for (sig, s) in order.iter() {
        let (_, si, fam, idx, p) = s.witness;
        mutant(&seeds[si].bytes, fam, idx, &mut buf);
        let places: Vec<&String> = s.places.iter().collect();
        let detail = format!(
            "{} panics with \"{}\" at {:?}; {} (mutant, parser) pairs over {} seeds; smallest witness: seed {} {} ({} bytes, hex {})",
            PARSERS[p],
            s.head,
            places,
            s.count,
            s.seeds.len(),
            seeds[si].name,
            describe(&seeds[si].bytes, fam, idx),
            buf.len(),
            if buf.len() <= 96 { hex(&buf) } else { format!("{}...", hex(&buf[..96])) }
        );
        let mut o = Outcome::ok("panic-witness");
        o.fail((*sig).clone(), detail);
        let case = json!({"bytes_hex": hex(&buf), "parser": PARSERS[p], "parser_index": p, "seed": seeds[si].name,
                          "mutation": {"family": fam.name(), "index": idx, "what": describe(&seeds[si].bytes, fam, idx)}});
        run.record("witness", case, o);
        sig_json.insert(
            (*sig).clone(),
            json!({"pairs": s.count, "seeds": s.seeds.len(), "source": places, "witness_seed": seeds[si].name,
                   "witness_mutation": describe(&seeds[si].bytes, fam, idx), "witness_bytes": buf.len(),
                   "witness_hex": if buf.len() <= 256 { hex(&buf) } else { format!("{}...", hex(&buf[..256])) }}),
        );
    }
    // aborts: one signature per (status, parser group); smallest witness
    let mut ab: BTreeMap<String, Vec<&Abort>> = BTreeMap::new();
    for a in agg.aborts.iter() {
        ab.entry(abort_signature(&a.status, a.parser, seeds[a.seed].kind)).or_default().push(a);
    }
    for (sig, list) in ab.iter() {
        let best = list
            .iter()
            .min_by_key(|a| {
                mutant(&seeds[a.seed].bytes, a.fam, a.idx, &mut buf);
                (buf.len(), a.seed, a.fam, a.idx)
            })
            .unwrap();
        mutant(&seeds[best.seed].bytes, best.fam, best.idx, &mut buf);
        let mut o = Outcome::ok("abort-witness");
        o.fail(
            sig.clone(),
            format!(
                "worker process died ({}) while {} parsed seed {} {} ({} bytes); {} (mutant, parser) pairs attributed one by one in fresh processes",
                best.status,
                PARSERS[best.parser],
                seeds[best.seed].name,
                describe(&seeds[best.seed].bytes, best.fam, best.idx),
                buf.len(),
                list.len()
            ),
        );
        let case = json!({"bytes_hex": hex(&buf), "parser": PARSERS[best.parser], "parser_index": best.parser, "isolate": true,
                          "seed": seeds[best.seed].name, "seed_kind": seeds[best.seed].kind,
                          "mutation": {"family": best.fam.name(), "index": best.idx, "what": describe(&seeds[best.seed].bytes, best.fam, best.idx)}});
        run.record("witness", case, o);
        sig_json.insert(
            sig.clone(),
            json!({"pairs": list.len(), "witness_seed": seeds[best.seed].name, "witness_mutation": describe(&seeds[best.seed].bytes, best.fam, best.idx), "witness_bytes": buf.len()}),
        );
    }
    if agg.dropped_after_abort_cap > 0 {
        let names: Vec<String> = agg.capped.iter().map(|(s, f)| format!("{}/{}", seeds[*s].name, f.name())).collect();
        run.cap(format!(
            "{} aborting mutants inside one chunk of {:?}: the remaining {} indices of those chunks were not executed",
            ABORT_CAP_PER_CHUNK, names, agg.dropped_after_abort_cap
        ));
    }

    // evidence
    let evaluations = tot.parses;
    run.extra.insert("evaluations".into(), json!(evaluations));
    run.extra.insert("distinct_nontrivial".into(), json!(classes_total));
    run.extra.insert("distinct_observed_outcomes".into(), json!(outcome_classes.len()));
    run.extra.insert("records_seed_x_family".into(), json!(planned.len()));
    run.extra.insert("seeds".into(), json!({
        "total": seeds.len(),
        "core": seeds.iter().filter(|s| s.kind == "core").count(),
        "component": seeds.iter().filter(|s| s.kind == "component").count(),
        "ladder": seeds.iter().filter(|s| s.kind == "ladder").count(),
        "typeladder": seeds.iter().filter(|s| s.kind == "typeladder").count(),
        "corpus": seeds.iter().filter(|s| s.kind == "corpus").count(),
        "bytes_total": seeds.iter().map(|s| s.bytes.len()).sum::<usize>(),
        "bytes_max": seeds.iter().map(|s| s.bytes.len()).max().unwrap_or(0),
        "identical_to_an_earlier_seed": set.duplicates,
        "corpus_files_not_convertible": set.corpus_skipped,
    }));
    // behaviour of the unmodified seeds
    let mut seed_ok = [0u64; 3];
    let mut seed_panic = [0u64; 3];
    for ((_, fam), fs) in agg.per.iter() {
        if *fam == Fam::Seed {
            for p in 0..3 {
                seed_ok[p] += fs.ok[p];
                seed_panic[p] += fs.panic[p] + fs.abort[p];
            }
        }
    }
    let mut bad_seeds = vec![];
    for ((si, fam), fs) in agg.per.iter() {
        if *fam == Fam::Seed && (0..3).any(|p| fs.panic[p] + fs.abort[p] > 0) {
            // (the validator itself recurses on the nesting ladders: not run on those)
            let valid = if seeds[*si].kind.contains("ladder") {
                Value::Null
            } else {
                json!(crate::wasmutil::validate(&seeds[*si].bytes, crate::wasmutil::features_all()).is_ok())
            };
            bad_seeds.push(json!({"seed": seeds[*si].name, "validates_with_all_features": valid, "panic": fs.panic, "abort": fs.abort}));
        }
    }
    run.extra.insert("unmodified_seeds".into(), json!({"parsers": PARSERS, "return_ok": seed_ok, "panic_or_abort": seed_panic, "seeds_that_panic_or_abort_unmodified": bad_seeds}));
    let fam_json: Map<String, Value> = fam_tot
        .iter()
        .map(|(k, v)| (k.to_string(), json!({"mutants": v.0, "duplicates_not_rerun": v.1, "parses": v.2, "bytes_parsed_per_parser": v.3})))
        .collect();
    run.extra.insert("per_family".into(), Value::Object(fam_json));
    run.extra.insert("mutants".into(), json!(tot.mutants));
    run.extra.insert("mutant_bytes_total".into(), json!(tot.bytes));
    run.extra.insert("per_parser".into(), json!({"parsers": PARSERS, "ok": tot.ok, "err": tot.err, "panic": tot.panic, "abort": tot.abort}));
    run.extra.insert("outcome_classes".into(), json!(outcome_classes.keys().collect::<Vec<_>>()));
    run.extra.insert("panic_and_abort_signatures".into(), Value::Object(sig_json));
    run.extra.insert("worker_processes".into(), json!({"parallel": threads, "deaths": agg.deaths, "chunks": n_chunks, "sweep_wall_s": (sweep_s * 100.0).round() / 100.0,
        "parses_per_second": if sweep_s > 0.0 { (evaluations as f64 / sweep_s).round() } else { 0.0 }}));
    for (si, fam, idx) in [(0usize, Fam::Trunc, 3u64), (seeds.len() / 2, Fam::Ins1, 7), (seeds.len() / 3, Fam::Del1, 9)] {
        if si < seeds.len() && idx < family_size(seeds[si].bytes.len(), fam) {
            run.add_sample(json!({"seed": seeds[si].name, "family": fam.name(), "mutation": describe(&seeds[si].bytes, fam, idx)}));
        }
    }
    run.assumptions.push("\"any byte string\" is decided on the complete 1-byte neighbourhood (substitution, deletion, insertion; small 2-byte substitution neighbourhood for seeds <= 64 bytes in the thorough tier) and all prefixes of a bounded family of valid binaries; nothing is claimed outside it".into());
    run.assumptions.push("stack overflow is judged with an 8 MiB stack (default main-thread size) and allocation failure with a 4 GiB address-space limit per worker".into());
    run.assumptions.push("the engine's own `evaluations`/`distinct_nontrivial` (one per seed x family record) are overridden in coverage by the measured numbers of the workers".into());
    run.finish()
}

/// `case` = {"bytes_hex": .., "parser": .., ["isolate": true]}: the byte string goes through the
/// three parsers again, in-process with catch (aborts: in a fresh worker process per parser).
pub fn replay(_family: &str, case: &Value) -> Vec<Mismatch> {
    let mut out_m = vec![];
    let bytes = match case["bytes_hex"].as_str().and_then(unhex) {
        Some(b) => b,
        None => return vec![Mismatch::new("replay-case-unreadable", "bytes_hex missing or not hex")],
    };
    if case["isolate"].as_bool().unwrap_or(false) {
        for p in 0..3usize {
            match run_isolated(&bytes, 1 << p) {
                Ok(Reply::Summary(v)) => collect_replay_panics(&v, &mut out_m),
                Ok(Reply::Died { status, machinery: None, .. }) => {
                    out_m.push(Mismatch::new(abort_signature(&status, p, case["seed_kind"].as_str().unwrap_or("")), format!("worker died ({}) in {} on {} bytes", status, PARSERS[p], bytes.len())))
                }
                Ok(Reply::Died { machinery: Some(m), .. }) => out_m.push(Mismatch::new("replay-machinery", m)),
                Err(e) => out_m.push(Mismatch::new("replay-machinery", e)),
            }
        }
        return out_m;
    }
    // in-process, on a thread with the same stack size as the workers use
    let b2 = bytes.clone();
    let h = std::thread::Builder::new().stack_size(8 << 20).spawn(move || {
        let mut v = vec![];
        for p in 0..3usize {
            if let Parsed::Panic(pi) = run_parser(p, &b2) {
                let head = panic_head(&pi.msg);
                v.push(Mismatch::new(
                    panic_signature(parser_group(p), &pi.file, pi.line, &head),
                    format!("{} panics at {}:{}: {}", PARSERS[p], pi.file, pi.line, mask(&pi.msg, 160)),
                ));
            }
        }
        v
    });
    match h.map(|h| h.join()) {
        Ok(Ok(v)) => out_m.extend(v),
        _ => out_m.push(Mismatch::new("replay-machinery", "replay thread failed")),
    }
    out_m
}

fn collect_replay_panics(v: &Value, out_m: &mut Vec<Mismatch>) {
    if let Some(ps) = v["panics"].as_array() {
        for e in ps {
            let p = e["parser"].as_u64().unwrap_or(0) as usize;
            let file = e["file"].as_str().unwrap_or("");
            let line = e["line"].as_u64().unwrap_or(0) as u32;
            let head = e["head"].as_str().unwrap_or("");
            out_m.push(Mismatch::new(panic_signature(parser_group(p), file, line, head), format!("{} panics at {}:{}: {}", PARSERS[p], file, line, head)));
        }
    }
}
