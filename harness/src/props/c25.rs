//! C25 — Iterators visit every instruction exactly once in order.
//!
//! Space: modules with k function imports x n local functions x body shapes x ALL skip lists
//! (every subset of the function ids 0..k+n, imports included; plus a non-existing id; thorough:
//! also descending order and duplicated entries). Nothing is sampled.
//! Oracle: an iterator model written from the property text — nested loops over the code section
//! as decoded by wasmparser (never by wirm): for every local function that is not listed as
//! skipped, in function order, every instruction in order, `is_end` = "last instruction of the
//! function". The real `ModuleIterator` is driven the way its documentation shows
//! (`curr_loc`/`curr_op` at the current position, `next()` until it returns `None`).
//!
//! Readings (lenient where the text is silent, so that no false alarm is raised):
//! * nothing is observed after `next()` returned `None` (the text does not say where the iterator
//!   stands then), except that `reset()` must bring it back to the first instruction;
//! * when the expected sequence is EMPTY (no local function / every local function skipped) the
//!   text only says the iterator "works": `new`, `curr_op`, `next` and `reset` must not panic,
//!   `curr_op()` must not hand out an instruction (every instruction there is belongs to a skipped
//!   function) and `next()` must return `None`. `curr_loc()` is NOT called in that situation
//!   (there is no location it could sensibly report);
//! * only the FIRST divergence of a walk is reported (everything after it is a consequence), with
//!   the syntactic context of the position at which it occurs. A divergence after `reset()` is
//!   reported under `reset` only if it is not the very divergence the fresh walk of the same case
//!   already showed (same step, same clause): the clause "restarts from the first instruction"
//!   is about reset, not about defects of walking as such.
use crate::engine::*;
use serde::{Deserialize, Serialize};
use wirm::ir::id::FunctionID;
use wirm::ir::types::Location;
use wirm::iterator::iterator_trait::Iterator as WirmIterator;
use wirm::iterator::module_iterator::ModuleIterator;
use wirm::Module;

/// Body shapes (`t` = (ordinal+1)*16 makes every constant identify (function, index)):
///   1: end                                   2: i32.const t; end
///   3: i32.const t; i32.const t+1; end       4: three constants; end
///   0: block (result i32); i32.const t; end; end   (an inner `end` that is not the function's end)
#[derive(Serialize, Deserialize, Clone, Debug)]
struct Case {
    /// number of imported functions (they take the function ids 0..k)
    k: u32,
    /// body shape of each local function, in order
    bodies: Vec<u8>,
    /// the skip list handed to ModuleIterator::new, verbatim
    skip: Vec<u32>,
}

#[derive(Serialize, Deserialize, Clone, Debug)]
struct MetaCase {
    k: u32,
    bodies: Vec<u8>,
}

fn module_wat(k: u32, bodies: &[u8]) -> String {
    let mut s = String::from("(module\n");
    for i in 0..k {
        s.push_str(&format!("  (import \"e\" \"f{}\" (func))\n", i));
    }
    for (i, b) in bodies.iter().enumerate() {
        let t = (i as i32 + 1) * 16;
        let f = match b {
            1 => "(func)".to_string(),
            2 => format!("(func (result i32) i32.const {})", t),
            3 => format!("(func (result i32 i32) i32.const {} i32.const {})", t, t + 1),
            4 => format!("(func (result i32 i32 i32) i32.const {} i32.const {} i32.const {})", t, t + 1, t + 2),
            _ => format!("(func (result i32) block (result i32) i32.const {} end)", t),
        };
        s.push_str("  ");
        s.push_str(&f);
        s.push('\n');
    }
    s.push(')');
    s
}

/// Independent decoding: number of function imports and the operators of every code entry.
fn decode(bytes: &[u8]) -> Result<(u32, Vec<Vec<String>>), String> {
    let mut imports = 0u32;
    let mut bodies = vec![];
    for p in wasmparser::Parser::new(0).parse_all(bytes) {
        match p.map_err(|e| e.to_string())? {
            wasmparser::Payload::ImportSection(r) => {
                for i in r {
                    if let wasmparser::TypeRef::Func(_) = i.map_err(|e| e.to_string())?.ty {
                        imports += 1;
                    }
                }
            }
            wasmparser::Payload::CodeSectionEntry(body) => {
                let mut ops = vec![];
                for op in body.get_operators_reader().map_err(|e| e.to_string())? {
                    ops.push(format!("{:?}", op.map_err(|e| e.to_string())?));
                }
                bodies.push(ops);
            }
            _ => {}
        }
    }
    Ok((imports, bodies))
}

/// One observation of the iterator at a position.
#[derive(Clone, Debug, PartialEq, Eq, Hash)]
struct Obs {
    func: u32,
    instr: usize,
    is_end: bool,
    op: Option<String>,
    /// what `next()` returned when it moved here (None for the position after new/reset)
    ret: Option<String>,
}

/// The iterator model: the expected visit sequence plus, per step, (ordinal of the function among
/// the local functions).
fn model(k: u32, bodies: &[Vec<String>], skip: &[u32]) -> Vec<(Obs, usize)> {
    let mut v = vec![];
    for (ord, ops) in bodies.iter().enumerate() {
        let fid = k + ord as u32;
        if skip.contains(&fid) {
            continue;
        }
        for (i, op) in ops.iter().enumerate() {
            v.push((
                Obs { func: fid, instr: i, is_end: i + 1 == ops.len(), op: Some(op.clone()), ret: Some(op.clone()) },
                ord,
            ));
        }
    }
    v
}

enum WalkEnd {
    /// `next()` returned None
    Done,
    /// more than the allowed number of steps
    Cap,
    Panic(&'static str, PanicInfo),
}

fn observe(it: &ModuleIterator, ret: Option<String>, call: &mut &'static str) -> Obs {
    *call = "curr_loc";
    let (loc, is_end) = it.curr_loc();
    let (func, instr) = match loc {
        Location::Module { func_idx, instr_idx } => (*func_idx, instr_idx),
        Location::Component { func_idx, instr_idx, .. } => (*func_idx, instr_idx),
    };
    *call = "curr_op";
    let op = it.curr_op().map(|o| format!("{:?}", o));
    Obs { func, instr, is_end, op, ret }
}

/// Observe the current position, then step with `next()` until it returns None (at most `cap`
/// observations). Observations made before a panic survive in `seq`.
fn walk(it: &mut ModuleIterator, cap: usize, seq: &mut Vec<Obs>) -> WalkEnd {
    let mut call: &'static str = "curr_loc";
    let r = catch(|| {
        seq.push(observe(it, None, &mut call));
        loop {
            call = "next";
            let ret = match it.next() {
                None => return true,
                Some(op) => format!("{:?}", op),
            };
            if seq.len() >= cap {
                return false;
            }
            seq.push(observe(it, Some(ret), &mut call));
        }
    });
    match r {
        Ok(true) => WalkEnd::Done,
        Ok(false) => WalkEnd::Cap,
        Err(p) => WalkEnd::Panic(call, p),
    }
}

/// Compact rendering of a whole observed walk for the detail text.
fn shorten(mut v: Vec<String>) -> Vec<String> {
    if v.len() > 24 {
        let tail = v.split_off(v.len() - 6);
        v.truncate(12);
        v.push(String::new()); // placeholder, filled in by the caller with the total
        v.extend(tail);
    }
    v
}
fn render(got: &[Obs], end: &WalkEnd) -> String {
    let total = got.len();
    let mut v: Vec<String> = shorten(got.iter().map(|g| format!("f{}:{}{}", g.func, g.instr, if g.is_end { "(end)" } else { "" })).collect());
    if total > 24 {
        v[12] = format!("...({} steps in all)...", total);
    }
    v.push(match end {
        WalkEnd::Done => "None".to_string(),
        WalkEnd::Cap => "...(cap)".to_string(),
        WalkEnd::Panic(call, _) => format!("{}() panics", call),
    });
    v.join(" ")
}
fn render_model(exp: &[(Obs, usize)]) -> String {
    let total = exp.len();
    let mut v: Vec<String> = shorten(exp.iter().map(|(g, _)| format!("f{}:{}{}", g.func, g.instr, if g.is_end { "(end)" } else { "" })).collect());
    if total > 24 {
        v[12] = format!("...({} steps in all)...", total);
    }
    v.push("None".into());
    v.join(" ")
}

/// First divergence of an observed walk from the model: (step, clause, detail).
fn first_divergence(exp: &[(Obs, usize)], got: &[Obs], end: &WalkEnd) -> Option<(usize, String, String)> {
    for (d, g) in got.iter().enumerate() {
        if d >= exp.len() {
            let clause = match end {
                WalkEnd::Cap => "does-not-terminate",
                _ => "extra-visit",
            };
            return Some((d, clause.into(), format!("step {}: visited f{}:{} after the expected sequence was complete; whole walk observed [{}], expected [{}]", d, g.func, g.instr, render(got, end), render_model(exp))));
        }
        let e = &exp[d].0;
        let clause = if (g.func, g.instr) != (e.func, e.instr) {
            "location"
        } else if g.is_end != e.is_end {
            "is-end-flag"
        } else if g.op != e.op {
            "curr-op"
        } else if d > 0 && g.ret != e.ret {
            "next-returned-op"
        } else {
            continue;
        };
        return Some((
            d,
            clause.into(),
            format!(
                "step {}: expected f{}:{} is_end={} op={:?}, observed f{}:{} is_end={} op={:?} next-returned={:?}; whole walk observed [{}], expected [{}]",
                d, e.func, e.instr, e.is_end, e.op, g.func, g.instr, g.is_end, g.op, g.ret, render(got, end), render_model(exp)
            ),
        ));
    }
    let d = got.len();
    match end {
        WalkEnd::Panic(call, p) => Some((
            d,
            format!("panic {}", call),
            format!("step {}: {}() panicked: {} at {}:{}; whole walk observed [{}], expected [{}]", d, call, p.msg, p.file, p.line, render(got, end), render_model(exp)),
        )),
        WalkEnd::Cap => Some((d, "does-not-terminate".into(), format!("still stepping after {} observations", d))),
        WalkEnd::Done => {
            if d < exp.len() {
                Some((d, "missing-visit".into(), format!("next() returned None after {} of {} instructions; whole walk observed [{}], expected [{}]", d, exp.len(), render(got, end), render_model(exp))))
            } else {
                None
            }
        }
    }
}

/// Syntactic context of step `d` of the expected sequence (never indices or sizes).
fn context(exp: &[(Obs, usize)], d: usize, k: u32, n: usize, skip: &[u32]) -> &'static str {
    let skipped = |ord: usize| skip.contains(&(k + ord as u32));
    if d >= exp.len() {
        return if n > 0 && skipped(n - 1) { "at-end-after-trailing-skip" } else { "at-end" };
    }
    let ord = exp[d].1;
    let prev_visited = exp[..d].iter().rev().map(|x| x.1).find(|o| *o != ord);
    match prev_visited {
        None => {
            if ord > 0 {
                "first-visited-after-leading-skip"
            } else {
                "first-function"
            }
        }
        Some(p) => {
            if ord > p + 1 {
                "function-after-skipped"
            } else {
                "following-function"
            }
        }
    }
}

fn class_of(c: &Case) -> String {
    let n = c.bodies.len();
    let k = c.k;
    let sk = |ord: usize| c.skip.contains(&(k + ord as u32));
    let skipped = (0..n).filter(|o| sk(*o)).count();
    let mut dup = false;
    for (i, a) in c.skip.iter().enumerate() {
        if c.skip[..i].contains(a) {
            dup = true;
        }
    }
    format!(
        "k{} n{} skipped:{} lead:{} trail:{} mid:{} imp:{} ghost:{} dup:{} desc:{} blk:{}",
        k,
        n,
        if skipped == 0 { "none" } else if skipped == n { "all" } else { "some" },
        n > 0 && sk(0),
        n > 0 && sk(n - 1),
        n > 2 && (1..n - 1).any(sk),
        c.skip.iter().any(|i| *i < k),
        c.skip.iter().any(|i| *i >= k + n as u32),
        dup,
        c.skip.windows(2).any(|w| w[0] > w[1]),
        c.bodies.contains(&0),
    )
}

fn run_case(c: &Case) -> Outcome {
    let bytes = match wat::parse_str(module_wat(c.k, &c.bodies)) {
        Ok(b) => b,
        Err(e) => return Outcome::skip(format!("generator: wat error {}", e)),
    };
    judge(&bytes, &c.skip, format!("k={} bodies={:?} skip={:?}", c.k, c.bodies, c.skip), class_of(c), true)
}

/// Judge one (module, skip list). `all_j`: reset after every number of steps (else after 0, 1,
/// half, all-but-one and all steps: used for the large corpus modules only).
fn judge(bytes: &[u8], skip_list: &[u32], desc: String, class: String, all_j: bool) -> Outcome {
    if let Err(e) = crate::wasmutil::validate(bytes, crate::wasmutil::features_core()) {
        return Outcome::skip(format!("input does not validate: {}", e.split(" (at offset").next().unwrap_or("")));
    }
    let (k, bodies) = match decode(bytes) {
        Ok(x) => x,
        Err(e) => return Outcome::skip(format!("input undecodable: {}", e)),
    };
    let n = bodies.len();
    let exp = model(k, &bodies, skip_list);
    let mut o = Outcome::ok(class);
    let skip: Vec<FunctionID> = skip_list.iter().map(|i| FunctionID(*i)).collect();
    let mut observed_all: Vec<(usize, Vec<Obs>)> = vec![];

    let parse = || Module::parse(bytes, false);

    // ---------------------------------------------------------------- empty expected sequence
    if exp.is_empty() {
        let what = if n == 0 { "no-local-functions" } else { "all-skipped" };
        let mut module = match catch(parse) {
            Ok(Ok(m)) => m,
            Ok(Err(e)) => return Outcome::skip(format!("valid input rejected by parse (C01's business): {:?}", e)),
            Err(p) => return Outcome::skip(format!("parse panics on a valid input (C03's business): {}", p.site())),
        };
        let call = std::cell::Cell::new("new");
        let r = catch(|| {
            let mut it = ModuleIterator::new(&mut module, &skip);
            let mut notes: Vec<String> = vec![];
            call.set("curr_op");
            if let Some(op) = it.curr_op() {
                notes.push(format!("curr_op() after new hands out {:?}", op));
            }
            call.set("next");
            if let Some(op) = it.next() {
                notes.push(format!("next() after new returns {:?}", op));
            }
            call.set("reset");
            it.reset();
            call.set("curr_op after reset");
            if let Some(op) = it.curr_op() {
                notes.push(format!("curr_op() after reset hands out {:?}", op));
            }
            call.set("next after reset");
            if let Some(op) = it.next() {
                notes.push(format!("next() after reset returns {:?}", op));
            }
            notes
        });
        match r {
            Ok(notes) => {
                o.observed = hash_of(&notes);
                if !notes.is_empty() {
                    o.fail(
                        format!("extra-visit {}", what),
                        format!("{}: nothing may be visited, but {}", desc, notes.join("; ")),
                    );
                }
            }
            Err(p) => {
                let call = call.get();
                o.observed = hash_of(&(call, &p.msg));
                o.fail(
                    format!("panic {}", what),
                    format!("{}: {} panicked: {} at {}:{}", desc, call, p.msg, p.file, p.line),
                );
            }
        }
        return o;
    }

    // ---------------------------------------------------------------- phase A: fresh walk
    let cap = exp.len() + 5;
    let mut module = match catch(parse) {
        Ok(Ok(m)) => m,
        Ok(Err(e)) => return Outcome::skip(format!("valid input rejected by parse (C01's business): {:?}", e)),
        Err(p) => return Outcome::skip(format!("parse panics on a valid input (C03's business): {}", p.site())),
    };
    let mut seq = vec![];
    let fresh_div = match catch(|| ModuleIterator::new(&mut module, &skip)) {
        Err(p) => Some((0usize, "panic new".to_string(), format!("new panicked: {} at {}:{}", p.msg, p.file, p.line))),
        Ok(mut it) => {
            let end = walk(&mut it, cap, &mut seq);
            first_divergence(&exp, &seq, &end)
        }
    };
    observed_all.push((usize::MAX, seq));
    if let Some((d, clause, detail)) = &fresh_div {
        o.fail(
            format!("walk {} {}", clause, context(&exp, *d, k, n, skip_list)),
            format!("{}: {}", desc, detail),
        );
    }

    // ---------------------------------------------------------------- phase B: reset after j steps
    // j = number of next() calls before reset(); j = exp.len() means "walked until None".
    let mut reported_reset = false;
    let js: Vec<usize> = if all_j {
        (0..=exp.len()).collect()
    } else {
        let mut v = vec![0, 1, exp.len() / 2, exp.len().saturating_sub(1), exp.len()];
        v.retain(|j| *j <= exp.len());
        v.sort();
        v.dedup();
        v
    };
    for j in js {
        let mut module = match catch(parse) {
            Ok(Ok(m)) => m,
            _ => break,
        };
        let mut it = match catch(|| ModuleIterator::new(&mut module, &skip)) {
            Ok(it) => it,
            Err(_) => break, // already reported by phase A
        };
        // the partial walk itself is phase A's business; if it goes wrong, nothing is claimed here
        let mut steps_ok = true;
        let pre = catch(|| {
            for s in 0..j {
                let r = it.next().is_some();
                // the last of exp.len() calls is the one that must return None
                if r != (s + 1 < exp.len()) {
                    return false;
                }
            }
            true
        });
        if !matches!(pre, Ok(true)) {
            steps_ok = false;
        }
        if !steps_ok {
            continue;
        }
        let mut seq = vec![];
        let div = match catch(|| it.reset()) {
            Err(p) => Some((0usize, "panic reset".to_string(), format!("reset() panicked: {} at {}:{}", p.msg, p.file, p.line))),
            Ok(()) => {
                let end = walk(&mut it, cap, &mut seq);
                first_divergence(&exp, &seq, &end)
            }
        };
        observed_all.push((j, seq));
        if let Some((d, clause, detail)) = div {
            let same_as_fresh = matches!(&fresh_div, Some((fd, fc, _)) if *fd == d && *fc == clause);
            if !same_as_fresh && !reported_reset {
                reported_reset = true; // one report per case: the smallest j
                let when = if j == 0 {
                    "immediately"
                } else if j >= exp.len() {
                    "after-complete-walk"
                } else if exp[j].1 == exp[0].1 {
                    "inside-first-visited-function"
                } else {
                    "inside-later-function"
                };
                o.fail(
                    format!("reset {} {} {}", when, clause, context(&exp, d, k, n, skip_list)),
                    format!("{}: after {} next() calls and reset(): {}", desc, j, detail),
                );
            }
        }
    }
    o.observed = hash_of(&observed_all);
    o.count("iterator_steps", observed_all.iter().map(|(_, s)| s.len() as u64).sum());
    o
}

/// Secondary family (thorough): the repository's own core-module fixtures as additional FIXED
/// inputs (never a replacement for the exhaustive family), each with a handful of skip lists.
#[derive(Serialize, Deserialize, Clone, Debug)]
struct CorpusCase {
    /// path of a .wat / .wasm fixture
    file: String,
    /// none | first | last | all | alternate | imports
    skip: String,
}

fn corpus_bytes(file: &str) -> Result<Vec<u8>, String> {
    let b = if file.ends_with(".wat") {
        wat::parse_file(file).map_err(|e| format!("wat: {}", e.to_string().lines().next().unwrap_or("")))?
    } else {
        std::fs::read(file).map_err(|e| e.to_string())?
    };
    if !wasmparser::Parser::is_core_wasm(&b) {
        return Err("not a core module".into());
    }
    Ok(b)
}

fn corpus_skip(kind: &str, k: u32, n: u32) -> Vec<u32> {
    match kind {
        "first" if n > 0 => vec![k],
        "last" if n > 0 => vec![k + n - 1],
        "all" => (k..k + n).collect(),
        "alternate" => (k..k + n).filter(|i| (i - k) % 2 == 1).collect(),
        "imports" => (0..k).collect(),
        _ => vec![],
    }
}

fn run_corpus(c: &CorpusCase) -> Outcome {
    let bytes = match corpus_bytes(&c.file) {
        Ok(b) => b,
        Err(e) => return Outcome::skip(format!("corpus file unusable: {}", e)),
    };
    let (k, bodies) = match decode(&bytes) {
        Ok(x) => x,
        Err(_) => return Outcome::skip("corpus file undecodable".to_string()),
    };
    let skip = corpus_skip(&c.skip, k, bodies.len() as u32);
    let size = match bodies.iter().map(|b| b.len()).sum::<usize>() {
        0 => "empty",
        1..=99 => "small",
        100..=9999 => "medium",
        _ => "large",
    };
    judge(
        &bytes,
        &skip,
        format!("{} ({} imported + {} local functions) skip={} {:?}", c.file, k, bodies.len(), c.skip, if skip.len() > 8 { &skip[..8] } else { &skip[..] }),
        format!("corpus {} imports:{} {}", c.skip, k > 0, size),
        false,
    )
}

fn corpus_files(dir: &std::path::Path, out: &mut Vec<(u64, String)>) {
    if let Ok(rd) = std::fs::read_dir(dir) {
        for e in rd.flatten() {
            let p = e.path();
            if p.is_dir() {
                corpus_files(&p, out);
            } else if let Some(s) = p.to_str() {
                if s.ends_with(".wat") || s.ends_with(".wasm") {
                    out.push((e.metadata().map(|m| m.len()).unwrap_or(0), s.to_string()));
                }
            }
        }
    }
}

fn run_meta(c: &MetaCase) -> Outcome {
    let bytes = match wat::parse_str(module_wat(c.k, &c.bodies)) {
        Ok(b) => b,
        Err(e) => return Outcome::skip(format!("generator: wat error {}", e)),
    };
    if let Err(e) = crate::wasmutil::validate(&bytes, crate::wasmutil::features_core()) {
        return Outcome::skip(format!("input does not validate: {}", e));
    }
    let (k, bodies) = match decode(&bytes) {
        Ok(x) => x,
        Err(e) => return Outcome::skip(format!("input undecodable: {}", e)),
    };
    let want: Vec<(u32, usize)> = bodies.iter().enumerate().map(|(i, b)| (k + i as u32, b.len())).collect();
    let mut o = Outcome::ok(format!("k{} n{} blk:{}", c.k, c.bodies.len(), c.bodies.contains(&0)));
    let got = catch(|| {
        let m = Module::parse(&bytes, false).expect("valid module parses");
        m.get_func_metadata().iter().map(|(f, n)| (**f, *n)).collect::<Vec<_>>()
    });
    match got {
        Err(p) => o.fail("panic metadata", format!("k={} bodies={:?}: {} at {}:{}", c.k, c.bodies, p.msg, p.file, p.line)),
        Ok(got) => {
            o.observed = hash_of(&got);
            if got.len() != want.len() {
                o.fail("metadata function-count", format!("k={} bodies={:?}: expected {:?}, got {:?}", c.k, c.bodies, want, got));
            } else if got.iter().zip(&want).any(|(a, b)| a.0 != b.0) {
                o.fail("metadata function-id", format!("k={} bodies={:?}: expected {:?}, got {:?}", c.k, c.bodies, want, got));
            } else if got != want {
                o.fail("metadata instruction-count", format!("k={} bodies={:?}: expected {:?}, got {:?}", c.k, c.bodies, want, got));
            }
        }
    }
    o
}

fn body_vectors(n: usize, shapes: &[u8]) -> Vec<Vec<u8>> {
    let mut all: Vec<Vec<u8>> = vec![vec![]];
    for _ in 0..n {
        let mut next = vec![];
        for v in all.iter() {
            for s in shapes {
                let mut w = v.clone();
                w.push(*s);
                next.push(w);
            }
        }
        all = next;
    }
    all
}

pub fn check(tier: Tier) -> i32 {
    let mut run = Run::new("C25", tier, "exploration");
    let max_n = tier.pick(3usize, 4usize);
    let shapes: Vec<u8> = tier.pick(vec![1, 2, 3, 0], vec![1, 2, 3, 4, 0]);
    run.rule = format!(
        "ModuleIterator on modules with k in 0..=2 function imports x n in 0..={} local functions x body shapes {:?} (1-{} plain instructions, 0 = 4 instructions with an inner block/end){} x ALL skip lists = every subset of the function ids 0..k+n (imports included), each also with a non-existing id appended{}; per case: fresh walk (curr_loc, is_end, curr_op, value returned by next) until None (cap expected+5), and reset() after j next() calls for ALL j followed by a full walk; empty expected sequence: new/curr_op/next/reset must not panic and must visit nothing. Oracle: nested-loop iterator model over the wasmparser-decoded code section. Second family: get_func_metadata() == [(k+i, #instructions)]. Thorough, secondary: the core-module fixtures under /repo/tests x (no / first / last / all / every second local function / all imports) skipped. Non-trivial class = (k, n, which of leading/trailing/middle/all/no function skipped, import id / non-existing id / duplicate / descending order in the list, block body present)",
        max_n,
        shapes,
        shapes.iter().max().unwrap(),
        tier.pick("", ", plus n = 5 with the shapes 1,2,3"),
        tier.pick("; each subset also in descending and rotated order, with every entry duplicated, and with a non-existing id first", "; each subset also in descending and rotated order, in every order when it has <= 4 entries, with every entry duplicated, and with a non-existing id first"),
    );
    let mut cases = vec![];
    let mut metas = vec![];
    // smallest first: by number of local functions, then imports
    // thorough: one more function with the plain shapes only (keeps the case list in memory)
    let top_n = tier.pick(max_n, max_n + 1);
    for n in 0..=top_n {
        for k in 0..=2u32 {
            let shapes_n: Vec<u8> = if n > max_n { vec![1, 2, 3] } else { shapes.clone() };
            for bodies in body_vectors(n, &shapes_n) {
                metas.push(MetaCase { k, bodies: bodies.clone() });
                let ids = k as usize + n;
                for mask in 0u32..(1 << ids) {
                    let subset: Vec<u32> = (0..ids as u32).filter(|i| mask & (1 << i) != 0).collect();
                    cases.push(Case { k, bodies: bodies.clone(), skip: subset.clone() });
                    let mut ghost = subset.clone();
                    ghost.push(ids as u32 + 3);
                    cases.push(Case { k, bodies: bodies.clone(), skip: ghost });
                    if !subset.is_empty() {
                        // the caller's list is not sorted for them: descending, rotated, and (thorough) every
                        // order of lists with <= 4 entries
                        if subset.len() > 1 {
                            let mut desc = subset.clone();
                            desc.reverse();
                            cases.push(Case { k, bodies: bodies.clone(), skip: desc });
                        }
                        if subset.len() > 2 {
                            let mut rot = subset.clone();
                            rot.rotate_left(1);
                            cases.push(Case { k, bodies: bodies.clone(), skip: rot });
                            if tier == Tier::Thorough && subset.len() <= 4 {
                                let mut perm = subset.clone();
                                // Heap's algorithm, all orders
                                let n = perm.len();
                                let mut c = vec![0usize; n];
                                let mut i = 0;
                                while i < n {
                                    if c[i] < i {
                                        if i % 2 == 0 {
                                            perm.swap(0, i);
                                        } else {
                                            perm.swap(c[i], i);
                                        }
                                        cases.push(Case { k, bodies: bodies.clone(), skip: perm.clone() });
                                        c[i] += 1;
                                        i = 0;
                                    } else {
                                        c[i] = 0;
                                        i += 1;
                                    }
                                }
                            }
                        }
                        let mut dup = vec![];
                        for s in subset.iter() {
                            dup.push(*s);
                            dup.push(*s);
                        }
                        cases.push(Case { k, bodies: bodies.clone(), skip: dup });
                        let mut ghost_first = vec![ids as u32 + 3];
                        ghost_first.extend(subset.iter().rev());
                        cases.push(Case { k, bodies: bodies.clone(), skip: ghost_first });
                    }
                }
            }
        }
    }
    run.extra.insert(
        "bounds".into(),
        serde_json::json!({"imports": [0, 1, 2], "max_local_functions": max_n, "extra_n_with_plain_shapes": if top_n > max_n { Some(top_n) } else { None }, "body_shapes": shapes, "skip_lists": "all subsets of ids 0..k+n, +non-existing id, +descending, +rotated, +duplicated, +non-existing first; thorough: +all orders of lists with <= 4 entries"}),
    );
    run.run_cases("skip lists", &cases, run_case);
    run.run_cases("func metadata", &metas, run_meta);
    if tier == Tier::Thorough {
        let mut files = vec![];
        corpus_files(std::path::Path::new("/repo/tests"), &mut files);
        files.sort(); // smallest first, then by path: a fixed order
        let mut corpus = vec![];
        let mut usable = 0;
        for (_, f) in files.iter() {
            let Ok(b) = corpus_bytes(f) else { continue };
            let Ok((k, bodies)) = decode(&b) else { continue };
            usable += 1;
            let mut seen: Vec<Vec<u32>> = vec![];
            for kind in ["none", "first", "last", "all", "alternate", "imports"] {
                let s = corpus_skip(kind, k, bodies.len() as u32);
                if seen.contains(&s) {
                    continue; // the same list under another name
                }
                seen.push(s);
                corpus.push(CorpusCase { file: f.clone(), skip: kind.to_string() });
            }
        }
        run.extra.insert("corpus".into(), serde_json::json!({"files_found": files.len(), "core_modules_usable": usable, "cases": corpus.len(), "role": "secondary fixed seeds; reset judged after 0, 1, half, all-but-one and all steps only"}));
        run.run_cases("corpus (secondary)", &corpus, run_corpus);
    }
    run.assumptions.push("decoding of the input's code section by wasmparser 0.235 is correct".into());
    run.assumptions.push("nothing is observed after next() returned None other than through reset(); curr_loc() is not called when nothing is to be visited (lenient readings)".into());
    run.assumptions.push("only the first divergence of a walk is reported; reset-after-j-steps is judged only for prefixes whose next() calls behaved as expected".into());
    run.finish()
}

pub fn replay(family: &str, case: &serde_json::Value) -> Vec<Mismatch> {
    if family.starts_with("corpus") {
        return match serde_json::from_value::<CorpusCase>(case.clone()) {
            Ok(c) => run_corpus(&c).mismatches,
            Err(e) => vec![Mismatch::new("replay-file-unreadable", e.to_string())],
        };
    }
    if family == "func metadata" {
        match serde_json::from_value::<MetaCase>(case.clone()) {
            Ok(c) => run_meta(&c).mismatches,
            Err(e) => vec![Mismatch::new("replay-file-unreadable", e.to_string())],
        }
    } else {
        match serde_json::from_value::<Case>(case.clone()) {
            Ok(c) => run_case(&c).mismatches,
            Err(e) => vec![Mismatch::new("replay-file-unreadable", e.to_string())],
        }
    }
}
