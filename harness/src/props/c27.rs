//! C27 — Component round trip preserves structure at any nesting depth.
//!
//! Inputs are generated as WAT (numeric indices filled by a small index-space model) and assembled
//! with the `wat` crate, then optionally re-framed at byte level (every item of a vector section in
//! its own section; component-name section moved to the front) with wasmparser item offsets — never
//! through wirm. Outputs are decoded with wasmparser / wasmprinter only.
//!
//! Oracle, for every input that validates (component-model feature set of wasmparser 0.235; inputs
//! that need the async / values / gc extensions are validated with those switched on and classed
//! `ext`; everything else is excluded and counted):
//!   parse Ok without panic; encode without panic; output validates under the same features;
//!   wasmprinter text equal after removing `(@...)` annotation forms (section framing is not in the
//!   text: merging adjacent same-kind sections is allowed, order and content are compared);
//!   per nesting level the ordered list of non-name custom sections is equal; component names are
//!   equal; the per-level sequence of section kinds (run-length merged) is equal.
//! Lenient: the position of the component-name section and of custom sections relative to the other
//! sections inside one level is compared only through the run-length skeleton (custom sections are
//! their own kind there); the empty `name` section wirm's module encoder appends is ignored.
use crate::engine::*;
use crate::wasmutil;
use serde::{Deserialize, Serialize};
use std::collections::BTreeMap;
use wasmparser::{Parser, Payload, WasmFeatures};
use wirm::Component;

#[derive(Serialize, Deserialize, Clone, Debug)]
pub struct Case {
    /// "tree" | "atoms" | "types" | "canon" | "corpus"
    kind: String,
    /// tree: shape, e.g. `C(C(M)M)`; atoms: comma separated atom names; types: `form@position`;
    /// canon: form name; corpus: `path#index`
    spec: String,
    /// tree only: 0 none, 1 a distinct type before the children, 2 after, 3 both
    #[serde(default)]
    marker: u8,
    /// every item carries a `$name` (a component-name section is present)
    #[serde(default)]
    named: bool,
    /// the component-name section of every level is moved in front of the other sections
    #[serde(default)]
    name_front: bool,
    /// tree only, with `named`: kinds of items that stay anonymous - bit 0 the root component, bit 1 the
    /// core modules, bit 2 the nested components (so that a level's name section holds only some maps)
    #[serde(default)]
    anon: u8,
    /// every item of a vector section gets a section of its own
    #[serde(default)]
    split: bool,
}

// ---------------------------------------------------------------------------------------------
// feature sets
// ---------------------------------------------------------------------------------------------
fn features_ext() -> WasmFeatures {
    wasmutil::features_component()
        | WasmFeatures::CM_ASYNC
        | WasmFeatures::CM_ASYNC_STACKFUL
        | WasmFeatures::CM_ASYNC_BUILTINS
        | WasmFeatures::CM_VALUES
        | WasmFeatures::CM_NESTED_NAMES
        | WasmFeatures::CM_ERROR_CONTEXT
        | WasmFeatures::CM_FIXED_SIZE_LIST
        | WasmFeatures::CM_GC
        | WasmFeatures::SHARED_EVERYTHING_THREADS
}

// ---------------------------------------------------------------------------------------------
// generator 1: nesting trees
// ---------------------------------------------------------------------------------------------
/// all forests with exactly `n` nodes whose roots may be components (with children, if depth
/// allows) or core modules
fn forests(n: usize, depth_left: usize) -> Vec<String> {
    if n == 0 {
        return vec![String::new()];
    }
    let mut out = vec![];
    for s in 1..=n {
        for t in subtrees(s, depth_left) {
            for rest in forests(n - s, depth_left) {
                out.push(format!("{}{}", t, rest));
            }
        }
    }
    out
}
fn subtrees(n: usize, depth_left: usize) -> Vec<String> {
    if n == 1 {
        return vec!["C".into(), "M".into()];
    }
    if depth_left == 0 {
        return vec![];
    }
    forests(n - 1, depth_left - 1).into_iter().map(|f| format!("C({})", f)).collect()
}
fn trees(n: usize, max_depth: usize) -> Vec<String> {
    if n == 1 {
        return vec!["C".into()];
    }
    forests(n - 1, max_depth - 1).into_iter().map(|f| format!("C({})", f)).collect()
}

fn tree_wat(shape: &str, marker: u8, named: bool, anon: u8) -> Result<String, String> {
    fn node(b: &[u8], pos: &mut usize, k: &mut u32, marker: u8, named: bool, anon: u8, out: &mut String) -> Result<(), String> {
        match b.get(*pos) {
            Some(b'M') => {
                *pos += 1;
                let id = if named && anon & 2 == 0 { format!(" $m{}", k) } else { String::new() };
                out.push_str(&format!(
                    "(core module{} (func (export \"m{}\") (result i32) i32.const {}))",
                    id,
                    k,
                    0x5F00 + *k
                ));
                *k += 1;
                Ok(())
            }
            Some(b'C') => {
                *pos += 1;
                let me = *k;
                *k += 1;
                let is_anon = if me == 0 { anon & 1 != 0 } else { anon & 4 != 0 };
                let id = if named && !is_anon { format!(" $c{}", me) } else { String::new() };
                out.push_str(&format!("(component{}", id));
                if marker & 1 != 0 {
                    out.push_str(&format!(" (type (enum \"c{}a\"))", me));
                }
                if b.get(*pos) == Some(&b'(') {
                    *pos += 1;
                    while b.get(*pos) != Some(&b')') {
                        if *pos >= b.len() {
                            return Err("unbalanced shape".into());
                        }
                        out.push(' ');
                        node(b, pos, k, marker, named, anon, out)?;
                    }
                    *pos += 1;
                }
                if marker & 2 != 0 {
                    out.push_str(&format!(" (type (enum \"c{}z\"))", me));
                }
                out.push(')');
                Ok(())
            }
            _ => Err("bad shape".into()),
        }
    }
    let mut out = String::new();
    let mut pos = 0;
    let mut k = 0;
    node(shape.as_bytes(), &mut pos, &mut k, marker, named, anon, &mut out)?;
    if pos != shape.len() {
        return Err("trailing shape".into());
    }
    Ok(out)
}

// ---------------------------------------------------------------------------------------------
// generator 2: section atoms with an index-space model
// ---------------------------------------------------------------------------------------------
#[derive(Clone, Copy, PartialEq, Debug)]
enum T {
    Def,
    F0,
    F1,
    Inst,
    Comp,
    Res,
}
#[derive(Clone, Default)]
struct St {
    cmods: u32,
    ctypes: u32,
    /// core instances: signature kind of their export "f"
    cinsts: Vec<u8>,
    /// core funcs: 0 = [] -> [], 1 = [i32] -> [i32]
    cfuncs: Vec<u8>,
    types: Vec<T>,
    /// component funcs: 0 = (func), 1 = (func (param u32) (result u32))
    funcs: Vec<u8>,
    /// component instances: exports a func "g" of kind 0
    insts: Vec<bool>,
    /// nested/imported components: (instantiable without arguments, exports "g")
    comps: Vec<(bool, bool)>,
    start: bool,
}

const ATOMS: &[&str] = &[
    "mod", "ctype.f", "ctype.m", "cinst", "cinst.x", "alias.c", "alias.e", "alias.o", "type.d", "type.f0", "type.f1",
    "type.i", "type.c", "type.r", "imp.f", "imp.i", "imp.c", "exp.f", "exp.m", "exp.i", "exp.c", "exp.t", "lower",
    "lift", "res.new", "inst", "inst.x", "comp.e", "comp.f", "custom", "start",
];

/// one atom per section kind (used for one more step of depth in the thorough tier)
const REDUCED_ATOMS: &[&str] =
    &["mod", "ctype.f", "cinst", "alias.c", "type.f0", "imp.f", "exp.f", "lower", "lift", "inst.x", "comp.f", "custom"];

/// section kind of an atom (vector kinds can be merged/split)
fn atom_section(a: &str) -> (&'static str, bool) {
    match a {
        "mod" => ("module", false),
        "ctype.f" | "ctype.m" => ("core-type", true),
        "cinst" | "cinst.x" => ("core-instance", true),
        "alias.c" | "alias.e" | "alias.o" => ("alias", true),
        "type.d" | "type.f0" | "type.f1" | "type.i" | "type.c" | "type.r" => ("type", true),
        "imp.f" | "imp.i" | "imp.c" => ("import", true),
        "exp.f" | "exp.m" | "exp.i" | "exp.c" | "exp.t" => ("export", true),
        "lower" | "lift" | "res.new" => ("canon", true),
        "inst" | "inst.x" => ("instance", true),
        "comp.e" | "comp.f" => ("component", false),
        "custom" => ("custom", false),
        "start" => ("start", false),
        _ => ("?", false),
    }
}

fn last_pos<X>(v: &[X], f: impl Fn(&X) -> bool) -> Option<u32> {
    v.iter().rposition(f).map(|p| p as u32)
}

/// WAT of one atom at sequence position `pos`, or None if its precondition does not hold.
fn atom(st: &mut St, name: &str, pos: usize, named: bool) -> Option<String> {
    let id = |p: &str| if named { format!(" ${}{}", p, pos) } else { String::new() };
    Some(match name {
        "mod" => {
            st.cmods += 1;
            format!("(core module{} (func (export \"f\") i32.const {} drop))", id("m"), 0x5F00 + pos)
        }
        "ctype.f" => {
            st.ctypes += 1;
            format!("(core type{} (func{}))", id("ct"), " (param i32)".repeat(pos + 1))
        }
        "ctype.m" => {
            st.ctypes += 1;
            format!(
                "(core type{} (module (type (func)) (import \"a\" \"b{}\" (func (type 0))) (export \"f\" (func (type 0)))))",
                id("ct"),
                pos
            )
        }
        "cinst" => {
            if st.cmods == 0 {
                return None;
            }
            st.cinsts.push(0);
            format!("(core instance{} (instantiate {}))", id("ci"), st.cmods - 1)
        }
        "cinst.x" => {
            let f = st.cfuncs.len().checked_sub(1)?;
            st.cinsts.push(st.cfuncs[f]);
            format!("(core instance{} (export \"f\" (func {})))", id("ci"), f)
        }
        "alias.c" => {
            let i = st.cinsts.len().checked_sub(1)?;
            st.cfuncs.push(st.cinsts[i]);
            format!("(alias core export {} \"f\" (core func{}))", i, id("cf"))
        }
        "alias.e" => {
            let i = last_pos(&st.insts, |g| *g)?;
            st.funcs.push(0);
            format!("(alias export {} \"g\" (func{}))", i, id("f"))
        }
        "alias.o" => {
            let t = last_pos(&st.types, |t| *t != T::Res)?;
            let k = st.types[t as usize];
            st.types.push(k);
            format!("(alias outer 0 {} (type{}))", t, id("t"))
        }
        "type.d" => {
            st.types.push(T::Def);
            format!("(type{} (enum \"t{}\"))", id("t"), pos)
        }
        "type.f0" => {
            st.types.push(T::F0);
            format!("(type{} (func))", id("t"))
        }
        "type.f1" => {
            st.types.push(T::F1);
            format!("(type{} (func (param \"p{}\" u32) (result u32)))", id("t"), pos)
        }
        "type.i" => {
            st.types.push(T::Inst);
            format!(
                "(type{} (instance (type (func)) (export \"g\" (func (type 0))) (export \"x{}\" (func (type 0)))))",
                id("t"),
                pos
            )
        }
        "type.c" => {
            st.types.push(T::Comp);
            format!(
                "(type{} (component (type (func)) (import \"a{}\" (func (type 0))) (export \"g\" (func (type 0)))))",
                id("t"),
                pos
            )
        }
        "type.r" => {
            st.types.push(T::Res);
            format!("(type{} (resource (rep i32)))", id("t"))
        }
        "imp.f" => {
            let t = last_pos(&st.types, |t| *t == T::F0 || *t == T::F1)?;
            st.funcs.push(if st.types[t as usize] == T::F0 { 0 } else { 1 });
            format!("(import \"i{}\" (func{} (type {})))", pos, id("f"), t)
        }
        "imp.i" => {
            let t = last_pos(&st.types, |t| *t == T::Inst)?;
            st.insts.push(true);
            format!("(import \"j{}\" (instance{} (type {})))", pos, id("i"), t)
        }
        "imp.c" => {
            let t = last_pos(&st.types, |t| *t == T::Comp)?;
            st.comps.push((false, true));
            format!("(import \"k{}\" (component{} (type {})))", pos, id("c"), t)
        }
        "exp.f" => {
            let f = st.funcs.len().checked_sub(1)?;
            st.funcs.push(st.funcs[f]);
            format!("(export{} \"e{}\" (func {}))", id("f"), pos, f)
        }
        "exp.m" => {
            if st.cmods == 0 {
                return None;
            }
            st.cmods += 1;
            format!("(export{} \"m{}\" (core module {}))", id("m"), pos, st.cmods - 2)
        }
        "exp.i" => {
            let i = st.insts.len().checked_sub(1)?;
            st.insts.push(st.insts[i]);
            format!("(export{} \"n{}\" (instance {}))", id("i"), pos, i)
        }
        "exp.c" => {
            let c = st.comps.len().checked_sub(1)?;
            st.comps.push(st.comps[c]);
            format!("(export{} \"o{}\" (component {}))", id("c"), pos, c)
        }
        "exp.t" => {
            let t = last_pos(&st.types, |t| *t == T::Def)?;
            st.types.push(T::Def);
            format!("(export{} \"t{}\" (type {}))", id("t"), pos, t)
        }
        "lower" => {
            let f = st.funcs.len().checked_sub(1)?;
            st.cfuncs.push(st.funcs[f]);
            format!("(core func{} (canon lower (func {})))", id("cf"), f)
        }
        "lift" => {
            let cf = st.cfuncs.len().checked_sub(1)?;
            let want = if st.cfuncs[cf] == 0 { T::F0 } else { T::F1 };
            let t = last_pos(&st.types, |t| *t == want)?;
            st.funcs.push(st.cfuncs[cf]);
            format!("(func{} (type {}) (canon lift (core func {})))", id("f"), t, cf)
        }
        "res.new" => {
            let t = last_pos(&st.types, |t| *t == T::Res)?;
            st.cfuncs.push(1);
            format!("(core func{} (canon resource.new {}))", id("cf"), t)
        }
        "inst" => {
            let c = last_pos(&st.comps, |c| c.0)?;
            st.insts.push(st.comps[c as usize].1);
            format!("(instance{} (instantiate {}))", id("i"), c)
        }
        "inst.x" => {
            let f = last_pos(&st.funcs, |k| *k == 0)?;
            st.insts.push(true);
            format!("(instance{} (export \"g\" (func {})))", id("i"), f)
        }
        "comp.e" => {
            st.comps.push((true, false));
            format!("(component{})", id("c"))
        }
        "comp.f" => {
            st.comps.push((true, true));
            format!(
                "(component{} (core module (func (export \"f\") i32.const {} drop)) (core instance (instantiate 0)) (alias core export 0 \"f\" (core func)) (type (func)) (func (type 0) (canon lift (core func 0))) (export \"g\" (func 0)))",
                id("c"),
                0x6F00 + pos
            )
        }
        "custom" => format!("(@custom \"x{}\" \"\\{:02x}payload\")", pos, pos),
        "start" => {
            if st.start {
                return None;
            }
            let f = last_pos(&st.funcs, |k| *k == 0)?;
            st.start = true;
            format!("(start {})", f)
        }
        _ => return None,
    })
}

fn atoms_wat(spec: &str, named: bool) -> Result<String, String> {
    let mut st = St::default();
    let mut out = if named { "(component $C".to_string() } else { "(component".to_string() };
    if !spec.is_empty() {
        for (pos, a) in spec.split(',').enumerate() {
            match atom(&mut st, a, pos, named) {
                Some(t) => {
                    out.push(' ');
                    out.push_str(&t);
                }
                None => return Err(format!("atom {} not enabled at {}", a, pos)),
            }
        }
    }
    out.push(')');
    Ok(out)
}

/// all enabled atom sequences of length exactly `len` (DFS over the index-space model)
fn atom_sequences(len: usize, alphabet: &[&'static str]) -> Vec<Vec<&'static str>> {
    fn rec(st: &St, pre: &mut Vec<&'static str>, len: usize, alphabet: &[&'static str], out: &mut Vec<Vec<&'static str>>) {
        if pre.len() == len {
            out.push(pre.clone());
            return;
        }
        for a in alphabet {
            let mut s2 = st.clone();
            if atom(&mut s2, a, pre.len(), false).is_some() {
                pre.push(a);
                rec(&s2, pre, len, alphabet, out);
                pre.pop();
            }
        }
    }
    let mut out = vec![];
    rec(&St::default(), &mut vec![], len, alphabet, &mut out);
    out
}

/// shortest atom sequence after which `a` (and then `b`) is enabled
fn setup_for(a: &str, b: &str) -> Option<Vec<&'static str>> {
    for len in 0..=4 {
        for seq in atom_sequences(len, ATOMS) {
            let mut st = St::default();
            for (i, x) in seq.iter().enumerate() {
                atom(&mut st, x, i, false);
            }
            let mut s2 = st.clone();
            if atom(&mut s2, a, len, false).is_some() && atom(&mut s2, b, len + 1, false).is_some() {
                let mut s3 = s2.clone();
                // both must stay enabled when repeated
                if atom(&mut s3, a, len + 2, false).is_some() {
                    return Some(seq);
                }
            }
        }
    }
    None
}

fn has_adjacent_mergeable(seq: &[&str]) -> bool {
    seq.windows(2).any(|w| {
        let (a, va) = atom_section(w[0]);
        let (b, _) = atom_section(w[1]);
        va && a == b
    })
}

// ---------------------------------------------------------------------------------------------
// generator 3: type forms x positions, canonical builtins
// ---------------------------------------------------------------------------------------------
const TYPE_FORMS: &[(&str, &str)] = &[
    ("bool", "bool"), ("s8", "s8"), ("u8", "u8"), ("s16", "s16"), ("u16", "u16"), ("s32", "s32"), ("u32", "u32"),
    ("s64", "s64"), ("u64", "u64"), ("f32", "f32"), ("f64", "f64"), ("char", "char"), ("string", "string"),
    ("error-context", "error-context"),
    ("record", "(record (field \"a\" u32) (field \"b\" string))"),
    ("record-ref", "(record (field \"a\" 0))"),
    ("variant", "(variant (case \"a\") (case \"b\" u32) (case \"c\" 0))"),
    ("list", "(list u8)"), ("list-ref", "(list 0)"), ("list-fixed", "(list u8 4)"),
    ("tuple", "(tuple u8 string 0)"),
    ("flags", "(flags \"a\" \"b\" \"c\")"),
    ("enum", "(enum \"a\" \"b\")"),
    ("option", "(option u8)"), ("option-ref", "(option 0)"),
    ("result-none", "(result)"), ("result-ok", "(result u8)"), ("result-err", "(result (error u8))"),
    ("result-both", "(result u8 (error string))"),
    ("own", "(own 1)"), ("borrow", "(borrow 1)"),
    ("future-none", "(future)"), ("future-some", "(future u8)"),
    ("stream-none", "(stream)"), ("stream-some", "(stream u8)"),
    ("func-empty", "(func)"), ("func-param", "(func (param \"a\" u8))"),
    ("func-params-result", "(func (param \"a\" u8) (param \"b\" string) (result u8))"),
    ("func-result-ref", "(func (result 0))"),
    ("func-borrow", "(func (param \"a\" (borrow 1)))"),
    ("instance-empty", "(instance)"),
    ("instance-full", "(instance (type (func)) (export \"f\" (func (type 0))) (type (enum \"q\")) (export \"t\" (type (eq 1))) (alias outer 1 0 (type)))"),
    ("instance-coremodule", "(instance (core type (module (type (func)) (import \"a\" \"b\" (func (type 0))) (export \"c\" (func (type 0))))))"),
    ("component-empty", "(component)"),
    ("component-full", "(component (type (func)) (import \"f\" (func (type 0))) (type (enum \"q\")) (export \"t\" (type (eq 1))) (export \"g\" (func (type 0))) (alias outer 1 0 (type)))"),
    ("component-coremodule", "(component (core type (module (type (func)) (export \"c\" (func (type 0))))) (import \"m\" (core module (type 0))))"),
    ("component-nested-instance", "(component (type (instance (type (stream)) (type (future)))) (import \"i\" (instance (type 0))))"),
];
/// core type forms (inside `(core type ...)`)
const CORE_TYPE_FORMS: &[(&str, &str)] = &[
    ("core-func", "(func (param i32) (result i64))"),
    ("core-module", "(module (type (func)) (import \"a\" \"b\" (func (type 0))) (export \"c\" (func (type 0))) (export \"g\" (global i32)) (export \"m\" (memory 1)) (export \"t\" (table 1 funcref)))"),
    ("core-module-alias", "(module (alias outer 1 0 (type)) (import \"a\" \"b\" (func (type 0))))"),
    
    ("core-rec", "!(core rec (type (func)) (type (func (param i32))))"),
    ("core-rec-single", "!(core rec (type (func (param i64))))"),
    ("core-struct", "(struct (field i32) (field (mut i64)))"),
    ("core-array", "(array (mut i8))"),
    ("core-sub", "(sub (func))"),
];
const TYPE_POSITIONS: &[&str] = &["top", "in-instance-type", "in-component-type", "in-instance-in-component-type"];

/// explicit core rec groups inside instance / component type declarations cannot be written in
/// `wat` text; they are built with wasm-encoder 0.235
fn rec_in_type_bytes(posn: &str, members: usize) -> Result<Vec<u8>, String> {
    use wasm_encoder::*;
    let ft = |n: usize| SubType {
        is_final: true,
        supertype_idx: None,
        composite_type: CompositeType { inner: CompositeInnerType::Func(FuncType::new(vec![ValType::I32; n], vec![])), shared: false },
    };
    let group: Vec<SubType> = (0..members).map(ft).collect();
    let mut ts = ComponentTypeSection::new();
    match posn {
        "in-instance-type" => {
            let mut it = InstanceType::new();
            it.core_type().core().rec(group);
            ts.instance(&it);
        }
        "in-component-type" => {
            let mut ct = ComponentType::new();
            ct.core_type().core().rec(group);
            ts.component(&ct);
        }
        "in-instance-in-component-type" => {
            let mut it = InstanceType::new();
            it.core_type().core().rec(group);
            let mut ct = ComponentType::new();
            ct.ty().instance(&it);
            ts.component(&ct);
        }
        "in-component-in-component-type" => {
            let mut inner = ComponentType::new();
            inner.core_type().core().rec(group);
            let mut ct = ComponentType::new();
            ct.ty().component(&inner);
            ts.component(&ct);
        }
        _ => return Err("rec position".into()),
    }
    let mut c = Component::new();
    c.section(&ts);
    Ok(c.finish())
}

fn types_wat(spec: &str) -> Result<String, String> {
    let (form, posn) = spec.split_once('@').ok_or("bad types spec")?;
    let (text, core) = match TYPE_FORMS.iter().find(|f| f.0 == form) {
        Some(f) => (f.1, false),
        None => match CORE_TYPE_FORMS.iter().find(|f| f.0 == form) {
            Some(f) => (f.1, true),
            None => return Err("unknown form".into()),
        },
    };
    let item = if let Some(full) = text.strip_prefix('!') {
        full.to_string()
    } else if core {
        format!("(core type {})", text)
    } else {
        format!("(type {})", text)
    };
    // index 0: an enum; index 1: a resource (top level: defined; inside a type: an exported sub-resource)
    // core type space: index 0 = a func type, so that `alias outer 1 0` has a target
    Ok(match posn {
        "top" => format!("(component (core type (func)) (type (enum \"z\")) (type (resource (rep i32))) {})", item),
        "in-instance-type" => format!(
            "(component (core type (func)) (type (enum \"o\")) (type (instance (type (enum \"z\")) (export \"r\" (type (sub resource))) {})))",
            item
        ),
        "in-component-type" => format!(
            "(component (core type (func)) (type (enum \"o\")) (type (component (type (enum \"z\")) (export \"r\" (type (sub resource))) {})))",
            item
        ),
        "in-instance-in-component-type" => format!(
            "(component (core type (func)) (type (enum \"o\")) (type (component (core type (func)) (type (enum \"o2\")) (type (instance (type (enum \"z\")) (export \"r\" (type (sub resource))) {})))))",
            item
        ),
        _ => return Err("unknown position".into()),
    })
}

/// canonical functions, built with wasm-encoder 0.235 (the text syntax of `wat` 1.259 has moved on
/// for several builtins) and appended as one more section to a prelude assembled from WAT.
/// Prelude index spaces: core funcs realloc=0 f=1 s=2 cb=3 post=4 af=5; core memory 0; core table 0;
/// core type 0 = (func (param i32)); types r=0 f0=1 fs=2 [st=3 ft=4]; func imp=0.
const CANON_PRELUDE: &str = "(core module (memory (export \"mem\") 1) (table (export \"tbl\") 1 funcref) (func (export \"realloc\") (param i32 i32 i32 i32) (result i32) i32.const 0) (func (export \"f\")) (func (export \"cb\") (param i32 i32 i32) (result i32) i32.const 0) (func (export \"s\") (param i32 i32)) (func (export \"post\")) (func (export \"af\") (result i32) i32.const 0)) (core instance (instantiate 0)) (type (resource (rep i32))) (type (func)) (type (func (param \"a\" string))) (core type (func (param i32))) (alias core export 0 \"mem\" (core memory)) (alias core export 0 \"realloc\" (core func)) (alias core export 0 \"f\" (core func)) (alias core export 0 \"s\" (core func)) (alias core export 0 \"cb\" (core func)) (alias core export 0 \"post\" (core func)) (alias core export 0 \"af\" (core func)) (alias core export 0 \"tbl\" (core table)) (import \"imp\" (func (type 2)))";
const CANON_FORMS: &[&str] = &[
    "lift-plain", "lift-utf8", "lift-utf16", "lift-latin1", "lift-post-return", "lift-async", "lift-async-callback",
    "lower-plain", "lower-opts", "lower-async", "resource.new", "resource.drop", "resource.drop-async", "resource.rep",
    "backpressure.set", "task.return-none", "task.return", "task.return-opts", "task.cancel", "context.get", "context.set",
    "yield", "yield-async", "subtask.drop", "subtask.cancel", "subtask.cancel-async", "stream.new", "stream.read",
    "stream.read-async", "stream.write", "stream.cancel-read", "stream.cancel-read-async", "stream.cancel-write",
    "stream.cancel-write-async", "stream.drop-readable", "stream.drop-writable", "future.new", "future.read",
    "future.read-async", "future.write", "future.cancel-read", "future.cancel-read-async", "future.cancel-write",
    "future.cancel-write-async", "future.drop-readable", "future.drop-writable", "error-context.new",
    "error-context.debug-message", "error-context.drop", "waitable-set.new", "waitable-set.wait",
    "waitable-set.wait-async", "waitable-set.poll", "waitable-set.poll-async", "waitable-set.drop", "waitable.join",
    "thread.spawn_ref", "thread.spawn_indirect", "thread.available_parallelism",
];

fn canon_bytes(spec: &str) -> Result<Vec<u8>, String> {
    use wasm_encoder::{CanonicalFunctionSection, CanonicalOption as O, ComponentValType, Encode, PrimitiveValType};
    let mut s = CanonicalFunctionSection::new();
    let (st, ft) = (3u32, 4u32);
    let mem = O::Memory(0);
    let realloc = O::Realloc(0);
    let needs_stream_types = spec.starts_with("stream.") || spec.starts_with("future.");
    match spec {
        "lift-plain" => s.lift(1, 1, []),
        "lift-utf8" => s.lift(2, 2, [mem, realloc, O::UTF8]),
        "lift-utf16" => s.lift(2, 2, [mem, realloc, O::UTF16]),
        "lift-latin1" => s.lift(2, 2, [O::CompactUTF16, mem, realloc]),
        "lift-post-return" => s.lift(1, 1, [O::PostReturn(4)]),
        "lift-async" => s.lift(1, 1, [O::Async]),
        "lift-async-callback" => s.lift(5, 1, [O::Async, O::Callback(3)]),
        "lower-plain" => s.lower(0, [mem, realloc]),
        "lower-opts" => s.lower(0, [mem, realloc, O::UTF16]),
        "lower-async" => s.lower(0, [mem, realloc, O::Async]),
        "resource.new" => s.resource_new(0),
        "resource.drop" => s.resource_drop(0),
        "resource.drop-async" => s.resource_drop_async(0),
        "resource.rep" => s.resource_rep(0),
        "backpressure.set" => s.backpressure_set(),
        "task.return-none" => s.task_return(None, []),
        "task.return" => s.task_return(Some(ComponentValType::Primitive(PrimitiveValType::U32)), []),
        "task.return-opts" => s.task_return(Some(ComponentValType::Primitive(PrimitiveValType::String)), [mem, O::UTF8]),
        "task.cancel" => s.task_cancel(),
        "context.get" => s.context_get(0),
        "context.set" => s.context_set(0),
        "yield" => s.yield_(false),
        "yield-async" => s.yield_(true),
        "subtask.drop" => s.subtask_drop(),
        "subtask.cancel" => s.subtask_cancel(false),
        "subtask.cancel-async" => s.subtask_cancel(true),
        "stream.new" => s.stream_new(st),
        "stream.read" => s.stream_read(st, [mem]),
        "stream.read-async" => s.stream_read(st, [mem, O::Async]),
        "stream.write" => s.stream_write(st, [mem]),
        "stream.cancel-read" => s.stream_cancel_read(st, false),
        "stream.cancel-read-async" => s.stream_cancel_read(st, true),
        "stream.cancel-write" => s.stream_cancel_write(st, false),
        "stream.cancel-write-async" => s.stream_cancel_write(st, true),
        "stream.drop-readable" => s.stream_drop_readable(st),
        "stream.drop-writable" => s.stream_drop_writable(st),
        "future.new" => s.future_new(ft),
        "future.read" => s.future_read(ft, [mem]),
        "future.read-async" => s.future_read(ft, [mem, O::Async]),
        "future.write" => s.future_write(ft, [mem]),
        "future.cancel-read" => s.future_cancel_read(ft, false),
        "future.cancel-read-async" => s.future_cancel_read(ft, true),
        "future.cancel-write" => s.future_cancel_write(ft, false),
        "future.cancel-write-async" => s.future_cancel_write(ft, true),
        "future.drop-readable" => s.future_drop_readable(ft),
        "future.drop-writable" => s.future_drop_writable(ft),
        "error-context.new" => s.error_context_new([mem, O::UTF8]),
        "error-context.debug-message" => s.error_context_debug_message([mem, realloc, O::UTF8]),
        "error-context.drop" => s.error_context_drop(),
        "waitable-set.new" => s.waitable_set_new(),
        "waitable-set.wait" => s.waitable_set_wait(false, 0),
        "waitable-set.wait-async" => s.waitable_set_wait(true, 0),
        "waitable-set.poll" => s.waitable_set_poll(false, 0),
        "waitable-set.poll-async" => s.waitable_set_poll(true, 0),
        "waitable-set.drop" => s.waitable_set_drop(),
        "waitable.join" => s.waitable_join(),
        "thread.spawn_ref" => s.thread_spawn_ref(0),
        "thread.spawn_indirect" => s.thread_spawn_indirect(0, 0),
        "thread.available_parallelism" => s.thread_available_parallelism(),
        _ => return Err("unknown canon form".into()),
    };
    let prelude = if needs_stream_types {
        format!("(component {} (type (stream u8)) (type (future u8)))", CANON_PRELUDE)
    } else {
        format!("(component {})", CANON_PRELUDE)
    };
    let mut bytes = wat::parse_str(&prelude).map_err(|e| format!("wat: {}", e))?;
    bytes.push(8);
    s.encode(&mut bytes);
    Ok(bytes)
}

// ---------------------------------------------------------------------------------------------
// byte-level re-framing (wasmparser item offsets; no wirm)
// ---------------------------------------------------------------------------------------------
fn push_section(out: &mut Vec<u8>, id: u8, payload: &[u8]) {
    out.push(id);
    wasmutil::leb_u32(out, payload.len() as u32);
    out.extend_from_slice(payload);
}

/// Re-frame a component: `split` puts every item of a vector section into a section of its own,
/// `name_front` moves the component-name custom section in front of all other sections; applied at
/// every nesting level.
fn reframe(bytes: &[u8], split: bool, name_front: bool) -> Result<Vec<u8>, String> {
    fn offs<'a, T: wasmparser::FromReader<'a>>(r: wasmparser::SectionLimited<'a, T>) -> Result<(Vec<usize>, usize), String> {
        let end = r.range().end;
        let mut v = vec![];
        for x in r.into_iter_with_offsets() {
            v.push(x.map_err(|e| e.to_string())?.0);
        }
        Ok((v, end))
    }
    let mut out: Vec<u8> = bytes[..8].to_vec();
    let mut front: Vec<u8> = vec![];
    let mut body: Vec<u8> = vec![];
    let mut depth = 0usize;
    for p in Parser::new(0).parse_all(bytes) {
        let p = p.map_err(|e| e.to_string())?;
        match &p {
            Payload::Version { .. } => {
                depth += 1;
                continue;
            }
            Payload::End(_) => {
                depth -= 1;
                continue;
            }
            _ => {}
        }
        if depth != 1 {
            continue;
        }
        let vec_items: Option<(Vec<usize>, usize)> = match &p {
            Payload::ComponentTypeSection(r) => Some(offs(r.clone())?),
            Payload::CoreTypeSection(r) => Some(offs(r.clone())?),
            Payload::ComponentImportSection(r) => Some(offs(r.clone())?),
            Payload::ComponentExportSection(r) => Some(offs(r.clone())?),
            Payload::InstanceSection(r) => Some(offs(r.clone())?),
            Payload::ComponentInstanceSection(r) => Some(offs(r.clone())?),
            Payload::ComponentAliasSection(r) => Some(offs(r.clone())?),
            Payload::ComponentCanonicalSection(r) => Some(offs(r.clone())?),
            _ => None,
        };
        let (id, range) = match p.as_section() {
            Some(x) => x,
            None => continue,
        };
        match (&p, vec_items) {
            (_, Some((starts, end))) if split && starts.len() > 1 => {
                for (i, s) in starts.iter().enumerate() {
                    let e = if i + 1 < starts.len() { starts[i + 1] } else { end };
                    let mut payload = vec![1u8];
                    payload.extend_from_slice(&bytes[*s..e]);
                    push_section(&mut body, id, &payload);
                }
            }
            (Payload::ComponentSection { unchecked_range, .. }, _) => {
                let inner = reframe(&bytes[unchecked_range.clone()], split, name_front)?;
                push_section(&mut body, id, &inner);
            }
            (Payload::CustomSection(c), _) if name_front && c.name() == "component-name" => {
                push_section(&mut front, id, &bytes[range]);
            }
            _ => push_section(&mut body, id, &bytes[range]),
        }
    }
    out.extend_from_slice(&front);
    out.extend_from_slice(&body);
    Ok(out)
}

// ---------------------------------------------------------------------------------------------
// corpus (thorough tier): components of the repository
// ---------------------------------------------------------------------------------------------
fn is_component(bytes: &[u8]) -> bool {
    bytes.len() >= 8 && &bytes[0..4] == b"\0asm" && bytes[4..8] == [0x0d, 0x00, 0x01, 0x00]
}

fn wast_components(path: &str) -> Vec<Option<Vec<u8>>> {
    let text = match std::fs::read_to_string(path) {
        Ok(t) => t,
        Err(_) => return vec![],
    };
    let r = catch(|| {
        let mut v = vec![];
        let buf = match wast::parser::ParseBuffer::new(&text) {
            Ok(b) => b,
            Err(_) => return v,
        };
        let w = match wast::parser::parse::<wast::Wast>(&buf) {
            Ok(w) => w,
            Err(_) => return v,
        };
        for d in w.directives {
            let q = match d {
                wast::WastDirective::Module(q) | wast::WastDirective::ModuleDefinition(q) => Some(q),
                _ => None,
            };
            if let Some(mut q) = q {
                match catch(|| q.encode()) {
                    Ok(Ok(b)) if is_component(&b) => v.push(Some(b)),
                    Ok(Ok(_)) => {}
                    _ => v.push(None),
                }
            }
        }
        v
    });
    r.unwrap_or_default()
}

fn corpus_files() -> Vec<String> {
    fn walk(dir: &std::path::Path, out: &mut Vec<String>) {
        if let Ok(rd) = std::fs::read_dir(dir) {
            let mut es: Vec<_> = rd.filter_map(|e| e.ok()).map(|e| e.path()).collect();
            es.sort();
            for p in es {
                if p.is_dir() {
                    walk(&p, out);
                } else if let Some(s) = p.to_str() {
                    let in_components = p.parent().and_then(|d| d.file_name()).map(|n| n == "components").unwrap_or(false);
                    if s.ends_with(".wast") || (s.ends_with(".wat") && in_components) {
                        out.push(s.to_string());
                    }
                }
            }
        }
    }
    let mut out = vec![];
    walk(std::path::Path::new("/repo/tests/wasm-tools"), &mut out);
    walk(std::path::Path::new("/repo/tests/test_inputs"), &mut out);
    out
}

fn corpus_bytes(spec: &str) -> Result<Vec<u8>, String> {
    let (path, idx) = spec.rsplit_once('#').ok_or("bad corpus spec")?;
    let idx: usize = idx.parse().map_err(|_| "bad index")?;
    if path.ends_with(".wat") {
        let b = wat::parse_file(path).map_err(|e| e.to_string())?;
        if !is_component(&b) {
            return Err("not a component".into());
        }
        return Ok(b);
    }
    match wast_components(path).into_iter().nth(idx) {
        Some(Some(b)) => Ok(b),
        Some(None) => Err("directive does not encode".into()),
        None => Err("no such directive".into()),
    }
}

// ---------------------------------------------------------------------------------------------
// independent survey of a component binary (recursive, wasmparser only)
// ---------------------------------------------------------------------------------------------
#[derive(Default, Debug, Clone, PartialEq)]
struct Survey {
    /// per component path: run-length merged section kinds
    skeleton: BTreeMap<String, Vec<String>>,
    /// (path, name, data) of non-name custom sections in order of appearance
    customs: Vec<(String, String, Vec<u8>)>,
    /// (path, kind, index, name); component name = kind "component", index 0
    names: Vec<(String, String, u32, String)>,
    /// some non-root component has a component child that itself has nested children
    deep: bool,
    max_depth: usize,
    modules: usize,
    components: usize,
}

fn survey(bytes: &[u8]) -> Result<Survey, String> {
    struct Frame {
        path: String,
        module: bool,
        children: u32,
        kinds: Vec<String>,
        child_component_with_children: bool,
    }
    let mut s = Survey::default();
    let mut stack: Vec<Frame> = vec![];
    for p in Parser::new(0).parse_all(bytes) {
        let p = p.map_err(|e| e.to_string())?;
        match p {
            Payload::Version { encoding, .. } => {
                let path = match stack.last_mut() {
                    Some(parent) => {
                        let c = parent.children;
                        parent.children += 1;
                        format!("{}/{}", parent.path, c)
                    }
                    None => "".to_string(),
                };
                let module = encoding == wasmparser::Encoding::Module;
                if module {
                    s.modules += 1;
                } else {
                    s.components += 1;
                }
                stack.push(Frame { path, module, children: 0, kinds: vec![], child_component_with_children: false });
                s.max_depth = s.max_depth.max(stack.len());
            }
            Payload::End(_) => {
                let f = stack.pop().ok_or("unbalanced end")?;
                if !f.module {
                    if f.child_component_with_children && !stack.is_empty() {
                        s.deep = true;
                    }
                    if let Some(parent) = stack.last_mut() {
                        if f.children > 0 {
                            parent.child_component_with_children = true;
                        }
                    }
                    let mut rl: Vec<String> = vec![];
                    for k in f.kinds {
                        if rl.last() != Some(&k) {
                            rl.push(k);
                        }
                    }
                    s.skeleton.insert(f.path, rl);
                }
            }
            other => {
                let f = stack.last_mut().ok_or("payload outside")?;
                if f.module {
                    if let Payload::CustomSection(c) = &other {
                        if c.name() != "name" {
                            s.customs.push((f.path.clone(), c.name().to_string(), c.data().to_vec()));
                        }
                    }
                    continue;
                }
                let kind = match &other {
                    Payload::ModuleSection { .. } => "module",
                    Payload::ComponentSection { .. } => "component",
                    Payload::CoreTypeSection(_) => "core-type",
                    Payload::ComponentTypeSection(_) => "type",
                    Payload::ComponentImportSection(_) => "import",
                    Payload::ComponentExportSection(_) => "export",
                    Payload::InstanceSection(_) => "core-instance",
                    Payload::ComponentInstanceSection(_) => "instance",
                    Payload::ComponentAliasSection(_) => "alias",
                    Payload::ComponentCanonicalSection(_) => "canon",
                    Payload::ComponentStartSection { .. } => "start",
                    Payload::CustomSection(c) => {
                        if c.name() == "component-name" {
                            if let wasmparser::KnownCustom::ComponentName(r) = c.as_known() {
                                read_component_names(r, &f.path, &mut s.names)?;
                            }
                            ""
                        } else {
                            s.customs.push((f.path.clone(), c.name().to_string(), c.data().to_vec()));
                            "custom"
                        }
                    }
                    _ => "",
                };
                if !kind.is_empty() {
                    f.kinds.push(kind.to_string());
                }
            }
        }
    }
    s.names.sort();
    Ok(s)
}

fn read_component_names(
    r: wasmparser::ComponentNameSectionReader,
    path: &str,
    out: &mut Vec<(String, String, u32, String)>,
) -> Result<(), String> {
    use wasmparser::ComponentName as N;
    for sub in r {
        let (kind, map) = match sub.map_err(|e| e.to_string())? {
            N::Component { name, .. } => {
                out.push((path.to_string(), "component".into(), 0, name.to_string()));
                continue;
            }
            N::CoreFuncs(m) => ("core-func", m),
            N::CoreGlobals(m) => ("core-global", m),
            N::CoreMemories(m) => ("core-memory", m),
            N::CoreTables(m) => ("core-table", m),
            N::CoreTags(m) => ("core-tag", m),
            N::CoreModules(m) => ("core-module", m),
            N::CoreInstances(m) => ("core-instance", m),
            N::CoreTypes(m) => ("core-type", m),
            N::Types(m) => ("type", m),
            N::Instances(m) => ("instance", m),
            N::Components(m) => ("component-idx", m),
            N::Funcs(m) => ("func", m),
            N::Values(m) => ("value", m),
            N::Unknown { .. } => continue,
        };
        for n in map {
            let n = n.map_err(|e| e.to_string())?;
            out.push((path.to_string(), kind.to_string(), n.index, n.name.to_string()));
        }
    }
    Ok(())
}

// ---------------------------------------------------------------------------------------------
// text handling
// ---------------------------------------------------------------------------------------------
/// remove `(@...)` annotation forms (custom sections, producers, dylink, ...), which may span lines
fn strip_annotations(text: &str) -> Vec<String> {
    let mut out = vec![];
    let mut skipping = 0i32;
    for line in text.lines() {
        let t = line.trim_start();
        if skipping == 0 && !t.starts_with("(@") {
            out.push(line.to_string());
            continue;
        }
        // count parens outside strings
        let mut in_str = false;
        let mut esc = false;
        for ch in line.chars() {
            if in_str {
                if esc {
                    esc = false;
                } else if ch == '\\' {
                    esc = true;
                } else if ch == '"' {
                    in_str = false;
                }
            } else if ch == '"' {
                in_str = true;
            } else if ch == '(' {
                skipping += 1;
            } else if ch == ')' {
                skipping -= 1;
            }
        }
        if skipping < 0 {
            // the annotation was the last item of its parent: keep the closing parens
            let closes = (-skipping) as usize;
            if let Some(last) = out.last_mut() {
                last.push_str(&")".repeat(closes));
            }
            skipping = 0;
        }
    }
    out
}

fn tok_class(t: &str) -> String {
    let t = t.trim_matches(|c| c == '(' || c == ')');
    if t.is_empty() {
        "paren".into()
    } else if t.starts_with('$') {
        "$name".into()
    } else if t.starts_with('"') {
        "string".into()
    } else if t.starts_with(";") || t.ends_with(";") {
        "index-comment".into()
    } else if t.chars().all(|c| c.is_ascii_digit() || c == '-' || c == 'x' || c.is_ascii_hexdigit()) && t.chars().next().map(|c| c.is_ascii_digit() || c == '-').unwrap_or(false) {
        "number".into()
    } else {
        t.to_string()
    }
}

fn line_keyword(l: &str) -> String {
    let t = l.trim_start();
    let mut it = t.split_whitespace();
    let a = it.next().unwrap_or("");
    let a = a.trim_matches(|c| c == '(' || c == ')');
    if a == "core" {
        format!("core {}", it.next().unwrap_or("").trim_matches(|c| c == '(' || c == ')'))
    } else {
        a.to_string()
    }
}

fn indent(l: &str) -> usize {
    l.len() - l.trim_start().len()
}

/// class of the first textual difference: enclosing item keyword + differing token classes
fn text_diff_class(a: &[String], b: &[String]) -> Option<(String, String)> {
    let n = a.len().min(b.len());
    let mut i = 0;
    while i < n && a[i] == b[i] {
        i += 1;
    }
    if i == a.len() && i == b.len() {
        return None;
    }
    // enclosing forms of line i of the input (or of its last line)
    let anchor = if i < a.len() { i } else { a.len().saturating_sub(1) };
    let mut in_module = false;
    {
        let mut ind = a.get(anchor).map(|l| indent(l)).unwrap_or(0);
        let mut j = anchor;
        while j > 0 {
            j -= 1;
            if indent(&a[j]) < ind {
                ind = indent(&a[j]);
                if line_keyword(&a[j]) == "core module" {
                    in_module = true;
                }
            }
        }
    }
    let ctx = if in_module { " in-core-module" } else { "" };
    let detail = format!(
        "first difference at text line {}:\n  input : {}\n  output: {}",
        i + 1,
        a.get(i).map(|s| s.as_str()).unwrap_or("<end of text>"),
        b.get(i).map(|s| s.as_str()).unwrap_or("<end of text>")
    );
    let sig = match (a.get(i), b.get(i)) {
        (Some(x), Some(y)) => {
            let kx = line_keyword(x);
            let ky = line_keyword(y);
            if kx != ky || indent(x) != indent(y) {
                format!("text-differs{} item {}->{}", ctx, kx, ky)
            } else {
                let tx: Vec<&str> = x.split_whitespace().collect();
                let ty: Vec<&str> = y.split_whitespace().collect();
                let mut k = 0;
                while k < tx.len().min(ty.len()) && tx[k] == ty[k] {
                    k += 1;
                }
                format!(
                    "text-differs{} in {} {}->{}",
                    ctx,
                    kx,
                    tx.get(k).map(|t| tok_class(t)).unwrap_or("nothing".into()),
                    ty.get(k).map(|t| tok_class(t)).unwrap_or("nothing".into())
                )
            }
        }
        (Some(x), None) => format!("text-differs{} missing {}", ctx, line_keyword(x)),
        (None, Some(y)) => format!("text-differs{} extra {}", ctx, line_keyword(y)),
        (None, None) => unreachable!(),
    };
    Some((sig, detail))
}

// ---------------------------------------------------------------------------------------------
// case evaluation
// ---------------------------------------------------------------------------------------------
fn build(c: &Case) -> Result<Vec<u8>, String> {
    let bytes = match c.kind.as_str() {
        "corpus" => corpus_bytes(&c.spec)?,
        "canon" => canon_bytes(&c.spec)?,
        "types" if c.spec.starts_with("enc-rec") => {
            let (form, posn) = c.spec.split_once('@').ok_or("bad types spec")?;
            rec_in_type_bytes(posn, if form == "enc-rec2" { 2 } else { 1 })?
        }
        k => {
            let wat_text = match k {
                "tree" => tree_wat(&c.spec, c.marker, c.named, c.anon)?,
                "atoms" | "split" => atoms_wat(&c.spec, c.named)?,
                "types" => types_wat(&c.spec)?,
                _ => return Err(format!("unknown case kind {}", k)),
            };
            wat::parse_str(&wat_text).map_err(|e| format!("wat: {}", e.to_string().lines().next().unwrap_or("")))?
        }
    };
    if c.split || c.name_front {
        reframe(&bytes, c.split, c.name_front)
    } else {
        Ok(bytes)
    }
}

fn err_class(e: &str) -> String {
    // validator message without offsets / indices
    let head = e.split(" (at offset").next().unwrap_or(e);
    head.chars().map(|c| if c.is_ascii_digit() { '#' } else { c }).take(60).collect()
}

fn run_case(c: &Case) -> Outcome {
    let bytes = match build(c) {
        Ok(b) => b,
        Err(e) => {
            if std::env::var("C27_SHOW_SKIPS").is_ok() {
                out(&format!("SKIP {} {} : {}", c.kind, c.spec, e));
            }
            return Outcome::skip(format!("generator: {}", err_class(&e)));
        }
    };
    let o = evaluate(c, &bytes);
    if std::env::var("C27_SHOW_SKIPS").is_ok() {
        if let Some(r) = &o.skipped {
            out(&format!("SKIP {} {} split={} : {}", c.kind, c.spec, c.split, r));
        }
    }
    o
}

fn evaluate(c: &Case, bytes: &[u8]) -> Outcome {
    let (features, ext) = match wasmutil::validate(bytes, wasmutil::features_component()) {
        Ok(()) => (wasmutil::features_component(), false),
        Err(e1) => match wasmutil::validate(bytes, features_ext()) {
            Ok(()) => (features_ext(), true),
            Err(e2) => {
                let _ = e1;
                return Outcome::skip(format!("input invalid: {}", err_class(&e2)));
            }
        },
    };
    let sin = match survey(bytes) {
        Ok(s) => s,
        Err(e) => return Outcome::skip(format!("input not decodable: {}", err_class(&e))),
    };
    let class = match c.kind.as_str() {
        "tree" => format!("tree depth{} m{} c{} marker{}{}", sin.max_depth, sin.modules.min(3), sin.components.min(4), c.marker, if c.named { " named" } else { "" }),
        "atoms" | "split" => {
            // the set of section kinds in order (run-length merged) is the feature
            let mut ks: Vec<&str> = vec![];
            for a in c.spec.split(',') {
                let k = atom_section(a).0;
                if ks.last() != Some(&k) {
                    ks.push(k);
                }
            }
            format!("{} {}{}{}{}", c.kind, ks.join(">"), if c.split { " split" } else { "" }, if c.named { " named" } else { "" }, if c.name_front { " name-front" } else { "" })
        }
        "corpus" => format!("corpus depth{} {}", sin.max_depth, sin.skeleton.get("").map(|v| v.join(">")).unwrap_or_default()),
        _ => format!("{} {}", c.kind, c.spec),
    };
    let mut o = Outcome::ok(format!("{}{}", class, if ext { " ext" } else { "" }));
    if ext {
        o.count("validated_with_extension_features", 1);
    }
    if sin.deep {
        o.count("inputs_with_nesting_depth_ge_3", 1);
    }
    let deep_tag = if sin.deep { " nested-depth>=3" } else { "" };

    // --- the subject
    let parsed = catch(|| Component::parse(bytes, false));
    let mut comp = match parsed {
        Ok(Ok(c)) => c,
        Ok(Err(e)) => {
            o.fail(format!("parse-error{}", deep_tag), format!("Component::parse returned Err({:?}) on a valid component", e));
            return o;
        }
        Err(p) => {
            o.fail(format!("panic parse {}{}", p.site(), deep_tag), format!("{} at {}:{}", p.msg, p.file, p.line));
            return o;
        }
    };
    let out = match catch(|| comp.encode()) {
        Ok(b) => b,
        Err(p) => {
            o.fail(format!("panic encode {}{}", p.site(), deep_tag), format!("{} at {}:{}", p.msg, p.file, p.line));
            return o;
        }
    };
    o.observed = hash_of(&out);

    // --- independent survey of the output
    let sout = match survey(&out) {
        Ok(s) => s,
        Err(e) => {
            o.fail(format!("output-undecodable{}", deep_tag), e);
            return o;
        }
    };
    // every difference found, in the order skeleton, custom sections, names, text
    let mut diffs: Vec<(String, String)> = vec![];
    let mut skeleton_differs = false;
    if sout.skeleton != sin.skeleton {
        skeleton_differs = true;
        let mut what = String::new();
        let mut cls = String::new();
        for (path, kin) in sin.skeleton.iter() {
            match sout.skeleton.get(path) {
                None => {
                    what = format!("level '{}' is missing in the output", path);
                    cls = "level-missing".into();
                    break;
                }
                Some(kout) if kout != kin => {
                    let mut i = 0;
                    while i < kin.len().min(kout.len()) && kin[i] == kout[i] {
                        i += 1;
                    }
                    what = format!("level '{}': input sections {:?}, output sections {:?}", path, kin, kout);
                    cls = format!(
                        "{}->{}",
                        kin.get(i).map(|s| s.as_str()).unwrap_or("end"),
                        kout.get(i).map(|s| s.as_str()).unwrap_or("end")
                    );
                    break;
                }
                _ => {}
            }
        }
        if what.is_empty() {
            what = "the output has nesting levels the input does not have".into();
            cls = "level-extra".into();
        }
        diffs.push((format!("structure section-sequence {}", cls), what));
    }
    if sout.customs != sin.customs {
        let a: Vec<_> = sin.customs.iter().map(|c| (&c.0, &c.1, c.2.len())).collect();
        let b: Vec<_> = sout.customs.iter().map(|c| (&c.0, &c.1, c.2.len())).collect();
        let cls = if sout.customs.len() < sin.customs.len() {
            "missing"
        } else if sout.customs.len() > sin.customs.len() {
            "extra"
        } else if a == b {
            "payload"
        } else {
            "order-or-level"
        };
        diffs.push((
            format!("custom-sections {}", cls),
            format!("non-name custom sections (level, name, len): input {:?}, output {:?}", a, b),
        ));
    }
    if sout.names != sin.names {
        let missing: Vec<_> = sin.names.iter().filter(|n| !sout.names.contains(n)).collect();
        let extra: Vec<_> = sout.names.iter().filter(|n| !sin.names.contains(n)).collect();
        let kind = missing.first().or(extra.first()).map(|n| n.1.clone()).unwrap_or_default();
        diffs.push((
            format!("names {} {}", if missing.is_empty() { "extra" } else if extra.is_empty() { "missing" } else { "changed" }, kind),
            format!("component-name entries (level, kind, index, name): missing {:?}, extra {:?}", missing, extra),
        ));
    }
    let valid = wasmutil::validate(&out, features);
    match (wasmutil::print_text(bytes), wasmutil::print_text(&out)) {
        (Ok(tin), Ok(tout)) => {
            let a = strip_annotations(&tin);
            let b = strip_annotations(&tout);
            if let Some((sig, detail)) = text_diff_class(&a, &b) {
                if skeleton_differs {
                    // the section-sequence mismatch already names the cause
                    o.count("text_differs_with_structural_mismatch", 1);
                    if let Some(d) = diffs.first_mut() {
                        d.1.push_str("\n");
                        d.1.push_str(&detail);
                    }
                } else {
                    diffs.push((sig, detail));
                }
            }
        }
        (Err(_), _) => o.count("input_unprintable", 1),
        (Ok(_), Err(e)) => {
            if valid.is_ok() {
                diffs.push(("output-unprintable".into(), e));
            }
        }
    }
    // --- verdicts. Inputs with nesting depth >= 3 hit one root cause (the skip stack shared between
    // parent and child parser): everything that differs there is attributed to it.
    if sin.deep {
        if let Err(e) = &valid {
            o.fail("output-invalid nested-depth>=3", e.clone());
        }
        if let Some((first_sig, first_detail)) = diffs.first() {
            let all: Vec<&str> = diffs.iter().map(|d| d.0.as_str()).collect();
            o.fail("structure nested-depth>=3", format!("{} [{}] (all differences: {:?})", first_detail, first_sig, all));
        }
        return o;
    }
    if let Err(e) = &valid {
        o.fail(format!("output-invalid {}", err_class(e)), e.clone());
    }
    for (sig, detail) in diffs {
        o.fail(sig, detail);
    }
    o
}

// ---------------------------------------------------------------------------------------------
// enumeration
// ---------------------------------------------------------------------------------------------
fn spec_of(seq: &[&str]) -> String {
    seq.join(",")
}

pub fn check(tier: Tier) -> i32 {
    let mut run = Run::new("C27", tier, "exploration");
    let tree_nodes = tier.pick(6usize, 9usize);
    let max_depth = 4usize;
    let seq_len = tier.pick(4usize, 5usize);
    let named_len = tier.pick(3usize, 4usize);
    run.rule = format!(
        "trees: ALL ordered nesting trees with <= {} nodes and depth <= {} (nodes = components, leaves also core modules with an identity constant) x marker type {{none, before, after, both}} x {{unnamed, named, named+name-section-first, and named with every proper non-empty subset of {{root component, core modules, nested components}} left anonymous}}; atoms: ALL enabled sequences of length <= {} over {} section atoms ({}) with indices from an index-space model (thorough: two steps longer over a 12-atom alphabet with one atom per section kind), every sequence with adjacent same-kind items also with one section per item, sequences of length <= {} also with $names (name section last / first); split: for every ordered pair of atoms K,S the interleavings K^a S K^b [S K^c] (a,b in 1..2, c in 0..2) after a minimal setup, merged and one-section-per-item; types: {} component type forms + {} core type forms x {} positions; canon: {} canonical function forms; {}; oracle = wasmparser validator + wasmprinter text (annotations removed) + per-level custom-section list + component names + per-level run-length section skeleton, all decoded without wirm; non-trivial class = tree (depth, #modules, #components, marker) / run-length section-kind sequence and framing / form@position",
        tree_nodes,
        max_depth,
        seq_len,
        ATOMS.len(),
        ATOMS.join(" "),
        named_len,
        TYPE_FORMS.len(),
        CORE_TYPE_FORMS.len(),
        TYPE_POSITIONS.len(),
        CANON_FORMS.len(),
        tier.pick("corpus not included in the quick tier", "corpus: every component of /repo/tests/wasm-tools/**/*.wast (wast crate) and /repo/tests/test_inputs/**/components/*.wat")
    );
    run.extra.insert("tree_max_nodes".into(), serde_json::json!(tree_nodes));
    run.extra.insert("tree_max_depth".into(), serde_json::json!(max_depth));
    run.extra.insert("atom_sequence_max_len".into(), serde_json::json!(seq_len));
    run.extra.insert("atoms".into(), serde_json::json!(ATOMS));

    // ---- trees, smallest first
    let mut cases = vec![];
    for n in 1..=tree_nodes {
        for shape in trees(n, max_depth) {
            for marker in 0..4u8 {
                for (named, name_front) in [(false, false), (true, false), (true, true)] {
                    cases.push(Case { kind: "tree".into(), spec: shape.clone(), marker, named, name_front, split: false, anon: 0 });
                }
                // partly named: every proper subset of {root, core modules, nested components} anonymous
                for anon in 1..7u8 {
                    cases.push(Case { kind: "tree".into(), spec: shape.clone(), marker, named: true, name_front: anon % 2 == 0, split: false, anon });
                }
            }
        }
    }
    run.extra.insert("tree_cases".into(), serde_json::json!(cases.len()));
    run.run_cases("tree", &cases, run_case);

    // ---- atom sequences
    let mut cases = vec![Case { kind: "atoms".into(), spec: String::new(), marker: 0, named: false, name_front: false, split: false, anon: 0 }];
    let mut n_seq = 0usize;
    for len in 1..=seq_len {
        for seq in atom_sequences(len, ATOMS) {
            n_seq += 1;
            let spec = spec_of(&seq);
            cases.push(Case { kind: "atoms".into(), spec: spec.clone(), marker: 0, named: false, name_front: false, split: false, anon: 0 });
            if has_adjacent_mergeable(&seq) {
                cases.push(Case { kind: "atoms".into(), spec: spec.clone(), marker: 0, named: false, name_front: false, split: true, anon: 0 });
            }
            if len <= named_len {
                cases.push(Case { kind: "atoms".into(), spec: spec.clone(), marker: 0, named: true, name_front: false, split: false, anon: 0 });
                cases.push(Case { kind: "atoms".into(), spec: spec.clone(), marker: 0, named: true, name_front: true, split: true, anon: 0 });
            }
        }
        if cases.len() > 300_000 {
            run.run_cases("atoms", &cases, run_case);
            cases.clear();
        }
    }
    run.extra.insert("atom_sequences".into(), serde_json::json!(n_seq));
    run.run_cases("atoms", &cases, run_case);
    // one step deeper over a reduced alphabet (one atom per section kind), thorough tier only
    if tier == Tier::Thorough {
        let mut cases = vec![];
        let mut n = 0usize;
        for seq in atom_sequences(seq_len + 1, REDUCED_ATOMS).into_iter().chain(atom_sequences(seq_len + 2, REDUCED_ATOMS)) {
            n += 1;
            let spec = spec_of(&seq);
            cases.push(Case { kind: "atoms".into(), spec: spec.clone(), marker: 0, named: false, name_front: false, split: false, anon: 0 });
            if has_adjacent_mergeable(&seq) {
                cases.push(Case { kind: "atoms".into(), spec, marker: 0, named: false, name_front: false, split: true, anon: 0 });
            }
            if cases.len() > 300_000 {
                run.run_cases("atoms-reduced-alphabet", &cases, run_case);
                cases.clear();
            }
        }
        run.run_cases("atoms-reduced-alphabet", &cases, run_case);
        run.extra.insert("atom_sequences_reduced_alphabet_len".into(), serde_json::json!(seq_len + 2));
        run.extra.insert("atom_sequences_reduced_alphabet".into(), serde_json::json!(n));
    }

    // ---- split interleavings
    let mut cases = vec![];
    for k in ATOMS {
        for s in ATOMS {
            if k == s || *k == "start" {
                continue;
            }
            let setup = match setup_for(k, s) {
                Some(x) => x,
                None => continue,
            };
            for a in 1..=2usize {
                for b in 1..=2usize {
                    for c in 0..=2usize {
                        let mut seq: Vec<&str> = setup.clone();
                        seq.extend(std::iter::repeat(*k).take(a));
                        seq.push(s);
                        seq.extend(std::iter::repeat(*k).take(b));
                        if c > 0 {
                            if *s == "start" {
                                continue;
                            }
                            seq.push(s);
                            seq.extend(std::iter::repeat(*k).take(c));
                        }
                        // the model must accept the whole sequence
                        let mut st = St::default();
                        if !seq.iter().enumerate().all(|(i, x)| atom(&mut st, x, i, false).is_some()) {
                            continue;
                        }
                        let spec = spec_of(&seq);
                        for split in [false, true] {
                            if split && !has_adjacent_mergeable(&seq) {
                                continue;
                            }
                            cases.push(Case { kind: "split".into(), spec: spec.clone(), marker: 0, named: false, name_front: false, split, anon: 0 });
                        }
                    }
                }
            }
        }
    }
    run.run_cases("split", &cases, run_case);

    // ---- type forms and canonical functions
    let mut cases = vec![];
    for (f, _) in TYPE_FORMS.iter().chain(CORE_TYPE_FORMS.iter()) {
        for p in TYPE_POSITIONS {
            cases.push(Case { kind: "types".into(), spec: format!("{}@{}", f, p), marker: 0, named: false, name_front: false, split: false, anon: 0 });
        }
    }
    // (a one-member explicit rec group is semantically the same type as the bare type; flattening it
    // is not judged, so only two-member groups are generated)
    for f in ["enc-rec2"] {
        for p in ["in-instance-type", "in-component-type", "in-instance-in-component-type", "in-component-in-component-type"] {
            cases.push(Case { kind: "types".into(), spec: format!("{}@{}", f, p), marker: 0, named: false, name_front: false, split: false, anon: 0 });
        }
    }
    run.run_cases("types", &cases, run_case);
    let cases: Vec<Case> = CANON_FORMS
        .iter()
        .map(|f| Case { kind: "canon".into(), spec: f.to_string(), marker: 0, named: false, name_front: false, split: false, anon: 0 })
        .collect();
    run.run_cases("canon", &cases, run_case);

    // ---- corpus (secondary, thorough only)
    if tier == Tier::Thorough {
        let mut cases = vec![];
        let mut files = 0;
        for f in corpus_files() {
            files += 1;
            if f.ends_with(".wat") {
                cases.push(Case { kind: "corpus".into(), spec: format!("{}#0", f), marker: 0, named: false, name_front: false, split: false, anon: 0 });
            } else {
                for (i, b) in wast_components(&f).iter().enumerate() {
                    if b.is_some() {
                        for split in [false, true] {
                            cases.push(Case { kind: "corpus".into(), spec: format!("{}#{}", f, i), marker: 0, named: false, name_front: false, split, anon: 0 });
                        }
                    }
                }
            }
        }
        run.extra.insert("corpus_files".into(), serde_json::json!(files));
        run.extra.insert("corpus_cases".into(), serde_json::json!(cases.len()));
        run.run_cases("corpus", &cases, run_case);
    }
    run.assumptions.push("validity and text are those of wasmparser/wasmprinter 0.235; inputs needing async/values/error-context/fixed-size-list/gc component extensions are validated with those features enabled and classed `ext`; section framing, the position of the component-name section and the (always appended, possibly empty) name sections of wirm's encoders are not compared; for inputs with nesting depth >= 3 whose section skeleton is already wrong, dependent text/custom/name differences are attributed to the structural signature".into());
    run.finish()
}

pub fn replay(family: &str, case: &serde_json::Value) -> Vec<Mismatch> {
    let _ = family;
    match serde_json::from_value::<Case>(case.clone()) {
        Ok(c) => run_case(&c).mismatches,
        Err(e) => vec![Mismatch::new("replay-case-unreadable", e.to_string())],
    }
}

/// debugging aid (not part of the check): print what the oracle sees for one case or WAT file
#[allow(dead_code)]
pub fn scratch(arg: &str) {
    let bytes = if arg.ends_with(".wat") {
        wat::parse_file(arg).expect("wat")
    } else {
        let c: Case = serde_json::from_str(arg).expect("case json");
        build(&c).expect("build")
    };
    out(&format!("valid(base): {:?}", wasmutil::validate(&bytes, wasmutil::features_component())));
    out(&format!("valid(ext): {:?}", wasmutil::validate(&bytes, features_ext())));
    out(&format!("--- input text\n{}", wasmutil::print_text(&bytes).unwrap_or_else(|e| e)));
    out(&format!("--- input survey\n{:?}", survey(&bytes)));
    let r = catch(|| {
        let mut c = Component::parse(&bytes, false).expect("parse");
        c.encode()
    });
    match r {
        Ok(o) => {
            out(&format!("valid out(ext): {:?}", wasmutil::validate(&o, features_ext())));
            out(&format!("--- output text\n{}", wasmutil::print_text(&o).unwrap_or_else(|e| e)));
            out(&format!("--- output survey\n{:?}", survey(&o)));
        }
        Err(p) => out(&format!("panic: {} at {}:{}", p.msg, p.file, p.line)),
    }
    let c = Case { kind: "x".into(), spec: String::new(), marker: 0, named: false, name_front: false, split: false, anon: 0 };
    for m in evaluate(&c, &bytes).mismatches {
        out(&format!("mismatch [{}] {}", m.sig, m.detail));
    }
}
