//! History-exploration properties: C05-C11, C29 (shared bases, alphabets and judges).
use crate::engine::*;
use crate::history::*;
use crate::opgen;
use crate::view::*;
use crate::wasmutil::*;
use crate::world::*;
use serde_json::json;

// ---------------------------------------------------------------------------------------------
// bases. Conventions: every local function starts with its identity marker
// `i32.const 0x5F000000+k; drop`; every reference in code is preceded by a site marker
// `i32.const 0x51000000+id; drop`; every base has one unreferenced import and one unreferenced
// local entity ("spare") so that deletions without dangling references exist.
// ---------------------------------------------------------------------------------------------
const FN_PRELUDE: &str = r#"
  (type $v (func))
  (import "env" "fi0" (func $fi0 (type $v)))
  (import "env" "fi1" (func $fi1 (type $v)))
  (import "env" "fspare" (func $fspare (type $v)))
  (table $t 8 funcref)
"#;
const FN_BODY_MIN: &str = r#"
  (func $l0 (type $v) (i32.const 0x5F000000) drop
     (i32.const 0x51000000) drop (call $fi0)
     (i32.const 0x51000001) drop (call $l1)
     (i32.const 0x51000002) drop (call $fi1))
  (func $l1 (type $v) (i32.const 0x5F000001) drop
     (i32.const 0x51000003) drop (call $l2))
  (func $l2 (type $v) (i32.const 0x5F000002) drop)
  (func $lspare (type $v) (i32.const 0x5F000003) drop)
  (export "e_fi1" (func $fi1)) (export "e_l1" (func $l1))
  (start $l0)
  (elem (i32.const 0) func $fi0 $l2)
  (elem func $l1)
  (elem declare func $fi0 $fi1 $l0 $l1 $l2)
"#;

pub fn fn_bases() -> Vec<Base> {
    let mk = |name: &str, extra: &str| Base::from_wat(name, &format!("(module {} {} {})", FN_PRELUDE, FN_BODY_MIN, extra), false);
    vec![
        mk("fn-min", ""),
        mk(
            "fn+code-refs",
            r#"(func $l3 (type $v) (i32.const 0x5F000004) drop
                 (i32.const 0x51000010) drop (ref.func $l2) drop
                 (i32.const 0x51000011) drop (ref.func $fi1) drop
                 (i32.const 0x51000012) drop (return_call $fi0))
               (func $l4 (type $v) (i32.const 0x5F000005) drop
                 (i32.const 0x51000013) drop (return_call $l2))"#,
        ),
        // type 1 is a structurally identical twin of type 0
        mk("fn+twin-type", r#"(type $v2 (func))"#),
        mk("fn+global-init", r#"(global $gf funcref (ref.func $l1)) (global $gf2 (mut funcref) (ref.func $fi1))"#),
        mk("fn+elem-expr", r#"(elem (i32.const 4) funcref (ref.func $l2) (ref.func $fi1)) (elem funcref (ref.func $l1) (ref.null func))"#),
        mk("fn+table-init", r#"(table $t2 2 funcref (ref.func $l1))"#),
        // expression segments and a table initialiser of a concrete reference type
        mk("fn+elem-typed", r#"(table $t3 4 (ref null $v)) (elem (table $t3) (i32.const 0) (ref null $v) (ref.func $l2) (ref.func $fi1)) (elem (ref null $v) (ref.func $l1) (ref.null $v)) (table $t4 2 (ref null $v) (ref.func $l1))"#),
        Base::from_wat(
            "fn-no-imports",
            r#"(module (type $v (func)) (table 4 funcref)
              (func $l0 (type $v) (i32.const 0x5F000000) drop (i32.const 0x51000000) drop (call $l1))
              (func $l1 (type $v) (i32.const 0x5F000001) drop)
              (func $lspare (type $v) (i32.const 0x5F000002) drop)
              (export "e_l1" (func $l1)) (start $l0) (elem (i32.const 0) func $l1) (elem declare func $l0 $l1))"#,
            false,
        ),
        Base::from_wat(
            "fn-imports-only",
            r#"(module (type $v (func)) (import "env" "fi0" (func $fi0 (type $v))) (import "env" "fi1" (func $fi1 (type $v)))
              (import "env" "fspare" (func $fspare (type $v))) (table 4 funcref)
              (export "e_fi1" (func $fi1)) (start $fi0) (elem (i32.const 0) func $fi0) (elem declare func $fi0 $fi1))"#,
            false,
        ),
        Base::from_wat("fn-empty", "(module)", false),
        // exactly one import and one local function: one deletion empties a counter
        Base::from_wat(
            "fn-one-each",
            r#"(module (type $v (func)) (import "env" "fi0" (func $fi0 (type $v)))
              (func $l0 (type $v) (i32.const 0x5F000000) drop (i32.const 0x51000000) drop (call $fi0))
              (elem declare func $fi0 $l0))"#,
            false,
        ),
        // function imports interleaved with non-function imports (ImportsID != FunctionID)
        Base::from_wat(
            "fn-mixed-imports",
            r#"(module (type $v (func))
              (import "env" "g0" (global $g0 i32))
              (import "env" "fi0" (func $fi0 (type $v)))
              (import "env" "m0" (memory 1))
              (import "env" "fi1" (func $fi1 (type $v)))
              (import "env" "t0" (table $t 8 funcref))
              (import "env" "fspare" (func $fspare (type $v)))
              (func $l0 (type $v) (i32.const 0x5F000000) drop
                 (i32.const 0x51000000) drop (call $fi0)
                 (i32.const 0x51000001) drop (call $l1)
                 (i32.const 0x51000002) drop (call $fi1))
              (func $l1 (type $v) (i32.const 0x5F000001) drop)
              (func $lspare (type $v) (i32.const 0x5F000002) drop)
              (export "e_fi1" (func $fi1)) (export "e_l1" (func $l1)) (start $l0)
              (elem (i32.const 0) func $fi0 $l1) (elem declare func $fi0 $fi1 $l0 $l1))"#,
            false,
        ),
    ]
}

const G_PRELUDE: &str = r#"
  (type $v (func))
  (import "env" "gi0" (global $gi0 i32))
  (import "env" "gi1" (global $gi1 (mut i32)))
  (import "env" "gspare" (global $gspare i32))
  (memory 1) (table $t 8 funcref)
  (global $g0 (mut i32) (i32.const 0x60000000))
  (global $g1 i32 (i32.const 0x60000001))
  (global $gspare2 (mut i32) (i32.const 0x60000002))
"#;
const G_BODY_MIN: &str = r#"
  (func $l0 (type $v) (i32.const 0x5F000000) drop
     (i32.const 0x51000000) drop (global.get $gi0) drop
     (i32.const 0x51000001) drop (global.get $g1) drop
     (i32.const 0) (i32.const 0x51000002) drop (global.set $g0)
     (i32.const 0) (i32.const 0x51000003) drop (global.set $gi1))
  (func $l1 (type $v) (i32.const 0x5F000001) drop)
"#;

pub fn global_bases() -> Vec<Base> {
    let mk2 = |name: &str, pre: &str, extra: &str| Base::from_wat(name, &format!("(module {} {} {} {})", pre, G_PRELUDE, G_BODY_MIN, extra), false);
    let mk = |name: &str, extra: &str| mk2(name, "", extra);
    vec![
        mk("gl-min", ""),
        mk("gl+init-alias", r#"(global $ga i32 (global.get $gspare)) (global $ga2 (mut i32) (global.get $g1))"#),
        mk("gl+data-offset", r#"(data (offset (global.get $gspare)) "ab") (data (offset (global.get $g1)) "cd")"#),
        mk("gl+export", r#"(export "e_g1" (global $g1)) (export "e_gi0" (global $gi0)) (export "e_g0" (global $g0))"#),
        // the referenced globals sit behind other imports / are local, so that edits shift their index
        mk2("gl+elem-offset", r#"(import "env" "gspare3" (global $gspare3 i32))"#, r#"(func $e (type $v) (i32.const 0x5F000002) drop) (elem (offset (global.get $gspare)) func $e) (elem (offset (global.get $g1)) func $e)"#),
        mk2(
            "gl+table-init",
            r#"(import "env" "gspare3" (global $gspare3 i32)) (import "env" "gfr" (global $gfr funcref))"#,
            r#"(table $t2 2 funcref (global.get $gfr))"#,
        ),
        Base::from_wat(
            "gl-no-imports",
            r#"(module (type $v (func)) (global $g0 (mut i32) (i32.const 0x60000000)) (global $g1 i32 (i32.const 0x60000001)) (global $gspare (mut i32) (i32.const 0x60000002))
              (func $l0 (type $v) (i32.const 0x5F000000) drop (i32.const 0x51000000) drop (global.get $g1) drop (i32.const 0) (i32.const 0x51000001) drop (global.set $g0)))"#,
            false,
        ),
        // exactly one imported and one local global: one deletion empties a counter
        Base::from_wat(
            "gl-one-each",
            r#"(module (type $v (func)) (import "env" "gi0" (global $gi0 i32)) (global $g0 (mut i32) (i32.const 0x60000000))
              (func $l0 (type $v) (i32.const 0x5F000000) drop (i32.const 0) (i32.const 0x51000000) drop (global.set $g0))
              (func $l1 (type $v) (i32.const 0x5F000001) drop (i32.const 0x51000001) drop (global.get $gi0) drop))"#,
            false,
        ),
        // globals imported behind imports of other kinds (import position != global index)
        Base::from_wat(
            "gl-mixed-imports",
            r#"(module (type $v (func))
              (import "env" "f0" (func $f0 (type $v)))
              (import "env" "gi0" (global $gi0 i32))
              (import "env" "m0" (memory 1))
              (import "env" "gi1" (global $gi1 (mut i32)))
              (import "env" "t0" (table 2 funcref))
              (import "env" "gspare" (global $gspare i32))
              (global $g0 (mut i32) (i32.const 0x60000000)) (global $g1 i32 (i32.const 0x60000001))
              (func $l0 (type $v) (i32.const 0x5F000000) drop
                 (i32.const 0x51000000) drop (global.get $gi0) drop
                 (i32.const 0x51000001) drop (global.get $g1) drop
                 (i32.const 0) (i32.const 0x51000002) drop (global.set $gi1)
                 (i32.const 0) (i32.const 0x51000003) drop (global.set $g0))
              (export "e_gi1" (global $gi1)) (export "e_g1" (global $g1)))"#,
            false,
        ),
        Base::from_wat(
            "gl-imports-only",
            r#"(module (type $v (func)) (import "env" "gi0" (global $gi0 i32)) (import "env" "gi1" (global $gi1 (mut i32))) (import "env" "gspare" (global $gspare i32))
              (func $l0 (type $v) (i32.const 0x5F000000) drop (i32.const 0x51000000) drop (global.get $gi0) drop (i32.const 0) (i32.const 0x51000001) drop (global.set $gi1)))"#,
            false,
        ),
    ]
}

const M_PRELUDE: &str = r#"
  (type $v (func))
  (import "env" "mi0" (memory $mi0 1))
  (import "env" "mi1" (memory $mi1 1))
  (import "env" "mspare" (memory $mspare 1))
  (memory $m0 16) (memory $m1 17) (memory $mspare2 18)
"#;
const M_BODY_MIN: &str = r#"
  (func $l0 (type $v) (i32.const 0x5F000000) drop
     (i32.const 0) (i32.const 0x51000000) drop (i32.load $mi0) drop
     (i32.const 0) (i32.const 0x51000001) drop (i32.load $m1) drop
     (i32.const 0) (i32.const 0) (i32.const 0x51000002) drop (i32.store $m0)
     (i32.const 0x51000003) drop (memory.size $mi1) drop
     (i32.const 0) (i32.const 0) (i32.const 0) (i32.const 0x51000004) drop (memory.copy $m0 $mi1))
  (func $l1 (type $v) (i32.const 0x5F000001) drop)
  (export "e_m1" (memory $m1)) (export "e_mi0" (memory $mi0))
  (data (memory $m1) (i32.const 0) "m1") (data (memory $mi0) (i32.const 4) "mi0")
"#;

/// function body that uses every operator of the alphabet that carries a memory index, once per
/// target memory in `mems`, each behind a site marker (dead code after `unreachable`).
fn all_memory_ops_module() -> Vec<u8> {
    use wasm_encoder as we;
    use wasm_encoder::reencode::{Reencode, RoundtripReencoder};
    let mut f = we::Function::new_with_locals_types(opgen::LOCALS.iter().copied());
    f.instruction(&we::Instruction::I32Const(FN_MARK + 0x40));
    f.instruction(&we::Instruction::Drop);
    f.instruction(&we::Instruction::Nop);
    f.instruction(&we::Instruction::Unreachable);
    let mut site = 0x100;
    let mut seen = std::collections::BTreeSet::new();
    for inst in opgen::all_instances(64) {
        if !opgen::in_scope(inst.proposal) {
            continue;
        }
        let (name, refs) = op_refs(&inst.op);
        if !refs.iter().any(|(k, _)| *k == Kind::Mem) {
            continue;
        }
        // one instance per (operator, memory tuple)
        let key = (name.clone(), refs.clone());
        if !seen.insert(key) {
            continue;
        }
        // a fresh `unreachable` before every site keeps the operand stack polymorphic
        f.instruction(&we::Instruction::Unreachable);
        f.instruction(&we::Instruction::I32Const(SITE_MARK + site));
        f.instruction(&we::Instruction::Drop);
        site += 1;
        f.instruction(&RoundtripReencoder.instruction(inst.op.clone()).expect("reencode"));
    }
    f.instruction(&we::Instruction::Unreachable);
    f.instruction(&we::Instruction::End);
    opgen::scaffold_module(vec![f], opgen::ScaffoldCfg::default())
}

pub fn mem_bases() -> Vec<Base> {
    let mk = |name: &str, extra: &str| Base::from_wat(name, &format!("(module {} {} {})", M_PRELUDE, M_BODY_MIN, extra), true);
    let all = all_memory_ops_module();
    if let Err(e) = validate(&all, features_core()) {
        panic!("all-memory-ops base invalid: {}", e);
    }
    vec![
        mk("mem-min", ""),
        Base { name: "mem-all-operators".into(), bytes: all, multi_memory: true, features: features_core() },
        Base::from_wat(
            "mem-no-imports",
            r#"(module (type $v (func)) (memory $m0 16) (memory $m1 17) (memory $mspare 18)
              (func $l0 (type $v) (i32.const 0x5F000000) drop (i32.const 0) (i32.const 0x51000000) drop (i32.load $m1) drop (i32.const 0x51000001) drop (memory.size $m0) drop)
              (export "e_m1" (memory $m1)) (data (memory $m1) (i32.const 0) "x"))"#,
            true,
        ),
        // memories imported behind imports of other kinds (import position != memory index)
        Base::from_wat(
            "mem-mixed-imports",
            r#"(module (type $v (func))
              (import "env" "g0" (global i32))
              (import "env" "mi0" (memory $mi0 1))
              (import "env" "f0" (func (type $v)))
              (import "env" "mi1" (memory $mi1 2))
              (import "env" "t0" (table 2 funcref))
              (import "env" "mspare" (memory $mspare 3))
              (memory $m0 16) (memory $m1 17)
              (func $l0 (type $v) (i32.const 0x5F000000) drop
                 (i32.const 0) (i32.const 0x51000000) drop (i32.load $mi0) drop
                 (i32.const 0) (i32.const 0x51000001) drop (i32.load $mi1) drop
                 (i32.const 0) (i32.const 0x51000002) drop (i32.load $m1) drop
                 (i32.const 0x51000003) drop (memory.size $m0) drop)
              (export "e_mi1" (memory $mi1)) (export "e_m1" (memory $m1))
              (data (memory $mi1) (i32.const 0) "mi1") (data (memory $m0) (i32.const 4) "m0"))"#,
            true,
        ),
        // imported memories only (an unused one first), and a function import between them
        Base::from_wat(
            "mem-imports-only",
            r#"(module (type $v (func))
              (import "env" "mspare" (memory $mspare 3))
              (import "env" "f0" (func (type $v)))
              (import "env" "mi0" (memory $mi0 1))
              (import "env" "mi1" (memory $mi1 2))
              (func $l0 (type $v) (i32.const 0x5F000000) drop
                 (i32.const 0) (i32.const 0x51000000) drop (i32.load $mi0) drop
                 (i32.const 0) (i32.const 0) (i32.const 0x51000001) drop (i32.store $mi1)
                 (i32.const 0x51000002) drop (memory.size $mi1) drop)
              (export "e_mi1" (memory $mi1)) (data (memory $mi1) (i32.const 0) "mi1"))"#,
            true,
        ),
        // exactly one imported and one local memory
        Base::from_wat(
            "mem-one-each",
            r#"(module (type $v (func)) (import "env" "mi0" (memory $mi0 1)) (memory $m0 16)
              (func $l0 (type $v) (i32.const 0x5F000000) drop (i32.const 0) (i32.const 0x51000000) drop (i32.load $m0) drop)
              (func $l1 (type $v) (i32.const 0x5F000001) drop (i32.const 0) (i32.const 0x51000001) drop (i32.load $mi0) drop))"#,
            true,
        ),
        // every ordered pair (dst, src) of four memories in a two-memory operator
        Base::from_wat(
            "mem-copy-pairs",
            &{
                let names = ["$mi0", "$mi1", "$m0", "$m1"];
                let mut body = String::new();
                let mut site = 0x20;
                for d in names.iter() {
                    for s in names.iter() {
                        body.push_str(&format!("(i32.const 0) (i32.const 0) (i32.const 0) (i32.const {}) drop (memory.copy {} {})\n", 0x51000000 + site, d, s));
                        site += 1;
                    }
                }
                format!(
                    r#"(module (type $v (func)) (import "env" "mi0" (memory $mi0 1)) (import "env" "mi1" (memory $mi1 2)) (import "env" "mspare" (memory $mspare 3))
                      (memory $m0 16) (memory $m1 17) (memory $mspare2 18)
                      (func $l0 (type $v) (i32.const 0x5F000000) drop {})
                      (func $l1 (type $v) (i32.const 0x5F000001) drop))"#,
                    body
                )
            },
            true,
        ),
        Base::from_wat(
            "mem-single",
            r#"(module (type $v (func)) (memory $m0 16)
              (func $l0 (type $v) (i32.const 0x5F000000) drop (i32.const 0) (i32.const 0x51000000) drop (i32.load) drop)
              (export "e_m0" (memory $m0)) (data (i32.const 0) "x"))"#,
            true,
        ),
    ]
}

// ---------------------------------------------------------------------------------------------
// alphabets
// ---------------------------------------------------------------------------------------------
fn live_funcs(m: &Model) -> Vec<&MFunc> {
    m.funcs.iter().filter(|f| f.live).collect()
}

/// a few representative targets: first live import, first and last live local, newest entity
fn pick<T: Clone + PartialEq>(v: Vec<T>) -> Vec<T> {
    let mut out: Vec<T> = vec![];
    for x in v {
        if !out.contains(&x) {
            out.push(x);
        }
    }
    out
}

pub fn fn_alphabet(deep_inject: bool) -> impl Fn(&Model) -> Vec<Op> + Sync {
    move |m: &Model| {
        let mut ops = vec![];
        let live = live_funcs(m);
        let imports: Vec<u32> = live.iter().filter(|f| f.import.is_some()).map(|f| f.handle).collect();
        let locals: Vec<u32> = live.iter().filter(|f| f.import.is_none()).map(|f| f.handle).collect();
        let newest = m.funcs.iter().rev().find(|f| f.live).map(|f| f.handle);
        let mut targets: Vec<u32> = vec![];
        if let Some(i) = imports.first() {
            targets.push(*i);
        }
        if let Some(i) = imports.last() {
            targets.push(*i);
        }
        if let Some(l) = locals.first() {
            targets.push(*l);
        }
        if let Some(l) = locals.last() {
            targets.push(*l);
        }
        if let Some(n) = newest {
            targets.push(n);
        }
        let targets = pick(targets);
        if m.encodes == 0 {
            ops.push(Op::EncodeNow);
            ops.push(Op::PullNow);
        }
        ops.push(Op::AddLocalFunc { calls: None });
        for t in targets.iter().take(2) {
            ops.push(Op::AddLocalFunc { calls: Some(*t) });
        }
        ops.push(Op::AddImportFunc);
        for f in live.iter() {
            ops.push(Op::DeleteFunc(f.handle));
        }
        for l in locals.iter() {
            ops.push(Op::LocalToImport(*l));
        }
        for i in imports.iter() {
            ops.push(Op::ImportToLocal(*i));
        }
        // injections into the first live local function that still has its marker
        let owners: Vec<u32> = m.funcs.iter().filter(|f| f.live && f.import.is_none() && f.marker.is_some()).map(|f| f.handle).take(if deep_inject { 2 } else { 1 }).collect();
        for (oi, owner) in owners.iter().enumerate() {
            for (ti, t) in targets.iter().enumerate() {
                let declared = m.func(*t).map(|f| f.declared).unwrap_or(false);
                for kind in 0..3u8 {
                    if kind == 2 && !declared {
                        continue;
                    }
                    // rotate the API path deterministically so that all are covered without multiplying the
                    // alphabet: (target, kind) pairs walk through the paths of INJECT_APIS
                    let n_api = INJECT_APIS.len();
                    let api = ((oi + ti * 3 + kind as usize * 2) % n_api) as u8;
                    ops.push(Op::InjectFn { owner: *owner, kind, target: *t, api });
                    if deep_inject {
                        for a in 0..n_api as u8 {
                            if a != api {
                                ops.push(Op::InjectFn { owner: *owner, kind, target: *t, api: a });
                            }
                        }
                    }
                }
            }
        }
        for t in targets.iter().take(2) {
            ops.push(Op::AddExportFunc(*t));
        }
        for e in m.exports.iter().filter(|e| e.live).take(2) {
            ops.push(Op::DeleteExport(e.name.clone()));
        }
        ops
    }
}

pub fn global_alphabet() -> impl Fn(&Model) -> Vec<Op> + Sync {
    move |m: &Model| {
        let mut ops = vec![];
        let live: Vec<&MGlobal> = m.globals.iter().filter(|g| g.live).collect();
        let imm_i32_imports: Vec<u32> = live.iter().filter(|g| g.import.is_some() && !g.mutable && g.ty == "i32").map(|g| g.handle).collect();
        let owner = m.funcs.iter().find(|f| f.live && f.import.is_none() && f.marker.is_some()).map(|f| f.handle);
        for api in 0..2u8 {
            ops.push(Op::AddGlobal { init: GInit::Const, mutable: true, api });
            if let Some(a) = imm_i32_imports.first() {
                ops.push(Op::AddGlobal { init: GInit::Alias(*a), mutable: false, api });
            }
        }
        ops.push(Op::AddImportedGlobal);
        if m.encodes == 0 {
            ops.push(Op::EncodeNow);
            ops.push(Op::PullNow);
        }
        for g in live.iter() {
            ops.push(Op::DeleteGlobal(g.handle));
        }
        // init-expr replacement on local globals
        for g in live.iter().filter(|g| g.import.is_none() && g.ty == "i32").take(2) {
            ops.push(Op::ModInit { h: g.handle, init: GInit::Const });
            if let Some(a) = imm_i32_imports.last() {
                ops.push(Op::ModInit { h: g.handle, init: GInit::Alias(*a) });
            }
        }
        if let Some(owner) = owner {
            let mut targets: Vec<u32> = vec![];
            if let Some(g) = live.iter().find(|g| g.import.is_some()) {
                targets.push(g.handle);
            }
            if let Some(g) = live.iter().find(|g| g.import.is_none()) {
                targets.push(g.handle);
            }
            if let Some(g) = live.last() {
                targets.push(g.handle);
            }
            for (i, t) in pick(targets).iter().enumerate() {
                let g = m.global(*t).unwrap();
                // imported globals of the bases: gi0 i32 const, gi1 mut i32 (type is not recorded for imports: known by name)
                if g.ty != "i32" {
                    continue;
                }
                let n_api = INJECT_APIS.len();
                ops.push(Op::InjectGlobal { owner, set: false, target: *t, api: ((i * 2) % n_api) as u8 });
                ops.push(Op::InjectGlobal { owner, set: false, target: *t, api: ((i * 2 + 3) % n_api) as u8 });
                if g.mutable {
                    ops.push(Op::InjectGlobal { owner, set: true, target: *t, api: ((i * 2 + 1) % n_api) as u8 });
                    ops.push(Op::InjectGlobal { owner, set: true, target: *t, api: ((i * 2 + 5) % n_api) as u8 });
                }
            }
        }
        ops
    }
}

pub fn mem_alphabet() -> impl Fn(&Model) -> Vec<Op> + Sync {
    move |m: &Model| {
        let mut ops = vec![Op::AddLocalMem, Op::AddImportMem];
        if m.encodes == 0 {
            ops.push(Op::EncodeNow);
            ops.push(Op::PullNow);
        }
        let live: Vec<&MMem> = m.mems.iter().filter(|g| g.live).collect();
        for g in live.iter() {
            ops.push(Op::DeleteMem(g.handle));
        }
        let owner = m.funcs.iter().find(|f| f.live && f.import.is_none() && f.marker.is_some() && f.marker != Some(0x40)).map(|f| f.handle);
        let mut targets: Vec<u32> = vec![];
        if let Some(g) = live.iter().find(|g| g.import.is_some()) {
            targets.push(g.handle);
        }
        if let Some(g) = live.iter().find(|g| g.import.is_none()) {
            targets.push(g.handle);
        }
        if let Some(g) = live.last() {
            targets.push(g.handle);
        }
        let targets = pick(targets);
        if let Some(owner) = owner {
            let n_api = INJECT_APIS.len();
            for (i, t) in targets.iter().enumerate() {
                for c in 0..8u8 {
                    // every operator class on the newest memory, a rotating subset elsewhere
                    if i + 1 == targets.len() || (c as usize + i) % 3 == 0 {
                        ops.push(Op::InjectMem { owner, opclass: c, target: *t, other: 0, api: ((c as usize + i * 3) % n_api) as u8 });
                    }
                }
            }
            // two-memory operator: every ordered pair of distinct live memories among the first four and
            // the newest (an index that is correct for one operand can be wrong for the other)
            let mut pool: Vec<u32> = live.iter().take(4).map(|g| g.handle).collect();
            if let Some(g) = live.last() {
                pool.push(g.handle);
            }
            let pool = pick(pool);
            for (i, d) in pool.iter().enumerate() {
                for (j, s) in pool.iter().enumerate() {
                    if d != s {
                        ops.push(Op::InjectMem { owner, opclass: 8, target: *d, other: *s, api: ((i + j) % n_api) as u8 });
                    }
                }
            }
        }
        for t in targets.iter().take(2) {
            ops.push(Op::AddExportMem(*t));
            ops.push(Op::AddData { mem: Some(*t) });
        }
        ops.push(Op::AddData { mem: None });
        ops
    }
}

// ---------------------------------------------------------------------------------------------
// property entry points
// ---------------------------------------------------------------------------------------------
fn has_delete(h: &[Op]) -> bool {
    h.iter().any(|o| matches!(o, Op::DeleteFunc(_) | Op::DeleteGlobal(_) | Op::DeleteMem(_) | Op::DeleteExport(_)))
}

const CFG1: EvalCfg = EvalCfg { encodes: 1, names: false };

fn binding_check(id: &'static str, tier: Tier, bases: Vec<Base>, alphabet: &(dyn Fn(&Model) -> Vec<Op> + Sync), kind: ClauseKind, depth_q: usize, depth_t: usize, what: &str) -> i32 {
    let mut run = Run::new(id, tier, "model_checking");
    let depth = tier.pick(depth_q, depth_t);
    run.rule = format!(
        "explicit-state BFS over all histories of length <= {} of {} operations on {} base modules (every reference-site kind is a separate base variant); each state is rebuilt on the real API by replaying the history on a freshly parsed base in lock step with an entity/handle reference model; in EVERY state the module is encoded and the decoded output is compared with the model (validates; live-entity token multiset; every reference site designates the token of the entity whose ID the caller holds). States are deduplicated on the complete Debug rendering of the Module plus the model. Non-trivial class = distinct multiset of operation kinds. A failing clause is reported with the minimal operation multiset that produces it.",
        depth, what, bases.len()
    );
    let judge = move |c: &Clause, _h: &[Op]| c.kind == kind || matches!(c.kind, ClauseKind::Generic | ClauseKind::DupId | ClauseKind::Content);
    let s = Search { bases: &bases, depth, cfg: CFG1, enabled: alphabet, judge: &judge, relevant: &|_| true, max_states: tier.pick(1_000_000, 30_000_000) };
    run_search(&mut run, &s);
    run.extra.insert("depth_completed".into(), json!(depth));
    run.extra.insert("bases".into(), json!(bases.iter().map(|b| b.name.clone()).collect::<Vec<_>>()));
    run.assumptions.push("histories that leave a dangling reference are judged by C09's clause, not here".into());
    run.assumptions.push("identity tokens: imports by (module, field); local functions by a marker constant in their first two instructions; local globals by (type, mutability, constant initialiser or shape + relative order); local memories by their minimum size".into());
    run.finish()
}

pub fn check_c06(tier: Tier) -> i32 {
    let a = fn_alphabet(false);
    binding_check("C06", tier, fn_bases(), &a, ClauseKind::Func, 3, 4, "function/import")
}
pub fn check_c07(tier: Tier) -> i32 {
    let a = global_alphabet();
    binding_check("C07", tier, global_bases(), &a, ClauseKind::Global, 3, 5, "global")
}
pub fn check_c08(tier: Tier) -> i32 {
    let a = mem_alphabet();
    binding_check("C08", tier, mem_bases(), &a, ClauseKind::Mem, 3, 4, "memory")
}

fn bases_for(id: &str) -> Vec<Base> {
    match id {
        "C06" | "C10" | "C11" => fn_bases(),
        "C07" => global_bases(),
        "C08" => mem_bases(),
        _ => {
            let mut v = fn_bases();
            v.extend(global_bases());
            v.extend(mem_bases());
            v
        }
    }
}

pub fn replay(id: &str, case: &serde_json::Value) -> Vec<Mismatch> {
    let bases = bases_for(id);
    let kind = match id {
        "C06" | "C10" | "C11" => ClauseKind::Func,
        "C07" => ClauseKind::Global,
        "C08" => ClauseKind::Mem,
        _ => ClauseKind::Generic,
    };
    let judge = move |c: &Clause, _h: &[Op]| c.kind == kind || matches!(c.kind, ClauseKind::Generic | ClauseKind::DupId | ClauseKind::Content);
    replay_history(&bases, case, CFG1, &judge)
}

#[allow(dead_code)]
fn unused() {
    let _ = has_delete;
    let _ = features_with_shared_everything;
}
