//! C04 — encoding is deterministic: the only source of nondeterminism the crate has is the
//! iteration order of its hash maps (per-process random seed). Under the hook build every such
//! iteration asks an order oracle; this check enumerates the oracle's answers (deviation-bounded
//! DFS: 0, then 1, then 2 non-identity permutations per execution) for every history / plan and
//! requires byte-identical output.
use crate::engine::*;
use crate::history::*;
use crate::props::hist::*;
use crate::view::decode;
use crate::world::*;
use rayon::prelude::*;
use serde::{Deserialize, Serialize};
use serde_json::json;
use std::cell::RefCell;
use std::rc::Rc;
use wirm::verif::{clear_order_oracle, set_order_oracle, OrderQuery};
use wirm::Module;

#[derive(Clone, Debug, Serialize, Deserialize)]
pub struct Case {
    pub base: String,
    pub history: Vec<Op>,
    /// (choice point index, permutation) deviations from the identity order
    pub schedule: Vec<(usize, Vec<usize>)>,
}

#[derive(Clone, Debug)]
struct ChoicePoint {
    n: usize,
    site: String,
}

fn permutations(n: usize) -> Vec<Vec<usize>> {
    // all n! for n <= 4; identity-excluded. Larger maps: reversal, rotations, adjacent swaps.
    let id: Vec<usize> = (0..n).collect();
    let mut out = vec![];
    if n <= 4 {
        fn rec(cur: &mut Vec<usize>, used: &mut Vec<bool>, n: usize, out: &mut Vec<Vec<usize>>) {
            if cur.len() == n {
                out.push(cur.clone());
                return;
            }
            for i in 0..n {
                if !used[i] {
                    used[i] = true;
                    cur.push(i);
                    rec(cur, used, n, out);
                    cur.pop();
                    used[i] = false;
                }
            }
        }
        rec(&mut vec![], &mut vec![false; n], n, &mut out);
    } else {
        let mut rev = id.clone();
        rev.reverse();
        out.push(rev);
        for r in 1..n {
            out.push((0..n).map(|i| (i + r) % n).collect());
        }
        for i in 0..n - 1 {
            let mut p = id.clone();
            p.swap(i, i + 1);
            out.push(p);
        }
    }
    out.retain(|p| *p != id);
    out.sort();
    out.dedup();
    out
}

/// Run one history under one schedule on the real code. Returns (encoded bytes | panic site,
/// side-effect summary, choice points met).
fn run_once(base: &Base, history: &[Op], schedule: &[(usize, Vec<usize>)], side_effects: bool) -> (Result<Vec<u8>, String>, Vec<ChoicePoint>) {
    run_under(schedule, &|| {
        let base_view = decode(&base.bytes).expect("harness: base decodes");
        let mut model = Model::from_base(&base_view);
        let mut module = Module::parse(&base.bytes, base.multi_memory).expect("harness: base parses");
        for op in history {
            apply(op, &mut module, &mut model);
        }
        if side_effects {
            // order-insensitive rendering of the side-effect report
            let se = module.pull_side_effects();
            let mut lines: Vec<String> = vec![];
            for (k, v) in se.insertion_order() {
                lines.push(format!("{}:{}", k, v.len()));
            }
            lines.sort();
            lines.join(",").into_bytes()
        } else {
            module.encode()
        }
    })
}

/// Run `f` (which calls into the real crate) with the order oracle answering `schedule`.
fn run_under(schedule: &[(usize, Vec<usize>)], f: &dyn Fn() -> Vec<u8>) -> (Result<Vec<u8>, String>, Vec<ChoicePoint>) {
    let cps: Rc<RefCell<Vec<ChoicePoint>>> = Rc::new(RefCell::new(vec![]));
    let cps2 = cps.clone();
    let sched: Vec<(usize, Vec<usize>)> = schedule.to_vec();
    set_order_oracle(Box::new(move |q: &OrderQuery| {
        let mut v = cps2.borrow_mut();
        let idx = v.len();
        v.push(ChoicePoint { n: q.n, site: format!("{}:{}", q.file.rsplit("/src/").next().unwrap_or(q.file), q.line) });
        match sched.iter().find(|(i, _)| *i == idx) {
            Some((_, p)) if p.len() == q.n => p.clone(),
            // a prefix divergence (different n at a scheduled point) falls back to identity; the
            // caller detects it by comparing the choice-point lists
            _ => (0..q.n).collect(),
        }
    }));
    let r = catch(|| f());
    clear_order_oracle();
    let v = cps.borrow().clone();
    (r.map_err(|p| format!("panic {}", p.site())), v)
}

struct Explored {
    schedules: u64,
    choice_points: u64,
    mismatch: Option<(Vec<(usize, Vec<usize>)>, String, String)>,
    sites: Vec<String>,
    max_n: usize,
    diverged: u64,
}

fn explore(base: &Base, history: &[Op], max_dev: usize, side_effects: bool) -> Explored {
    explore_with(max_dev, &|s| run_once(base, history, s, side_effects))
}

fn explore_with(max_dev: usize, run_once: &dyn Fn(&[(usize, Vec<usize>)]) -> (Result<Vec<u8>, String>, Vec<ChoicePoint>)) -> Explored {
    let (base, history, side_effects) = ((), (), ());
    let run_once = |_: (), _: (), s: &[(usize, Vec<usize>)], _: ()| run_once(s);
    let (ref_out, ref_cps) = run_once(base, history, &[], side_effects);
    let mut ex = Explored { schedules: 1, choice_points: ref_cps.len() as u64, mismatch: None, sites: ref_cps.iter().filter(|c| c.n >= 2).map(|c| c.site.clone()).collect(), max_n: ref_cps.iter().map(|c| c.n).max().unwrap_or(0), diverged: 0 };
    // deviation-bounded DFS
    let mut frontier: Vec<(Vec<(usize, Vec<usize>)>, Vec<ChoicePoint>)> = vec![(vec![], ref_cps.clone())];
    for _dev in 0..max_dev {
        let mut next = vec![];
        for (sched, cps) in frontier.iter() {
            let start = sched.last().map(|(i, _)| i + 1).unwrap_or(0);
            for (i, cp) in cps.iter().enumerate().skip(start) {
                if cp.n < 2 {
                    continue;
                }
                for p in permutations(cp.n) {
                    let mut s2 = sched.clone();
                    s2.push((i, p));
                    let (out, cps2) = run_once(base, history, &s2, side_effects);
                    ex.schedules += 1;
                    if cps2.len() != cps.len() {
                        ex.diverged += 1;
                    }
                    if out != ref_out && ex.mismatch.is_none() {
                        let site = cp.site.clone();
                        let what = match (&ref_out, &out) {
                            (Ok(a), Ok(b)) => format!("outputs differ ({} vs {} bytes)", a.len(), b.len()),
                            (a, b) => format!("{:?} vs {:?}", a.as_ref().map(|x| x.len()), b.as_ref().map(|x| x.len())),
                        };
                        ex.mismatch = Some((s2.clone(), site, what));
                    }
                    next.push((s2, cps2));
                }
            }
        }
        frontier = next;
        if ex.mismatch.is_some() {
            break;
        }
    }
    ex
}

fn dup_type_bases() -> Vec<Base> {
    vec![
        Base::from_wat(
            "dup-types",
            r#"(module (type $a (func)) (type $b (func)) (type $c (func (param i32)))
              (import "env" "fi0" (func $fi0 (type $a)))
              (func $l0 (type $b) (i32.const 0x5F000000) drop (i32.const 0x51000000) drop (call $fi0))
              (func $l1 (type $a) (i32.const 0x5F000001) drop)
              (export "e" (func $l1)) (elem declare func $l0 $l1 $fi0))"#,
            false,
        ),
        // an explicit rec group whose first member has structurally identical stand-alone twins
        Base::from_wat(
            "dup-types-rec-twins",
            r#"(module (rec (type $ga (func)) (type $gb (struct (field i32)))) (type $t1 (func)) (type $t2 (func)) (type $t3 (func)) (type $p (func (param i32)))
              (import "env" "fi0" (func $fi0 (type $t2)))
              (func $l0 (type $t1) (i32.const 0x5F000000) drop (i32.const 0x51000000) drop (call $fi0))
              (func $l1 (type $t3) (i32.const 0x5F000001) drop)
              (func $l2 (type $ga) (i32.const 0x5F000002) drop)
              (export "e" (func $l1)) (elem declare func $l0 $l1 $fi0))"#,
            false,
        ),
        Base::from_wat(
            "dup-types-rec-only",
            r#"(module (rec (type $ga (func)) (type $gb (func))) (rec (type $gc (func)) (type $gd (func (param i32))))
              (func $l0 (type $gb) (i32.const 0x5F000000) drop)
              (func $l1 (type $gc) (i32.const 0x5F000001) drop))"#,
            false,
        ),
        Base::from_wat(
            "dup-types-3",
            r#"(module (type (func)) (type (func)) (type (func)) (type (func (result i32))) (type (func (result i32)))
              (func $l0 (type 2) (i32.const 0x5F000000) drop)
              (func $l1 (type 4) (i32.const 0x5F000001) drop (i32.const 1)))"#,
            false,
        ),
    ]
}

const FN_PLAN_WAT: &str = r#"(module (type (func (param i32))) (type (func (param i32) (result i32))) (type (func (param i32) (result i64))) (type (func (param i32) (result f32)))
            (func (type 0)) (func (type 1) (i32.const 1)) (func (type 2) (i64.const 2)) (func (type 3) (f32.const 3)))"#;

/// per function: 0 none, 1 entry, 2 exit, 3 both
fn run_fn_plan(bytes: &[u8], plan: &[u8]) -> Vec<u8> {
    use wirm::ir::id::FunctionID;
    use wirm::opcode::Instrumenter;
    use wirm::Opcode;
    let mut module = Module::parse(bytes, false).expect("harness: base parses");
    for (f, mode) in plan.iter().enumerate() {
        if *mode == 0 {
            continue;
        }
        let mut fm = module.functions.get_fn_modifier(FunctionID(f as u32)).expect("harness: local function");
        if mode & 1 != 0 {
            fm.func_entry();
            fm.i32_const(0x7700 + f as i32);
            fm.drop();
            fm.finish_instr();
        }
        if mode & 2 != 0 {
            fm.func_exit();
            fm.i32_const(0x7800 + f as i32);
            fm.drop();
            fm.finish_instr();
        }
    }
    module.encode()
}

pub fn check(tier: Tier) -> i32 {
    let mut run = Run::new("C04", tier, "model_checking");
    let depth = tier.pick(3, 4);
    let max_dev = tier.pick(2, 3);
    let mut bases = dup_type_bases();
    bases.extend(fn_bases().into_iter().filter(|b| ["fn-min", "fn+global-init", "fn-no-imports", "fn-mixed-imports"].contains(&b.name.as_str())));
    bases.extend(global_bases().into_iter().filter(|b| ["gl-min", "gl+export"].contains(&b.name.as_str())));
    bases.extend(mem_bases().into_iter().filter(|b| b.name == "mem-min"));
    // a base with names for several functions, locals, labels and globals: the name maps are re-keyed
    // at encoding
    bases.extend(crate::props::hist2::c29_bases().into_iter().filter(|b| b.name == "named-all"));
    run.rule = format!(
        "for every history of length <= {} of the function / global / memory alphabets on {} base modules (two of them with structurally identical types, which is where a dedup map built from an unordered map matters) every hash-map iteration of the crate is a choice point (hook: VMap order oracle); all schedules with <= {} non-identity permutations are executed (all n! permutations for maps of <= 4 entries; reversal, rotations and adjacent swaps beyond) and the encoded bytes - and separately the side-effect report rendered order-insensitively - must equal the identity schedule's. Secondary (thorough, sampled and labelled so): the same histories encoded in fresh OS processes of the unhooked build are out of scope of this harness binary and are not run.",
        depth,
        bases.len(),
        max_dev
    );
    // histories: BFS frontier enumeration reusing the model's enabled set (no judging here)
    let fa = fn_alphabet(false);
    let ga = global_alphabet();
    let ma = mem_alphabet();
    let na = crate::props::hist2::c29_alphabet();
    let mut histories: Vec<(usize, Vec<Op>)> = vec![];
    for (bi, base) in bases.iter().enumerate() {
        let alpha: &(dyn Fn(&Model) -> Vec<Op> + Sync) = if base.name.starts_with("gl") { &ga } else if base.name.starts_with("mem") { &ma } else if base.name.starts_with("named") { &na } else { &fa };
        let mut frontier: Vec<Vec<Op>> = vec![vec![]];
        for d in 0..=depth {
            let mut next = vec![];
            for h in frontier.iter() {
                histories.push((bi, h.clone()));
                if d < depth {
                    let ev = eval_history(base, h, EvalCfg { encodes: 1, names: false }, alpha);
                    if !ev.op_panicked {
                        for op in ev.enabled {
                            let mut h2 = h.clone();
                            h2.push(op);
                            next.push(h2);
                        }
                    }
                }
            }
            frontier = next;
        }
    }
    let results: Vec<(usize, Vec<Op>, Explored, Explored)> = histories
        .par_iter()
        .map(|(bi, h)| {
            let a = explore(&bases[*bi], h, max_dev, false);
            let b = explore(&bases[*bi], h, 1, true);
            (*bi, h.clone(), a, b)
        })
        .collect();
    let mut schedules = 0u64;
    let mut cps = 0u64;
    let mut sites: std::collections::BTreeSet<String> = std::collections::BTreeSet::new();
    let mut max_n = 0usize;
    let mut diverged = 0u64;
    let mut with_choice = 0u64;
    for (bi, h, a, b) in results {
        schedules += a.schedules + b.schedules;
        cps += a.choice_points;
        max_n = max_n.max(a.max_n);
        diverged += a.diverged + b.diverged;
        if !a.sites.is_empty() {
            with_choice += 1;
        }
        for s in a.sites.iter().chain(b.sites.iter()) {
            sites.insert(s.clone());
        }
        let mut ks: Vec<String> = h.iter().map(|o| o.kind_name()).collect();
        ks.sort();
        run.add_class("history", &format!("{}|{}", bases[bi].name, ks.join(",")));
        for (ex, what) in [(&a, "encoded-bytes"), (&b, "side-effect-report")] {
            if let Some((sched, site, detail)) = &ex.mismatch {
                let mut ks2 = ks.clone();
                ks2.dedup();
                run.add_mismatch(
                    "history x hash-order schedule",
                    json!(Case { base: bases[bi].name.clone(), history: h.clone(), schedule: sched.clone() }),
                    // the signature names the source file of the iteration, not its line
                    format!("hash-order-dependent {} at {} @{}", what, site.split(':').next().unwrap_or(site), bases[bi].name),
                    format!("{} under schedule {:?} (history {:?})", detail, sched, h),
                    1,
                );
            }
        }
    }
    // second family: instrumentation plans (special modes resolve through hash maps keyed by
    // block id and mode)
    {
        use crate::prog::*;
        use crate::props::lowering::{apply_and_encode, Api, Inj, SMode};
        let gr = Grammar {
            max_nodes: tier.pick(2, 3),
            max_depth: 2,
            leaves: vec![Leaf::Mark, Leaf::Br, Leaf::BrIf, Leaf::BrTable],
            blocks: true,
            loops: true,
            ifs: true,
            else_arms: true,
            conds: vec![Cond::A],
            results: 0,
        };
        let mut progs: Vec<Program> = enumerate(&gr).into_iter().map(|b| Program { results: 0, main: b, callee: vec![] }).collect();
        // (both tiers) a br_table that names one label twice next to another branch to the same block: the
        // flagged bodies that meet at that block's end then share a flag
        progs.push(Program { results: 0, main: vec![Stmt::Block(vec![Stmt::BrIf(Cond::A, 0), Stmt::BrTable(Cond::A, vec![0, 1], 0)])], callee: vec![] });
        progs.push(Program { results: 0, main: vec![Stmt::Block(vec![Stmt::Block(vec![Stmt::BrIf(Cond::A, 1), Stmt::BrTable(Cond::A, vec![1, 0], 1)])])], callee: vec![] });
        let modes = [SMode::SemanticAfter, SMode::BlockEntry, SMode::BlockExit, SMode::BlockAlt, SMode::FuncEntry, SMode::FuncExit];
        let mut plan_cases: Vec<(Program, Vec<Inj>)> = vec![];
        for prog in progs.iter() {
            let em = emit(prog);
            let roles = &em.roles[0];
            let mut sites: Vec<(usize, SMode)> = vec![(0, SMode::FuncEntry), (0, SMode::FuncExit)];
            for (at, r) in roles.iter().enumerate() {
                for m in modes {
                    let ok = match m {
                        SMode::BlockEntry | SMode::BlockExit | SMode::BlockAlt => matches!(r, Role::Block | Role::Loop | Role::If | Role::Else),
                        SMode::SemanticAfter => matches!(r, Role::Block | Role::If | Role::Else | Role::Br | Role::BrIf | Role::BrTable),
                        _ => false,
                    };
                    if ok {
                        sites.push((at, m));
                    }
                }
            }
            // all plans of 1 and 2 special-mode injections (two on one construct included)
            for (i, a) in sites.iter().enumerate() {
                let ia = Inj { at: a.0, mode: a.1, c: 0x7601, drop_first: a.1 == SMode::BlockAlt && matches!(roles[a.0], Role::If), retract: false, encode_after: false, finish: false };
                plan_cases.push((prog.clone(), vec![ia.clone()]));
                for b in sites.iter().skip(i + 1) {
                    let ib = Inj { at: b.0, mode: b.1, c: 0x7602, drop_first: b.1 == SMode::BlockAlt && matches!(roles[b.0], Role::If), retract: false, encode_after: false, finish: false };
                    plan_cases.push((prog.clone(), vec![ia.clone(), ib]));
                }
            }
        }
        let results: Vec<(usize, Explored)> = plan_cases
            .par_iter()
            .enumerate()
            .map(|(i, (prog, plan))| {
                let bytes = emit(prog).bytes;
                let ex = explore_with(max_dev, &|s| {
                    run_under(s, &|| match apply_and_encode(&bytes, plan, Api::ModAt, 1) {
                        Ok(mut v) => v.remove(0),
                        Err((_, p)) => format!("panic {}", p.site()).into_bytes(),
                    })
                });
                (i, ex)
            })
            .collect();
        let mut n = 0u64;
        for (i, ex) in results {
            n += ex.schedules;
            cps += ex.choice_points;
            max_n = max_n.max(ex.max_n);
            if !ex.sites.is_empty() {
                with_choice += 1;
            }
            for s in ex.sites.iter() {
                sites.insert(s.clone());
            }
            let (prog, plan) = &plan_cases[i];
            let mut ms: Vec<&str> = plan.iter().map(|p| p.mode.name()).collect();
            ms.sort();
            run.add_class("plan", &ms.join("+"));
            if let Some((sched, site, detail)) = &ex.mismatch {
                run.add_mismatch(
                    "instrumentation plan x hash-order schedule",
                    json!({"program": prog, "plan": plan, "schedule": sched}),
                    format!("hash-order-dependent encoded-bytes at {} [{}]", site.split(':').next().unwrap_or(site), ms.join("+")),
                    format!("{} under schedule {:?}", detail, sched),
                    1,
                );
            }
        }
        run.add_evaluations("instrumentation plan x hash-order schedules", n);
        run.add_counter("plans", plan_cases.len() as u64);
        schedules += 0;
    }
    // third family: function-entry/exit probes on several functions of one module whose wrapper block
    // types ([] -> results) do not exist yet, so that resolution has to add types - in which order?
    {
        let wat = FN_PLAN_WAT;
        let bytes = wat::parse_str(wat).expect("harness: multi-function base parses");
        // per function: 0 none, 1 entry, 2 exit, 3 both
        let plans: Vec<Vec<u8>> = (1..256u32).map(|m| (0..4).map(|i| ((m >> (2 * i)) & 3) as u8).collect()).collect();
        let results: Vec<(usize, Explored)> = plans
            .par_iter()
            .enumerate()
            .map(|(i, plan)| {
                let ex = explore_with(max_dev, &|s| {
                    run_under(s, &|| run_fn_plan(&bytes, plan))
                });
                (i, ex)
            })
            .collect();
        let mut n = 0u64;
        for (i, ex) in results {
            n += ex.schedules;
            cps += ex.choice_points;
            max_n = max_n.max(ex.max_n);
            if !ex.sites.is_empty() {
                with_choice += 1;
            }
            for s in ex.sites.iter() {
                sites.insert(s.clone());
            }
            let n_exit = plans[i].iter().filter(|m| **m & 2 != 0).count();
            let n_entry = plans[i].iter().filter(|m| **m & 1 != 0).count();
            run.add_class("fn-plan", &format!("entry x{} exit x{}", n_entry, n_exit));
            if let Some((sched, site, detail)) = &ex.mismatch {
                run.add_mismatch(
                    "function entry/exit plan x hash-order schedule",
                    json!({"base_wat": wat, "plan_per_function": plans[i], "schedule": sched}),
                    format!("hash-order-dependent encoded-bytes at {} [func-entry/exit on {} functions]", site.split(':').next().unwrap_or(site), plans[i].iter().filter(|m| **m != 0).count().min(2)),
                    format!("{} under schedule {:?}", detail, sched),
                    1,
                );
            }
        }
        run.add_evaluations("function entry/exit plan x hash-order schedules", n);
        run.add_counter("function_entry_exit_plans", plans.len() as u64);
    }
    run.add_evaluations("history x hash-order schedules", schedules);
    run.states = Some(histories.len() as u64);
    run.transitions = Some(schedules);
    run.traces_validated = Some(schedules);
    run.add_counter("histories", histories.len() as u64);
    run.add_counter("histories_with_a_choice_point_of_2_or_more_entries", with_choice);
    run.add_counter("choice_points_on_identity_schedules", cps);
    run.add_counter("schedules_whose_choice_point_count_diverged", diverged);
    run.extra.insert("iteration_sites".into(), json!(sites));
    run.extra.insert("largest_map_iterated".into(), json!(max_n));
    run.extra.insert("deviation_bound_completed".into(), json!(max_dev));
    run.add_sample(json!({"base": "dup-types", "history": ["AddImportFunc"], "schedule": [[0, [1, 0, 2]]]}));
    run.assumptions.push("hash-map iteration order is the crate's only source of nondeterminism (no threads, clocks, or randomness); maps left on std::collections::HashMap (component sub-iterator metadata) are only looked up by key".into());
    run.finish()
}

pub fn replay(case: &serde_json::Value) -> Vec<Mismatch> {
    let sched_of = |v: &serde_json::Value| -> Vec<(usize, Vec<usize>)> { serde_json::from_value(v["schedule"].clone()).unwrap_or_default() };
    if let Some(plan) = case.get("plan_per_function") {
        let plan: Vec<u8> = serde_json::from_value(plan.clone()).unwrap_or_default();
        let bytes = wat::parse_str(FN_PLAN_WAT).expect("harness: multi-function base parses");
        let (a, _) = run_under(&[], &|| run_fn_plan(&bytes, &plan));
        let (b, _) = run_under(&sched_of(case), &|| run_fn_plan(&bytes, &plan));
        return if a != b { vec![Mismatch::new("hash-order-dependent encoded-bytes [func-entry/exit plan]", "identity schedule and the recorded schedule give different bytes")] } else { vec![] };
    }
    if case.get("program").is_some() {
        use crate::props::lowering::{apply_and_encode, Api, Inj};
        let prog: crate::prog::Program = match serde_json::from_value(case["program"].clone()) {
            Ok(p) => p,
            Err(e) => return vec![Mismatch::new("replay-case-unreadable", e.to_string())],
        };
        let plan: Vec<Inj> = serde_json::from_value(case["plan"].clone()).unwrap_or_default();
        let bytes = crate::prog::emit(&prog).bytes;
        let f = || match apply_and_encode(&bytes, &plan, Api::ModAt, 1) {
            Ok(mut v) => v.remove(0),
            Err((_, p)) => format!("panic {}", p.site()).into_bytes(),
        };
        let (a, _) = run_under(&[], &f);
        let (b, _) = run_under(&sched_of(case), &f);
        return if a != b { vec![Mismatch::new("hash-order-dependent encoded-bytes [instrumentation plan]", "identity schedule and the recorded schedule give different bytes")] } else { vec![] };
    }
    let c: Case = match serde_json::from_value(case.clone()) {
        Ok(c) => c,
        Err(e) => return vec![Mismatch::new("replay-case-unreadable", e.to_string())],
    };
    let mut bases = dup_type_bases();
    bases.extend(fn_bases());
    bases.extend(global_bases());
    bases.extend(mem_bases());
    bases.extend(crate::props::hist2::c29_bases());
    let base = match bases.iter().find(|b| b.name == c.base) {
        Some(b) => b,
        None => return vec![Mismatch::new("replay-unknown-base", c.base)],
    };
    let (a, _) = run_once(base, &c.history, &[], false);
    let (b, cps) = run_once(base, &c.history, &c.schedule, false);
    if a != b {
        let site = c.schedule.first().and_then(|(i, _)| cps.get(*i)).map(|c| c.site.clone()).unwrap_or_default();
        vec![Mismatch::new(format!("hash-order-dependent encoded-bytes at {} @{}", site, c.base), "identity schedule and the recorded schedule give different bytes")]
    } else {
        vec![]
    }
}
