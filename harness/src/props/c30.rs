//! C30 — module-level additions (globals, data segments, memories, exports, initialiser
//! replacement) appear in the encoded module exactly as requested, and the returned IDs designate
//! the added items.
use crate::engine::*;
use crate::view::*;
use crate::wasmutil::*;
use serde::{Deserialize, Serialize};
use wasmparser::{Operator, RefType};
use wirm::ir::id::{FunctionID, GlobalID};
use wirm::ir::types::{InitExpr, InitInstr, Location, Value};
use wirm::opcode::{Inject, Instrumenter};
use wirm::{DataSegment, DataSegmentKind, DataType, Module};

#[derive(Clone, Debug, PartialEq, Serialize, Deserialize)]
pub enum Init {
    I32(i32),
    I64(i64),
    /// bit patterns
    F32(u32),
    F64(u64),
    V128(String),
    /// global.get of the base's imported immutable i32 global
    GlobalGet,
    RefFunc(u32),
    RefNullFunc,
    RefNullExtern,
}

#[derive(Clone, Debug, PartialEq, Serialize, Deserialize)]
pub enum Add {
    Global { init: Init, mutable: bool },
    ImportedGlobal { ty: u8, mutable: bool },
    PassiveData { len: usize },
    /// active data in memory `mem` (a handle of the base) with a constant or global.get offset
    ActiveData { mem: u32, global_offset: bool, len: usize },
    LocalMemory { min: u64, max: Option<u64>, shared: bool, memory64: bool },
    ImportMemory { min: u64, max: Option<u64> },
    ExportFunc { f: u32 },
    ExportMem { m: u32 },
    ModInit { g: u32, init: Init },
    /// add_import_func: not judged itself (C06 does that), it renumbers the function index space around
    /// the other additions (a ref.func initialiser, a function export added before or after it)
    ImportFunc,
    /// delete_memory on the unreferenced local memory of base `rich+spare-memory` (a deletion, not an
    /// addition: it makes the index space of the memories added afterwards start at a freed place)
    DeleteSpareMemory,
}

#[derive(Clone, Debug, Serialize, Deserialize)]
pub struct Case {
    pub base: usize,
    pub adds: Vec<Add>,
}

const BASES: &[(&str, &str, bool)] = &[
    ("empty", "(module)", false),
    (
        "rich",
        r#"(module (type $v (func))
          (import "env" "fi0" (func $fi0 (type $v)))
          (import "env" "gi0" (global $gi0 i32))
          (import "env" "mi0" (memory $mi0 1))
          (memory $m0 16)
          (global $g0 (mut i32) (i32.const 0x60000000))
          (global $g1 i32 (i32.const 0x60000001))
          (func $l0 (type $v) (i32.const 0x5F000000) drop)
          (func $l1 (type $v) (i32.const 0x5F000001) drop)
          (export "e_l1" (func $l1))
          (data (memory $m0) (i32.const 0) "base")
          (elem declare func $l0 $l1 $fi0))"#,
        true,
    ),
    (
        "imports-only",
        r#"(module (type $v (func)) (import "env" "fi0" (func (type $v))) (import "env" "gi0" (global i32)) (import "env" "mi0" (memory 1)))"#,
        true,
    ),
    (
        // `rich` plus an unreferenced local memory (ID 2) that a history may delete: the deletion shifts
        // nothing that exists, but the next added memory takes the freed place in the index space
        "rich+spare-memory",
        r#"(module (type $v (func))
          (import "env" "fi0" (func $fi0 (type $v)))
          (import "env" "gi0" (global $gi0 i32))
          (import "env" "mi0" (memory $mi0 1))
          (memory $m0 16)
          (memory $mspare 5)
          (global $g0 (mut i32) (i32.const 0x60000000))
          (global $g1 i32 (i32.const 0x60000001))
          (func $l0 (type $v) (i32.const 0x5F000000) drop)
          (func $l1 (type $v) (i32.const 0x5F000001) drop)
          (export "e_l1" (func $l1))
          (data (memory $m0) (i32.const 0) "base")
          (elem declare func $l0 $l1 $fi0))"#,
        true,
    ),
    (
        "locals-only",
        r#"(module (type $v (func)) (memory 16) (global (mut i32) (i32.const 0x60000000))
          (func $l0 (type $v) (i32.const 0x5F000000) drop) (elem declare func $l0))"#,
        false,
    ),
];

fn base_bytes(i: usize) -> Vec<u8> {
    wat::parse_str(BASES[i].1).expect("base assembles")
}

fn init_real(i: &Init) -> (InitExpr, DataType) {
    let one = |x: InitInstr| InitExpr::new(vec![x]);
    match i {
        Init::I32(v) => (one(InitInstr::Value(Value::I32(*v))), DataType::I32),
        Init::I64(v) => (one(InitInstr::Value(Value::I64(*v))), DataType::I64),
        Init::F32(b) => (one(InitInstr::Value(Value::F32(f32::from_bits(*b)))), DataType::F32),
        Init::F64(b) => (one(InitInstr::Value(Value::F64(f64::from_bits(*b)))), DataType::F64),
        Init::V128(s) => (one(InitInstr::Value(Value::V128(u128::from_str_radix(s, 16).unwrap()))), DataType::V128),
        Init::GlobalGet => (one(InitInstr::Global(GlobalID(0))), DataType::I32),
        Init::RefFunc(f) => (one(InitInstr::RefFunc(FunctionID(*f))), DataType::FuncRefNull),
        Init::RefNullFunc => (one(InitInstr::RefNull(RefType::FUNCREF)), DataType::FuncRefNull),
        Init::RefNullExtern => (one(InitInstr::RefNull(RefType::EXTERNREF)), DataType::ExternRefNull),
    }
}

/// what the decoded initialiser must look like (wasmparser `Debug` of the single operator)
fn init_expected(i: &Init) -> (String, String) {
    match i {
        Init::I32(v) => (format!("I32Const {{ value: {} }}", v), "i32".into()),
        Init::I64(v) => (format!("I64Const {{ value: {} }}", v), "i64".into()),
        Init::F32(b) => (format!("F32Const {{ value: Ieee32({}) }}", b), "f32".into()),
        Init::F64(b) => (format!("F64Const {{ value: Ieee64({}) }}", b), "f64".into()),
        Init::V128(s) => {
            let v = u128::from_str_radix(s, 16).unwrap();
            (format!("V128Const {{ value: V128({:?}) }}", v.to_le_bytes()), "v128".into())
        }
        Init::GlobalGet => ("global.get".into(), "i32".into()),
        Init::RefFunc(_) => ("ref.func".into(), "funcref".into()),
        Init::RefNullFunc => ("RefNull { hty: Abstract { shared: false, ty: Func } }".into(), "funcref".into()),
        Init::RefNullExtern => ("RefNull { hty: Abstract { shared: false, ty: Extern } }".into(), "externref".into()),
    }
}

fn payload(len: usize, salt: u8) -> Vec<u8> {
    (0..len).map(|i| (i as u8).wrapping_mul(31).wrapping_add(salt)).collect()
}

fn run_case(c: &Case) -> Outcome {
    let bytes = base_bytes(c.base);
    let mut classes: Vec<String> = c.adds.iter().map(|a| format!("{:?}", a).split(|ch: char| ch == ' ' || ch == '{' || ch == '(').next().unwrap_or("").to_string()).collect();
    classes.sort();
    let mut o = Outcome::ok(format!("{}|{}|{}", BASES[c.base].0, classes.join("+"), detail_class(&c.adds)));
    let before = decode(&bytes).expect("base decodes");
    let has_owner = !before.local_funcs.is_empty();
    let owner = before.func_imports.len() as u32;
    // expectations collected while applying
    struct ExpGlobal {
        site: u32,
        ty: String,
        mutable: bool,
        init: String,
        what: String,
    }
    let mut exp_globals: Vec<ExpGlobal> = vec![];
    let mut exp_data: Vec<(u32, Option<(String, String)>, Vec<u8>)> = vec![]; // (returned id, (mem token, offset), bytes)
    let mut exp_mem_exports: Vec<(String, u64, Option<u64>, bool, bool)> = vec![];
    let mut exp_imports: Vec<(String, String)> = vec![];
    let mut exp_exports: Vec<(String, &'static str, String)> = vec![];
    let mut modinit: Vec<(u32, String)> = vec![];
    let base_mem_tok = |h: u32| -> String { before.mem_toks().get(h as usize).cloned().unwrap_or_default() };
    let base_fn_tok = |h: u32| -> String { before.func_toks().get(h as usize).cloned().unwrap_or_default() };
    let mut next_site = 0x200u32;
    let r = catch(|| {
        let mut module = Module::parse(&bytes, BASES[c.base].2).expect("harness: base parses");
        for (k, a) in c.adds.iter().enumerate() {
            match a {
                Add::Global { init, mutable } => {
                    let (expr, ty) = init_real(init);
                    let id = module.add_global(expr, ty, *mutable, false);
                    let (ie, te) = init_expected(init);
                    let site = next_site;
                    next_site += 1;
                    if has_owner {
                        // reference the returned ID from code so that it can be resolved in the output
                        let mut fm = module.functions.get_fn_modifier(FunctionID(owner)).expect("harness: owner");
                        fm.before_at(Location::Module { func_idx: FunctionID(owner), instr_idx: 2 });
                        fm.inject(Operator::I32Const { value: SITE_MARK + site as i32 });
                        fm.inject(Operator::Drop);
                        fm.inject(Operator::GlobalGet { global_index: *id });
                        fm.inject(Operator::Drop);
                    }
                    exp_globals.push(ExpGlobal { site, ty: te, mutable: *mutable, init: ie, what: format!("{:?}", init) });
                }
                Add::ImportedGlobal { ty, mutable } => {
                    let dt = [DataType::I32, DataType::I64, DataType::F64, DataType::FuncRefNull][*ty as usize];
                    let (_id, _) = module.add_imported_global("added".into(), format!("g{}", k), dt, *mutable, false);
                    exp_imports.push(("added".into(), format!("g{}", k)));
                }
                Add::PassiveData { len } => {
                    let data = payload(*len, k as u8);
                    let id = module.add_data(DataSegment { kind: DataSegmentKind::Passive, data: data.clone(), tag: None });
                    exp_data.push((*id, None, data));
                }
                Add::ActiveData { mem, global_offset, len } => {
                    let data = payload(*len, 0x40 + k as u8);
                    let (expr, off) = if *global_offset { (InitExpr::new(vec![InitInstr::Global(GlobalID(0))]), "global.get".to_string()) } else { (InitExpr::new(vec![InitInstr::Value(Value::I32(64 + k as i32))]), format!("I32Const {{ value: {} }}", 64 + k as i32)) };
                    let id = module.add_data(DataSegment { kind: DataSegmentKind::Active { memory_index: *mem, offset_expr: expr }, data: data.clone(), tag: None });
                    exp_data.push((*id, Some((base_mem_tok(*mem), off)), data));
                }
                Add::LocalMemory { min, max, shared, memory64 } => {
                    let id = module.add_local_memory(wasmparser::MemoryType { memory64: *memory64, shared: *shared, initial: *min, maximum: *max, page_size_log2: None });
                    let name = format!("xm{}", k);
                    module.exports.add_export_mem(name.clone(), *id, None);
                    exp_mem_exports.push((name, *min, *max, *shared, *memory64));
                }
                Add::ImportMemory { min, max } => {
                    let (id, _) = module.add_import_memory("added".into(), format!("m{}", k), wasmparser::MemoryType { memory64: false, shared: false, initial: *min, maximum: *max, page_size_log2: None });
                    let name = format!("xim{}", k);
                    module.exports.add_export_mem(name.clone(), *id, None);
                    exp_imports.push(("added".into(), format!("m{}", k)));
                    exp_mem_exports.push((name, *min, *max, false, false));
                }
                Add::ExportFunc { f } => {
                    let name = format!("xf{}", k);
                    module.exports.add_export_func(name.clone(), *f, None);
                    exp_exports.push((name, "func", base_fn_tok(*f)));
                }
                Add::ExportMem { m } => {
                    let name = format!("xmm{}", k);
                    module.exports.add_export_mem(name.clone(), *m, None);
                    exp_exports.push((name, "memory", base_mem_tok(*m)));
                }
                Add::ModInit { g, init } => {
                    let (expr, _) = init_real(init);
                    module.mod_global_init_expr(GlobalID(*g), expr);
                    modinit.push((*g, init_expected(init).0));
                }
                Add::DeleteSpareMemory => {
                    module.delete_memory(wirm::ir::id::MemoryID(2));
                }
                Add::ImportFunc => {
                    let ty = module.types.add_func_type(&[], &[], None);
                    module.add_import_func("added".into(), format!("f{}", k), ty);
                    exp_imports.push(("added".into(), format!("f{}", k)));
                }
            }
        }
        module.encode()
    });
    let out = match r {
        Ok(b) => b,
        Err(p) => {
            if p.msg.starts_with("harness:") {
                panic!("{}", p.msg);
            }
            o.fail(format!("panic {} [{}]", p.site(), classes.join("+")), format!("{} at {}:{}", p.msg, p.file, p.line));
            return o;
        }
    };
    o.observed = hash_of(&out);
    let after = match decode(&out) {
        Ok(v) => v,
        Err(e) => {
            o.fail("output-undecodable", e);
            return o;
        }
    };
    let mut feats = features_core();
    feats |= wasmparser::WasmFeatures::THREADS;
    if let Err(e) = validate(&out, feats) {
        let msg = match e.find(" (at offset") {
            Some(i) => e[..i].to_string(),
            None => e.clone(),
        };
        let masked: String = msg.chars().map(|c| if c.is_ascii_digit() { '#' } else { c }).take(50).collect();
        o.fail(format!("invalid-output {} [{}]", masked, classes.join("+")), e);
    }
    let gtoks = after.global_toks();
    let n_gimp = after.global_imports.len();
    // every added global: found through the site that uses its returned ID (or, without code, by content)
    let sites: std::collections::HashMap<u32, u32> = after.local_funcs.iter().flat_map(|f| f.sites.iter()).filter_map(|s| s.refs.first().map(|(_, i)| (s.id, *i))).collect();
    for g in exp_globals.iter() {
        let idx = if has_owner {
            match sites.get(&g.site) {
                Some(i) => Some(*i as usize),
                None => {
                    o.fail("added-global reference-missing", format!("the injected global.get of the returned ID is not in the output ({})", g.what));
                    None
                }
            }
        } else {
            // no code to reference it from: the added globals are the last local globals, in order
            None
        };
        let candidates: Vec<usize> = match idx {
            Some(i) => vec![i],
            None => (n_gimp..gtoks.len()).collect(),
        };
        let mut matched = false;
        let mut seen = String::new();
        for i in candidates {
            if i < n_gimp {
                seen = format!("index {} is an imported global", i);
                continue;
            }
            let lg = &after.local_globals[i - n_gimp];
            let init_s = match lg.init.as_slice() {
                [RawExpr::Other(s)] => s.clone(),
                [RawExpr::GlobalGet(_)] => "global.get".to_string(),
                [RawExpr::RefFunc(_)] => "ref.func".to_string(),
                other => format!("{:?}", other),
            };
            seen = format!("type {} mutable {} init {}", lg.ty, lg.mutable, init_s);
            if lg.ty == g.ty && lg.mutable == g.mutable && init_s == g.init {
                matched = true;
                break;
            }
        }
        if !matched {
            let kind = g.what.split('(').next().unwrap_or("").to_string();
            o.fail(format!("added-global differs {}", kind), format!("requested {} (type {}, mutable {}, init {}), the global designated by the returned ID has {}", g.what, g.ty, g.mutable, g.init, seen));
        }
    }
    // reference inits resolve to the right entity
    for a in c.adds.iter() {
        if let Add::Global { init: Init::RefFunc(f), .. } = a {
            let want = base_fn_tok(*f);
            let ftoks = after.func_toks();
            let ok = after.local_globals.iter().any(|g| matches!(g.init.as_slice(), [RawExpr::RefFunc(i)] if ftoks.get(*i as usize) == Some(&want)));
            if !ok {
                o.fail("added-global ref.func wrong-entity", format!("no global initialised with ref.func of {}", want));
            }
        }
    }
    // data segments: the returned id is the segment's index
    for (id, active, data) in exp_data.iter() {
        match after.data.get(*id as usize) {
            None => o.fail("added-data missing", format!("no data segment {}", id)),
            Some(d) => {
                if &d.bytes != data {
                    o.fail("added-data bytes-differ", format!("segment {}: {} bytes expected, {} found", id, data.len(), d.bytes.len()));
                }
                match (active, d.mem) {
                    (None, None) => {}
                    (Some((mtok, off)), Some(mi)) => {
                        let got = after.mem_toks().get(mi as usize).cloned().unwrap_or_default();
                        if &got != mtok {
                            o.fail("added-data memory wrong-entity", format!("segment {}: expected {} got {}", id, mtok, got));
                        }
                        let off_s = match d.offset.as_slice() {
                            [RawExpr::Other(s)] => s.clone(),
                            [RawExpr::GlobalGet(_)] => "global.get".to_string(),
                            other => format!("{:?}", other),
                        };
                        if &off_s != off {
                            o.fail("added-data offset-differs", format!("segment {}: expected {} got {}", id, off, off_s));
                        }
                    }
                    _ => o.fail("added-data kind-differs", format!("segment {}", id)),
                }
            }
        }
    }
    // memories (through the export that uses the returned ID)
    let mem_types = memory_types(&out);
    for (name, min, max, shared, m64) in exp_mem_exports.iter() {
        match after.exports.iter().find(|(n, k, _)| n == name && *k == "memory") {
            None => o.fail("added-memory export-missing", name.clone()),
            Some((_, _, idx)) => match mem_types.get(*idx as usize) {
                None => o.fail("added-memory export-out-of-range", format!("{} -> {}", name, idx)),
                Some(t) => {
                    if t.initial != *min || t.maximum != *max || t.shared != *shared || t.memory64 != *m64 {
                        o.fail("added-memory limits-differ", format!("requested min {} max {:?} shared {} memory64 {}; the memory designated by the returned ID has {:?}", min, max, shared, m64, t));
                    }
                }
            },
        }
    }
    for (m, n) in exp_imports.iter() {
        if !after.import_order.iter().any(|(mo, na, _)| mo == m && na == n) {
            o.fail("added-import missing", format!("{}.{}", m, n));
        }
    }
    let ftoks = after.func_toks();
    let mtoks = after.mem_toks();
    for (name, kind, tok) in exp_exports.iter() {
        match after.exports.iter().find(|(n, k, _)| n == name && k == kind) {
            None => o.fail(format!("added-export.{} missing", kind), name.clone()),
            Some((_, _, idx)) => {
                let got = if *kind == "func" { ftoks.get(*idx as usize) } else { mtoks.get(*idx as usize) };
                if got != Some(tok) {
                    o.fail(format!("added-export.{} wrong-entity", kind), format!("{}: expected {} got {:?}", name, tok, got));
                }
            }
        }
    }
    // initialiser replacement: only that initialiser changes
    if !modinit.is_empty() {
        let before_g = &before.local_globals;
        let n_imp_b = before.global_imports.len();
        for (i, g) in before_g.iter().enumerate() {
            let h = (n_imp_b + i) as u32;
            // position of this base global in the output: base local globals keep their relative order
            let ag = match after.local_globals.get(i) {
                Some(a) => a,
                None => {
                    o.fail("mod-init global-missing", format!("base global {}", h));
                    continue;
                }
            };
            let init_s = |x: &Vec<RawExpr>| match x.as_slice() {
                [RawExpr::Other(s)] => s.clone(),
                [RawExpr::GlobalGet(_)] => "global.get".to_string(),
                [RawExpr::RefFunc(_)] => "ref.func".to_string(),
                other => format!("{:?}", other),
            };
            match modinit.iter().rev().find(|(g2, _)| *g2 == h) {
                Some((_, want)) => {
                    if &init_s(&ag.init) != want {
                        o.fail("mod-init initialiser-differs", format!("global {}: expected {} got {}", h, want, init_s(&ag.init)));
                    }
                    if ag.ty != g.ty || ag.mutable != g.mutable {
                        o.fail("mod-init type-changed", format!("global {}", h));
                    }
                }
                None => {
                    if init_s(&ag.init) != init_s(&g.init) || ag.ty != g.ty || ag.mutable != g.mutable {
                        o.fail("mod-init other-global-changed", format!("global {}: {:?} -> {:?}", h, g, ag));
                    }
                }
            }
        }
    }
    o
}

fn detail_class(adds: &[Add]) -> String {
    adds.iter()
        .map(|a| match a {
            Add::Global { init, mutable } => format!("{}{}", format!("{:?}", init).split('(').next().unwrap_or(""), if *mutable { "m" } else { "" }),
            Add::LocalMemory { max, shared, memory64, .. } => format!("{}{}{}", if max.is_some() { "max" } else { "" }, if *shared { "sh" } else { "" }, if *memory64 { "64" } else { "" }),
            Add::ActiveData { global_offset, len, .. } => format!("{}{}", if *global_offset { "g" } else { "c" }, len),
            Add::PassiveData { len } => format!("p{}", len),
            _ => String::new(),
        })
        .collect::<Vec<_>>()
        .join(",")
}

fn memory_types(bytes: &[u8]) -> Vec<wasmparser::MemoryType> {
    let mut v = vec![];
    for p in wasmparser::Parser::new(0).parse_all(bytes) {
        match p {
            Ok(wasmparser::Payload::ImportSection(r)) => {
                for i in r.into_iter().flatten() {
                    if let wasmparser::TypeRef::Memory(t) = i.ty {
                        v.push(t);
                    }
                }
            }
            Ok(wasmparser::Payload::MemorySection(r)) => {
                for m in r.into_iter().flatten() {
                    v.push(m);
                }
            }
            _ => {}
        }
    }
    v
}

fn alphabet(base: usize) -> Vec<Add> {
    let b = decode(&base_bytes(base)).expect("base decodes");
    let mut v = vec![];
    let has_gi0 = !b.global_imports.is_empty();
    let mut inits = vec![
        Init::I32(0),
        Init::I32(-1),
        Init::I32(i32::MIN),
        Init::I32(i32::MAX),
        Init::I64(i64::MIN),
        Init::I64(-1),
        Init::I64(i64::MAX),
        Init::F32(0x7fc0_0000),
        Init::F32(0x7fa0_0001),
        Init::F32(0xff80_0001),
        Init::F32(0x8000_0000),
        Init::F32(0x3fc0_0000),
        Init::F64(0x7ff8_0000_0000_0000),
        Init::F64(0x7ff4_0000_0000_0001),
        Init::F64(0xfff0_0000_dead_beef),
        Init::F64(0x8000_0000_0000_0000),
        Init::V128("0".into()),
        Init::V128("ffffffffffffffffffffffffffffffff".into()),
        Init::V128("80000000000000000000000000000000".into()),
        Init::V128("80000000000000000000000000000001".into()),
        Init::V128("0102030405060708090a0b0c0d0e0f10".into()),
        Init::RefNullFunc,
        Init::RefNullExtern,
    ];
    if has_gi0 {
        inits.push(Init::GlobalGet);
    }
    let nf = (b.func_imports.len() + b.local_funcs.len()) as u32;
    if nf > 0 {
        inits.push(Init::RefFunc(0));
        inits.push(Init::RefFunc(nf - 1));
    }
    for i in inits {
        for m in [false, true] {
            v.push(Add::Global { init: i.clone(), mutable: m });
        }
    }
    for ty in 0..4u8 {
        v.push(Add::ImportedGlobal { ty, mutable: ty % 2 == 1 });
    }
    for len in [0usize, 1, 300] {
        v.push(Add::PassiveData { len });
    }
    let nm = (b.mem_imports.len() + b.local_mems.len()) as u32;
    let spare = BASES[base].0 == "rich+spare-memory";
    if spare {
        v.push(Add::DeleteSpareMemory);
    }
    for m in 0..nm {
        if spare && m == 2 {
            continue; // nothing refers to the memory that may be deleted
        }
        for len in [0usize, 3] {
            v.push(Add::ActiveData { mem: m, global_offset: false, len });
            if has_gi0 {
                v.push(Add::ActiveData { mem: m, global_offset: true, len });
            }
        }
        v.push(Add::ExportMem { m });
    }
    for (min, max, shared, m64) in [(0u64, None, false, false), (1, Some(1u64), false, false), (2, Some(65536), false, false), (1, Some(4), true, false), (3, None, false, true), (1, Some(1u64 << 33), false, true)] {
        v.push(Add::LocalMemory { min, max, shared, memory64: m64 });
    }
    v.push(Add::ImportMemory { min: 2, max: Some(7) });
    v.push(Add::ImportMemory { min: 0, max: None });
    for f in 0..nf {
        v.push(Add::ExportFunc { f });
    }
    v.push(Add::ImportFunc);
    let n_imp = b.global_imports.len() as u32;
    for (i, g) in b.local_globals.iter().enumerate() {
        if g.ty == "i32" {
            v.push(Add::ModInit { g: n_imp + i as u32, init: Init::I32(-7) });
            if has_gi0 {
                v.push(Add::ModInit { g: n_imp + i as u32, init: Init::GlobalGet });
            }
        }
    }
    v
}

/// whether the sequence only uses what the binary format allows with the features in scope
fn admissible(base: usize, adds: &[Add]) -> bool {
    // multi-memory is only enabled for the bases parsed with the flag
    let b = decode(&base_bytes(base)).expect("base decodes");
    let mems = b.mem_imports.len() + b.local_mems.len() + adds.iter().filter(|a| matches!(a, Add::LocalMemory { .. } | Add::ImportMemory { .. })).count();
    if mems > 1 && !BASES[base].2 {
        return false;
    }
    if adds.iter().filter(|a| matches!(a, Add::DeleteSpareMemory)).count() > 1 {
        return false;
    }
    // shared memories cannot be mixed with active data into unshared ones etc.: nothing to exclude;
    // global.get initialisers need the imported global to stay immutable i32 (always true here)
    true
}

pub fn check(tier: Tier) -> i32 {
    let mut run = Run::new("C30", tier, "model_checking");
    let mut cases = vec![];
    for base in 0..BASES.len() {
        let alpha = alphabet(base);
        cases.push(Case { base, adds: vec![] });
        for a in alpha.iter() {
            if admissible(base, std::slice::from_ref(a)) {
                cases.push(Case { base, adds: vec![a.clone()] });
            }
        }
        // all ordered pairs
        for a in alpha.iter() {
            for b in alpha.iter() {
                let pair = vec![a.clone(), b.clone()];
                if admissible(base, &pair) {
                    cases.push(Case { base, adds: pair });
                }
            }
        }
        if tier == Tier::Thorough {
            // all ordered triples over a reduced alphabet (one representative per kind and feature)
            let reduced: Vec<Add> = alpha
                .iter()
                .filter(|a| match a {
                    Add::Global { init, .. } => matches!(init, Init::I32(-1) | Init::F32(0x7fa0_0001) | Init::V128(_) | Init::GlobalGet | Init::RefFunc(_)),
                    _ => true,
                })
                .cloned()
                .collect();
            for a in reduced.iter() {
                for b in reduced.iter() {
                    for c3 in reduced.iter() {
                        let t = vec![a.clone(), b.clone(), c3.clone()];
                        if admissible(base, &t) {
                            cases.push(Case { base, adds: t });
                        }
                    }
                }
            }
        }
    }
    run.rule = format!(
        "all histories of length <= 2 (thorough: <= 3 over a reduced alphabet) of module-level additions on {} bases (empty, rich, imports-only, locals-only): add_global x 7 value types x boundary / NaN-payload / top-bit-set v128 / global.get / ref.func / ref.null initialisers x mutability; add_imported_global; add_data passive / active (every memory, constant or global.get offset) x payload sizes 0/1/3/300; add_local_memory x limit shapes (max, shared, memory64, > 2^32 pages); add_import_memory; exports.add_export_func/mem for every function / memory; mod_global_init_expr; add_import_func as an index-shifting companion of the others. Oracle: the item designated by the RETURNED ID (resolved through an injected global.get, an export, or the data index) has exactly the requested type, limits, bytes and bit-exact initialiser; replaced initialisers change nothing else; the output validates.",
        BASES.len()
    );
    run.run_cases("addition histories", &cases, run_case);
    run.states = Some(cases.len() as u64);
    run.transitions = Some(cases.iter().map(|c| c.adds.len() as u64).sum());
    run.traces_validated = Some(cases.len() as u64);
    run.finish()
}

pub fn replay(case: &serde_json::Value) -> Vec<Mismatch> {
    match serde_json::from_value::<Case>(case.clone()) {
        Ok(c) => run_case(&c).mismatches,
        Err(e) => vec![Mismatch::new("replay-case-unreadable", e.to_string())],
    }
}
