//! C15 (before/after/alternate lowering), C21 (block alternate), C22 (special modes are never
//! silently lost) and the plan family of C05 — all static: the encoded function is compared with
//! a textual lowering model that shares no code with wirm.
use crate::engine::*;
use crate::interp::{load, IFunc};
use crate::prog::*;
use crate::wasmutil::*;
use rayon::prelude::*;
use serde::{Deserialize, Serialize};
use serde_json::json;
use std::collections::HashMap;
use wasmparser::Operator;
use wirm::ir::id::{FunctionID, ModuleID};
use wirm::ir::types::{InstrumentationMode, Location};
use wirm::iterator::component_iterator::ComponentIterator;
use wirm::iterator::iterator_trait::{IteratingInstrumenter, Iterator as WIterator};
use wirm::iterator::module_iterator::ModuleIterator;
use wirm::opcode::{Inject, InjectAt, Instrumenter};
use wirm::{Component, Module};

#[derive(Clone, Copy, Debug, PartialEq, Eq, Hash, PartialOrd, Ord, Serialize, Deserialize)]
pub enum SMode {
    Before,
    After,
    Alternate,
    EmptyAlternate,
    BlockAlt,
    EmptyBlockAlt,
    SemanticAfter,
    BlockEntry,
    BlockExit,
    FuncEntry,
    FuncExit,
}
impl SMode {
    pub fn name(self) -> &'static str {
        match self {
            SMode::Before => "before",
            SMode::After => "after",
            SMode::Alternate => "alternate",
            SMode::EmptyAlternate => "empty-alternate",
            SMode::BlockAlt => "block-alt",
            SMode::EmptyBlockAlt => "empty-block-alt",
            SMode::SemanticAfter => "semantic-after",
            SMode::BlockEntry => "block-entry",
            SMode::BlockExit => "block-exit",
            SMode::FuncEntry => "func-entry",
            SMode::FuncExit => "func-exit",
        }
    }
    fn imode(self) -> Option<InstrumentationMode> {
        Some(match self {
            SMode::Before => InstrumentationMode::Before,
            SMode::After => InstrumentationMode::After,
            SMode::Alternate => InstrumentationMode::Alternate,
            SMode::BlockAlt => InstrumentationMode::BlockAlt,
            SMode::SemanticAfter => InstrumentationMode::SemanticAfter,
            SMode::BlockEntry => InstrumentationMode::BlockEntry,
            SMode::BlockExit => InstrumentationMode::BlockExit,
            _ => return None,
        })
    }
}

/// API path through which an injection is made
#[derive(Clone, Copy, Debug, PartialEq, Eq, Hash, PartialOrd, Ord, Serialize, Deserialize)]
pub enum Api {
    /// ModuleIterator walked to the location, `mode()` then `inject`
    IterMode,
    /// ModuleIterator::inject_at(idx, mode, op)
    IterInjectAt,
    /// ModuleIterator `*_at(loc)` + `add_instr_at(loc, op)`
    IterAddInstrAt,
    /// FunctionModifier `*_at(loc)` then `inject`
    ModAt,
    /// FunctionModifier::inject_at(idx, mode, op)
    ModInjectAt,
    /// FunctionModifier `*_at(loc)` + `add_instr_at(loc, op)`
    ModAddInstrAt,
    /// ComponentIterator walked to the location, `mode()` then `inject`
    CompMode,
    CompInjectAt,
    CompAddInstrAt,
}
impl Api {
    pub fn name(self) -> &'static str {
        match self {
            Api::IterMode => "module-iterator mode()+inject",
            Api::IterInjectAt => "module-iterator inject_at",
            Api::IterAddInstrAt => "module-iterator *_at+add_instr_at",
            Api::ModAt => "function-modifier *_at+inject",
            Api::ModInjectAt => "function-modifier inject_at",
            Api::ModAddInstrAt => "function-modifier *_at+add_instr_at",
            Api::CompMode => "component-iterator mode()+inject",
            Api::CompInjectAt => "component-iterator inject_at",
            Api::CompAddInstrAt => "component-iterator *_at+add_instr_at",
        }
    }
    fn is_comp(self) -> bool {
        matches!(self, Api::CompMode | Api::CompInjectAt | Api::CompAddInstrAt)
    }
}
pub const ALL_APIS: [Api; 9] = [Api::IterMode, Api::IterInjectAt, Api::IterAddInstrAt, Api::ModAt, Api::ModInjectAt, Api::ModAddInstrAt, Api::CompMode, Api::CompInjectAt, Api::CompAddInstrAt];

#[derive(Clone, Debug, PartialEq, Eq, Hash, Serialize, Deserialize)]
pub struct Inj {
    pub at: usize,
    pub mode: SMode,
    /// unique constant of the injected `i32.const c; drop`
    pub c: i32,
    /// for a replaced `if`: the replacement starts with `drop` (consumes the condition)
    pub drop_first: bool,
    /// after the injection, `clear_instr_at(location, mode)` is called through the same API object
    /// kind: everything injected so far in that mode at that instruction is withdrawn
    #[serde(default)]
    pub retract: bool,
    /// after this injection the module is encoded once (output discarded) before the plan continues
    #[serde(default)]
    pub encode_after: bool,
    /// iterator paths: `finish_instr()` is called on the iterator right after the injection (the
    /// instruction's mode is reset; what was injected stays)
    #[serde(default)]
    pub finish: bool,
}

#[derive(Clone, Debug, Serialize, Deserialize)]
pub struct Case {
    pub program: Program,
    pub plan: Vec<Inj>,
    pub api: Api,
}

fn code_of(i: &Inj) -> Vec<Operator<'static>> {
    let mut v = vec![];
    if i.drop_first {
        v.push(Operator::Drop);
    }
    v.push(Operator::I32Const { value: i.c });
    v.push(Operator::Drop);
    v
}

/// wrap a core module into a component (for the component-iterator paths)
fn wrap_component(module: &[u8]) -> Vec<u8> {
    let mut c = wasm_encoder::Component::new();
    c.section(&wasm_encoder::RawSection { id: 1, data: module });
    c.finish()
}

/// extract the first core module of a component binary
fn first_module(comp: &[u8]) -> Option<Vec<u8>> {
    for p in wasmparser::Parser::new(0).parse_all(comp) {
        if let Ok(wasmparser::Payload::ModuleSection { unchecked_range, .. }) = p {
            return comp.get(unchecked_range).map(|b| b.to_vec());
        }
    }
    None
}

/// Apply the plan to MAIN (function 2) through the given API path and encode.
/// Ok(bytes) | Err(panic): the panic tells where (apply or encode) through its message prefix.
pub fn apply_and_encode(bytes: &[u8], plan: &[Inj], api: Api, encodes: usize) -> Result<Vec<Vec<u8>>, (bool, PanicInfo)> {
    let f = F_MAIN;
    let comp_bytes = if api.is_comp() { wrap_component(bytes) } else { vec![] };
    let mut applied = false;
    let r = catch(|| {
        let mut module_holder: Option<Module> = None;
        let mut comp_holder: Option<Component> = None;
        if api.is_comp() {
            comp_holder = Some(Component::parse(&comp_bytes, false).expect("harness: wrapped component parses"));
        } else {
            module_holder = Some(Module::parse(bytes, false).expect("harness: generated program parses"));
        }
        for inj in plan {
            let code = code_of(inj);
            let func_level = matches!(inj.mode, SMode::FuncEntry | SMode::FuncExit);
            let want = if func_level { 0 } else { inj.at };
            macro_rules! with_iter {
                ($it:ident, $loc:expr, $body:block) => {{
                    loop {
                        let here = match $it.curr_loc().0 {
                            Location::Module { func_idx, instr_idx } => (*func_idx, instr_idx),
                            Location::Component { func_idx, instr_idx, .. } => (*func_idx, instr_idx),
                        };
                        if here == (f, want) {
                            break;
                        }
                        if $it.next().is_none() {
                            panic!("harness: iterator never reached function {} instruction {}", f, want);
                        }
                    }
                    $body
                }};
            }
            macro_rules! set_mode_here {
                ($it:ident) => {
                    match inj.mode {
                        SMode::Before => {
                            $it.before();
                        }
                        SMode::After => {
                            $it.after();
                        }
                        SMode::Alternate => {
                            $it.alternate();
                        }
                        SMode::EmptyAlternate => {
                            $it.empty_alternate();
                        }
                        SMode::BlockAlt => {
                            $it.block_alt();
                        }
                        SMode::EmptyBlockAlt => {
                            $it.empty_block_alt();
                        }
                        SMode::SemanticAfter => {
                            $it.semantic_after();
                        }
                        SMode::BlockEntry => {
                            $it.block_entry();
                        }
                        SMode::BlockExit => {
                            $it.block_exit();
                        }
                        SMode::FuncEntry => {
                            $it.func_entry();
                        }
                        SMode::FuncExit => {
                            $it.func_exit();
                        }
                    }
                };
            }
            macro_rules! set_mode_at {
                ($x:ident, $loc:expr) => {
                    match inj.mode {
                        SMode::Before => {
                            $x.before_at($loc);
                        }
                        SMode::After => {
                            $x.after_at($loc);
                        }
                        SMode::Alternate => {
                            $x.alternate_at($loc);
                        }
                        SMode::EmptyAlternate => {
                            $x.empty_alternate_at($loc);
                        }
                        SMode::BlockAlt => {
                            $x.block_alt_at($loc);
                        }
                        SMode::EmptyBlockAlt => {
                            $x.empty_block_alt_at($loc);
                        }
                        SMode::SemanticAfter => {
                            $x.semantic_after_at($loc);
                        }
                        SMode::BlockEntry => {
                            $x.block_entry_at($loc);
                        }
                        SMode::BlockExit => {
                            $x.block_exit_at($loc);
                        }
                        SMode::FuncEntry => {
                            $x.func_entry();
                        }
                        SMode::FuncExit => {
                            $x.func_exit();
                        }
                    }
                };
            }
            let empty = matches!(inj.mode, SMode::EmptyAlternate | SMode::EmptyBlockAlt);
            match api {
                Api::IterMode | Api::IterInjectAt | Api::IterAddInstrAt => {
                    let module = module_holder.as_mut().unwrap();
                    let mut it = ModuleIterator::new(module, &vec![]);
                    let loc = Location::Module { func_idx: FunctionID(f), instr_idx: inj.at };
                    match api {
                        Api::IterMode => with_iter!(it, loc, {
                            set_mode_here!(it);
                            if !empty {
                                for op in code {
                                    it.inject(op);
                                }
                            }
                        }),
                        Api::IterInjectAt => with_iter!(it, loc, {
                            // the iterator only has to stand in the function
                            match inj.mode.imode() {
                                Some(m) if !func_level => {
                                    for op in code {
                                        it.inject_at(inj.at, m, op);
                                    }
                                }
                                _ => {
                                    set_mode_here!(it);
                                    if !empty {
                                        for op in code {
                                            it.inject(op);
                                        }
                                    }
                                }
                            }
                        }),
                        _ => {
                            // position-independent: *_at(loc) + add_instr_at(loc, op)
                            if func_level {
                                with_iter!(it, loc, {
                                    set_mode_here!(it);
                                    for op in code {
                                        it.inject(op);
                                    }
                                })
                            } else {
                                set_mode_at!(it, loc);
                                if !empty {
                                    for op in code {
                                        it.add_instr_at(loc, op);
                                    }
                                }
                            }
                        }
                    }
                    if inj.finish {
                        it.finish_instr();
                    }
                }
                Api::ModAt | Api::ModInjectAt | Api::ModAddInstrAt => {
                    let module = module_holder.as_mut().unwrap();
                    let mut fm = module.functions.get_fn_modifier(FunctionID(f)).expect("harness: local function");
                    let loc = Location::Module { func_idx: FunctionID(f), instr_idx: inj.at };
                    match api {
                        Api::ModAt => {
                            set_mode_at!(fm, loc);
                            if !empty {
                                for op in code {
                                    fm.inject(op);
                                }
                            }
                        }
                        Api::ModInjectAt => match inj.mode.imode() {
                            Some(m) if !func_level => {
                                for op in code {
                                    fm.inject_at(inj.at, m, op);
                                }
                            }
                            _ => {
                                set_mode_at!(fm, loc);
                                if !empty {
                                    for op in code {
                                        fm.inject(op);
                                    }
                                }
                            }
                        },
                        _ => {
                            set_mode_at!(fm, loc);
                            if !empty {
                                if func_level {
                                    for op in code {
                                        fm.inject(op);
                                    }
                                } else {
                                    for op in code {
                                        fm.add_instr_at(loc, op);
                                    }
                                }
                            }
                        }
                    }
                    fm.finish_instr();
                }
                Api::CompMode | Api::CompInjectAt | Api::CompAddInstrAt => {
                    let comp = comp_holder.as_mut().unwrap();
                    let mut it = ComponentIterator::new(comp, HashMap::new());
                    let loc = Location::Component { mod_idx: ModuleID(0), func_idx: FunctionID(f), instr_idx: inj.at };
                    match api {
                        Api::CompMode => with_iter!(it, loc, {
                            set_mode_here!(it);
                            if !empty {
                                for op in code {
                                    it.inject(op);
                                }
                            }
                        }),
                        Api::CompInjectAt => with_iter!(it, loc, {
                            match inj.mode.imode() {
                                Some(m) if !func_level => {
                                    for op in code {
                                        it.inject_at(inj.at, m, op);
                                    }
                                }
                                _ => {
                                    set_mode_here!(it);
                                    if !empty {
                                        for op in code {
                                            it.inject(op);
                                        }
                                    }
                                }
                            }
                        }),
                        _ => {
                            if func_level {
                                with_iter!(it, loc, {
                                    set_mode_here!(it);
                                    for op in code {
                                        it.inject(op);
                                    }
                                })
                            } else {
                                set_mode_at!(it, loc);
                                if !empty {
                                    for op in code {
                                        it.add_instr_at(loc, op);
                                    }
                                }
                            }
                        }
                    }
                    if inj.finish {
                        it.finish_instr();
                    }
                }
            }
            if inj.encode_after {
                if let Some(c) = comp_holder.as_mut() {
                    let _ = c.encode();
                } else {
                    let _ = module_holder.as_mut().unwrap().encode();
                }
            }
            // withdraw what was injected in this mode at this instruction
            if inj.retract {
                if let Some(m) = inj.mode.imode() {
                    match api {
                        Api::IterMode | Api::IterInjectAt | Api::IterAddInstrAt => {
                            let module = module_holder.as_mut().unwrap();
                            let mut it = ModuleIterator::new(module, &vec![]);
                            it.clear_instr_at(Location::Module { func_idx: FunctionID(f), instr_idx: inj.at }, m);
                        }
                        Api::ModAt | Api::ModInjectAt | Api::ModAddInstrAt => {
                            let module = module_holder.as_mut().unwrap();
                            let mut fm = module.functions.get_fn_modifier(FunctionID(f)).expect("harness: local function");
                            fm.clear_instr_at(Location::Module { func_idx: FunctionID(f), instr_idx: inj.at }, m);
                        }
                        _ => {
                            let comp = comp_holder.as_mut().unwrap();
                            let mut it = ComponentIterator::new(comp, HashMap::new());
                            it.clear_instr_at(Location::Component { mod_idx: ModuleID(0), func_idx: FunctionID(f), instr_idx: inj.at }, m);
                        }
                    }
                }
            }
        }
        applied = true;
        let mut outs = vec![];
        for _ in 0..encodes {
            if let Some(c) = comp_holder.as_mut() {
                let cb = c.encode();
                outs.push(first_module(&cb).expect("harness: encoded component contains its module"));
            } else {
                outs.push(module_holder.as_mut().unwrap().encode());
            }
        }
        outs
    });
    r.map_err(|p| (applied, p))
}

fn ops_of(bytes: &[u8], func: usize) -> Result<Vec<String>, String> {
    // an alternate on a structural instruction yields an unbalanced body that wasmparser's
    // operator reader refuses as a whole: decode operator by operator instead
    Ok(lenient_ops(&op_bytes_of(bytes, func)?))
}

/// The lowering model (E4): expected operator list of the instrumented function.
fn expected_ops(orig: &IFunc, plan: &[Inj]) -> Vec<String> {
    const NONE: usize = usize::MAX;
    let n = orig.ops.len();
    let mut before: Vec<Vec<String>> = vec![vec![]; n];
    let mut after: Vec<Vec<String>> = vec![vec![]; n];
    let mut alt: Vec<Option<Vec<String>>> = vec![None; n];
    let mut deleted = vec![false; n];
    let mut replacement: Vec<Vec<String>> = vec![vec![]; n];
    let code = |i: &Inj| -> Vec<String> { code_of(i).iter().map(|o| format!("{:?}", o)).collect() };
    // block alternates first: outermost wins, instrumentation inside a removed region vanishes
    let mut balts: Vec<&Inj> = plan.iter().filter(|i| matches!(i.mode, SMode::BlockAlt | SMode::EmptyBlockAlt)).collect();
    balts.sort_by_key(|i| i.at);
    let mut region_opened: Vec<bool> = vec![false; n];
    for i in balts {
        if deleted[i.at] {
            continue;
        }
        let (from, to_excl) = match &orig.ops[i.at] {
            Operator::Else => (i.at, orig.end_of[i.at]),
            _ => (i.at, orig.end_of[i.at] + 1),
        };
        if orig.end_of[i.at] == NONE {
            continue;
        }
        if !region_opened[i.at] {
            for d in deleted.iter_mut().take(to_excl).skip(from) {
                *d = true;
            }
            region_opened[i.at] = true;
        }
        if i.mode == SMode::BlockAlt {
            replacement[i.at].extend(code(i));
        }
    }
    for i in plan {
        match i.mode {
            SMode::Before => before[i.at].extend(code(i)),
            SMode::After => after[i.at].extend(code(i)),
            SMode::Alternate => alt[i.at].get_or_insert_with(Vec::new).extend(code(i)),
            SMode::EmptyAlternate => alt[i.at] = Some(vec![]),
            _ => {}
        }
        if i.retract {
            // everything injected so far in this mode at this instruction is withdrawn
            match i.mode {
                SMode::Before => before[i.at].clear(),
                SMode::After => after[i.at].clear(),
                SMode::Alternate => alt[i.at] = None,
                _ => {}
            }
        }
    }
    let mut out = vec![];
    for i in 0..n {
        if deleted[i] {
            if region_opened[i] {
                out.extend(replacement[i].iter().cloned());
            }
            continue;
        }
        let last = i == n - 1;
        out.extend(before[i].iter().cloned());
        match (&alt[i], last) {
            (Some(a), false) => out.extend(a.iter().cloned()),
            _ => out.push(format!("{:?}", orig.ops[i])),
        }
        if !last {
            out.extend(after[i].iter().cloned());
        }
    }
    out
}

/// the raw bytes of the operators of local function `func` (after the local declarations)
fn op_bytes_of(bytes: &[u8], func: usize) -> Result<Vec<u8>, String> {
    let mut idx = 0usize;
    for p in wasmparser::Parser::new(0).parse_all(bytes) {
        if let Ok(wasmparser::Payload::CodeSectionEntry(body)) = p {
            if idx == func {
                let r = body.get_operators_reader().map_err(|e| e.to_string())?;
                return Ok(bytes[r.original_position()..body.range().end].to_vec());
            }
            idx += 1;
        }
    }
    Err("function missing".into())
}

/// encode an operator list with wasm-encoder (independent of wirm's encoder path for whole bodies)
fn encode_ops(ops: &[Operator<'static>]) -> Result<Vec<u8>, String> {
    use wasm_encoder::reencode::{Reencode, RoundtripReencoder};
    use wasm_encoder::Encode;
    let mut out = vec![];
    for op in ops {
        RoundtripReencoder.instruction(op.clone()).map_err(|e| e.to_string())?.encode(&mut out);
    }
    Ok(out)
}

/// decode a string of operator bytes one operator at a time, ignoring block structure
fn lenient_ops(bytes: &[u8]) -> Vec<String> {
    let mut out = vec![];
    let mut pos = 0usize;
    while pos < bytes.len() {
        // a fresh reader per operator, primed with enough openers that `else`/`end` are accepted
        let mut buf = vec![0x02, 0x40, 0x04, 0x40];
        buf.extend_from_slice(&bytes[pos..]);
        let mut r = wasmparser::OperatorsReader::new(wasmparser::BinaryReader::new(&buf, 0));
        let _ = r.read();
        // after `block; if` both `else` and `end` are structurally fine
        let _ = r.read();
        let before = r.original_position();
        match r.read() {
            Ok(op) => {
                out.push(format!("{:?}", op));
                let used = r.original_position() - before;
                if used == 0 {
                    break;
                }
                pos += used;
            }
            Err(e) => {
                out.push(format!("<undecodable {:02x?}: {}>", &bytes[pos..], e));
                break;
            }
        }
    }
    out
}

fn role_at(roles: &[Role], i: usize) -> &'static str {
    roles.get(i).map(|r| r.name()).unwrap_or("?")
}

fn first_diff(a: &[String], b: &[String]) -> String {
    let n = a.len().min(b.len());
    let mut i = 0;
    while i < n && a[i] == b[i] {
        i += 1;
    }
    format!("first difference at output index {}: expected {:?}, got {:?} (expected {} ops, got {})", i, a.get(i), b.get(i), a.len(), b.len())
}

/// judge one (program, plan, api) statically
pub fn judge(case: &Case, validate_output: bool) -> Result<(Vec<Mismatch>, u64), String> {
    let em = emit(&case.program);
    let orig = load(&em.bytes).map_err(|e| format!("{:?}", e))?;
    let mut out = vec![];
    let desc = |i: &Inj| format!("{}@{}", i.mode.name(), role_at(&em.roles[0], i.at));
    let mut descs: Vec<String> = case.plan.iter().map(desc).collect();
    descs.sort();
    let enc = match apply_and_encode(&em.bytes, &case.plan, case.api, 1) {
        Ok(v) => v.into_iter().next().unwrap(),
        Err((applied, p)) => {
            if p.msg.starts_with("harness:") {
                return Err(p.msg);
            }
            out.push(Mismatch::new(format!("panic {} {} [{}] via {}", if applied { "encode" } else { "inject" }, p.site(), descs.join(", "), case.api.name()), format!("{} at {}:{}", p.msg, p.file, p.line)));
            return Ok((out, 0));
        }
    };
    let got = ops_of(&enc, 0)?;
    let want = expected_ops(&orig.funcs[0], &case.plan);
    if got != want {
        out.push(Mismatch::new(format!("lowering [{}] via {}", descs.join(", "), case.api.name()), first_diff(&want, &got)));
    }
    // the other function is untouched
    let callee_before = ops_of(&em.bytes, 1)?;
    let callee_after = ops_of(&enc, 1)?;
    if callee_before != callee_after {
        out.push(Mismatch::new(format!("other-function-changed via {}", case.api.name()), first_diff(&callee_before, &callee_after)));
    }
    // removing an `if` without replacement leaves its condition operand behind: validity of that is
    // the caller's business, not the library's
    let removes_if_without_replacement = case.plan.iter().any(|i| i.mode == SMode::EmptyBlockAlt && matches!(em.roles[0].get(i.at), Some(Role::If)));
    if validate_output && !removes_if_without_replacement {
        if let Err(e) = validate(&enc, features_core()) {
            let msg = match e.find(" (at offset") {
                Some(i) => e[..i].to_string(),
                None => e.clone(),
            };
            let masked: String = msg.chars().map(|c| if c.is_ascii_digit() { '#' } else { c }).take(50).collect();
            out.push(Mismatch::new(format!("invalid-output {} [{}]", masked, descs.join(", ")), e));
        }
    }
    Ok((out, hash_of(&enc)))
}

fn grammar_all(n: usize, d: usize) -> Grammar {
    use Leaf::*;
    Grammar { max_nodes: n, max_depth: d, leaves: vec![Mark, Nop, Br, BrIf, BrTable, Ret, Unr, Call, GSet], blocks: true, loops: true, ifs: true, else_arms: true, conds: vec![Cond::A], results: 0 }
}

fn program_list(gr: &Grammar) -> Vec<Program> {
    enumerate(gr).into_iter().map(|b| Program { results: gr.results, main: b, callee: vec![Stmt::Mark] }).collect()
}

fn run_cases_static(run: &mut Run, family: &str, cases: Vec<Case>, validate_output: bool) {
    let results: Vec<Result<(Vec<Mismatch>, u64), String>> = cases
        .par_iter()
        .map(|c| match catch(|| judge(c, validate_output)) {
            Ok(r) => r,
            Err(p) => Err(format!("harness panic: {} at {}:{}", p.msg, p.file, p.line)),
        })
        .collect();
    for (c, r) in cases.iter().zip(results) {
        match r {
            Err(e) => run.machinery_error(format!("{}: {}", family, e)),
            Ok((ms, h)) => {
                run.add_observed(h);
                let em = emit(&c.program);
                let mut class: Vec<String> = c.plan.iter().map(|i| format!("{}@{}", i.mode.name(), role_at(&em.roles[0], i.at))).collect();
                class.sort();
                run.add_class(family, &format!("{}|{}", class.join("+"), c.api.name()));
                for m in ms {
                    run.add_mismatch(family, json!(c), m.sig, m.detail, 1);
                }
            }
        }
    }
    run.add_evaluations(family, cases.len() as u64);
    if let Some(c) = cases.get(cases.len() / 2) {
        run.add_sample(json!({"family": family, "case": c}));
    }
}

// ---------------------------------------------------------------------------------------------
// C15
// ---------------------------------------------------------------------------------------------
fn c15_plans(n_ops: usize, p: usize) -> Vec<Vec<Inj>> {
    let modes = [SMode::Before, SMode::After, SMode::Alternate, SMode::EmptyAlternate];
    let mut sites = vec![];
    for at in 0..n_ops {
        for m in modes {
            sites.push((at, m));
        }
    }
    let mk = |k: usize, s: &(usize, SMode)| Inj { at: s.0, mode: s.1, c: 0x7100 + k as i32, drop_first: false, retract: false, encode_after: false, finish: false };
    let compatible = |a: &(usize, SMode), b: &(usize, SMode)| -> bool {
        // alternate and removal on one site: a removal that comes LAST leaves nothing of the replacement
        // requested before it (the caller's last word is "remove"; `empty_alternate` is documented as
        // injecting an empty alternate) - that order is judged. A removal followed by alternate code is
        // not enumerated: the text does not say whether the removal is sticky. Plans list their
        // injections in (site, mode) order with alternate before removal, so only the judged order arises.
        !(a.0 == b.0 && a.1 == SMode::EmptyAlternate && b.1 == SMode::Alternate)
    };
    let mut out = vec![];
    for (i, a) in sites.iter().enumerate() {
        out.push(vec![mk(0, a)]);
        if p >= 2 {
            for (j, b) in sites.iter().enumerate().skip(i) {
                if !compatible(a, b) {
                    continue;
                }
                out.push(vec![mk(0, a), mk(1, b)]);
                if p >= 3 {
                    for c in sites.iter().skip(j) {
                        if compatible(a, c) && compatible(b, c) {
                            out.push(vec![mk(0, a), mk(1, b), mk(2, c)]);
                        }
                    }
                }
            }
        }
    }
    out
}

pub fn check_c15(tier: Tier) -> i32 {
    let mut run = Run::new("C15", tier, "exploration");
    let gr = grammar_all(tier.pick(2, 3), 2);
    let progs = program_list(&gr);
    let p = tier.pick(2, 2);
    run.rule = format!(
        "ALL function bodies of the statement grammar with <= {} nodes / nesting <= 2 ({} programs covering every instruction kind incl. else, inner end and the final end) x ALL plans of <= {} injections over (instruction, mode) with mode in {{before, after, alternate, empty alternate}} (two injections on the same site and mode included, an alternate followed by a removal included; every plan also with one of its injections retracted again through clear_instr_at, and every plan also with the iterator's finish_instr() called after each injection while it stands on the site; thorough adds all plans of 3 injections on the programs with <= 2 nodes) x 9 API paths (module iterator, function modifier, component iterator; each through mode()+inject, inject_at and *_at+add_instr_at; quick rotates the path over the plans, thorough runs every path on every plan without a retraction). Oracle: the decoded instruction list of the function equals, instruction by instruction, before ++ (alternate | instruction) ++ after, with only before-code at the final end; the other function is unchanged. Non-trivial class = (multiset of (mode, instruction role), API path).",
        gr.max_nodes,
        progs.len(),
        p
    );
    let mut cases = vec![];
    let mut finished = vec![];
    for (pi, prog) in progs.iter().enumerate() {
        let em = emit(prog);
        let n_ops = em.roles[0].len();
        let mut plans = c15_plans(n_ops, p);
        // retraction: one injection of the plan is followed by clear_instr_at(site, mode) - the plan then
        // lowers as if the code injected so far in that mode at that site had never been injected
        let mut retracted = vec![];
        for pl in plans.iter() {
            for r in 0..pl.len() {
                if matches!(pl[r].mode, SMode::Before | SMode::After | SMode::Alternate) {
                    let mut p2 = pl.clone();
                    p2[r].retract = true;
                    retracted.push(p2);
                }
            }
        }
        let n_plain = plans.len();
        // finished: the iterator's finish_instr() follows every injection while it still stands on the
        // site (the mode is reset, the injected code stays) - iterator paths only
        for (k, pl) in plans.iter().enumerate() {
            let mut p2 = pl.clone();
            for i in p2.iter_mut() {
                i.finish = true;
            }
            let apis = [Api::IterMode, Api::CompMode, Api::IterInjectAt, Api::CompInjectAt];
            if tier == Tier::Thorough {
                for api in apis {
                    finished.push(Case { program: prog.clone(), plan: p2.clone(), api });
                }
            } else {
                finished.push(Case { program: prog.clone(), plan: p2, api: apis[(pi + k) % apis.len()] });
            }
        }
        plans.extend(retracted);
        for (k, plan) in plans.into_iter().enumerate() {
            // thorough: every path on every plain plan; the retracted variants rotate the path
            if tier == Tier::Thorough && k < n_plain {
                for api in ALL_APIS {
                    cases.push(Case { program: prog.clone(), plan: plan.clone(), api });
                }
            } else {
                cases.push(Case { program: prog.clone(), plan, api: ALL_APIS[(pi + k) % ALL_APIS.len()] });
            }
        }
    }
    run_cases_static(&mut run, "before/after/alternate plans", cases, false);
    run_cases_static(&mut run, "plans with finish_instr after every injection", finished, false);
    if tier == Tier::Thorough {
        let small = program_list(&grammar_all(2, 2));
        let mut cases = vec![];
        for (pi, prog) in small.iter().enumerate() {
            let n_ops = emit(prog).roles[0].len();
            for (k, plan) in c15_plans(n_ops, 3).into_iter().filter(|pl| pl.len() == 3).enumerate() {
                cases.push(Case { program: prog.clone(), plan, api: ALL_APIS[(pi + k) % ALL_APIS.len()] });
            }
        }
        run_cases_static(&mut run, "three injections, small programs", cases, false);
    }
    run.assumptions.push("a removal followed by alternate code on one site is not enumerated (the property does not say whether a removal is sticky); an alternate followed by a removal is judged as a removal".into());
    run.finish()
}

// ---------------------------------------------------------------------------------------------
// C21
// ---------------------------------------------------------------------------------------------
fn c21_cases(tier: Tier) -> Vec<Case> {
    use Leaf::*;
    let gr = Grammar { max_nodes: tier.pick(3, 4), max_depth: 3, leaves: vec![Mark, Nop, BrIf], blocks: true, loops: true, ifs: true, else_arms: true, conds: vec![Cond::A], results: 0 };
    let progs = program_list(&gr);
    let mut cases = vec![];
    for (pi, prog) in progs.iter().enumerate() {
        let em = emit(prog);
        let roles = &em.roles[0];
        let openers: Vec<usize> = roles.iter().enumerate().filter(|(_, r)| matches!(r, Role::Block | Role::Loop | Role::If | Role::Else)).map(|(i, _)| i).collect();
        if openers.is_empty() {
            continue;
        }
        let m = match load(&em.bytes) {
            Ok(m) => m,
            Err(_) => continue,
        };
        let f = &m.funcs[0];
        let mk = |k: usize, at: usize, empty: bool| Inj { at, mode: if empty { SMode::EmptyBlockAlt } else { SMode::BlockAlt }, c: 0x7200 + k as i32, drop_first: matches!(roles[at], Role::If), retract: false, encode_after: false, finish: false };
        let region = |at: usize| -> (usize, usize) {
            match roles[at] {
                Role::Else => (at, f.end_of[at]),
                // a replaced `if` also concerns its condition operand, which stays
                _ => (at, f.end_of[at] + 1),
            }
        };
        let mut plans: Vec<Vec<Inj>> = vec![];
        for (i, a) in openers.iter().enumerate() {
            for ea in [false, true] {
                plans.push(vec![mk(0, *a, ea)]);
                for b in openers.iter().skip(i + 1) {
                    for eb in [false, true] {
                        plans.push(vec![mk(0, *a, ea), mk(1, *b, eb)]);
                    }
                }
            }
        }
        // plus one before/after probe outside the replaced regions
        let mut with_probe = vec![];
        for pl in plans.iter() {
            let regions: Vec<(usize, usize)> = pl.iter().map(|i| region(i.at)).collect();
            for at in 0..roles.len() {
                // the if's condition operand and the opener itself are left alone
                if regions.iter().any(|(s, e)| at >= *s && at < *e) || matches!(roles[at], Role::Aux) {
                    continue;
                }
                for mode in [SMode::Before, SMode::After] {
                    if mode == SMode::After && at == roles.len() - 1 {
                        continue;
                    }
                    let mut p2 = pl.clone();
                    p2.push(Inj { at, mode, c: 0x7300, drop_first: false, retract: false, encode_after: false, finish: false });
                    with_probe.push(p2);
                }
            }
        }
        // two alternates requested in two rounds: the later-listed (inner / later) one first, an encoding,
        // then the other one - the final encoding must be what both requested together give
        let two_rounds: Vec<Vec<Inj>> = plans
            .iter()
            .filter(|pl| pl.len() == 2)
            .map(|pl| {
                let mut first = pl[1].clone();
                first.encode_after = true;
                vec![first, pl[0].clone()]
            })
            .collect();
        // the same with the ordinary probe injected BEFORE the block alternates (order of API calls)
        let reordered: Vec<Vec<Inj>> = with_probe
            .iter()
            .map(|pl| {
                let mut p2 = pl.clone();
                let last = p2.pop().unwrap();
                p2.insert(0, last);
                p2
            })
            .collect();
        // plus one probe of any mode on an instruction strictly INSIDE a replaced region: it goes away with
        // the region ("removes the construct from its opening instruction through its matching end")
        let mut with_inner = vec![];
        for pl in plans.iter() {
            let regions: Vec<(usize, usize)> = pl.iter().map(|i| region(i.at)).collect();
            for at in 0..roles.len() {
                if !regions.iter().any(|(s, e)| at > *s && at < *e) || matches!(roles[at], Role::Aux) {
                    continue;
                }
                // special modes only: a body that is gone is never entered, left or passed (C18-C20), so
                // their code must not survive; what becomes of plain before/after code attached to a
                // removed instruction is not specified (the library keeps it) and is not judged
                let blockish = matches!(roles[at], Role::Block | Role::Loop | Role::If | Role::Else);
                let mut modes = vec![];
                if blockish {
                    modes.extend([SMode::BlockEntry, SMode::BlockExit]);
                    if !matches!(roles[at], Role::Loop) {
                        modes.push(SMode::SemanticAfter);
                    }
                }
                for mode in modes {
                    for first in [false, true] {
                        let mut p2 = pl.clone();
                        let probe = Inj { at, mode, c: 0x7301, drop_first: false, retract: false, encode_after: false, finish: false };
                        if first {
                            p2.insert(0, probe);
                        } else {
                            p2.push(probe);
                        }
                        with_inner.push(p2);
                    }
                }
            }
        }
        for (k, plan) in plans.into_iter().chain(with_probe.into_iter()).chain(reordered.into_iter()).chain(with_inner.into_iter()).chain(two_rounds.into_iter()).enumerate() {
            let api = [Api::IterMode, Api::ModAt, Api::CompMode, Api::IterAddInstrAt, Api::IterInjectAt][(pi + k) % 5];
            cases.push(Case { program: prog.clone(), plan, api });
        }
    }
    cases
}

/// C21, special-mode probes OUTSIDE the replaced region ("all other instructions and their
/// instrumentation are unaffected"): the function lowered with the probes alone (list A) and with the
/// probes plus ONE block alternate (list B) must differ by exactly the replacement: B = A with the
/// construct's instructions [opener ..= matching end] (else: [else .. end)) cut out and the replacement
/// code in their place. How the probes themselves lower is C16-C20's business; here only that the
/// replacement leaves it alone.
pub fn judge_c21_outside(case: &Case) -> Result<(Vec<Mismatch>, u64), String> {
    let em = emit(&case.program);
    let orig = load(&em.bytes).map_err(|e| format!("{:?}", e))?;
    let f = &orig.funcs[0];
    let alt = case.plan.iter().find(|i| matches!(i.mode, SMode::BlockAlt | SMode::EmptyBlockAlt)).ok_or("no block alternate in the plan")?;
    let probes: Vec<Inj> = case.plan.iter().filter(|i| !matches!(i.mode, SMode::BlockAlt | SMode::EmptyBlockAlt)).cloned().collect();
    let desc = |i: &Inj| format!("{}@{}", i.mode.name(), role_at(&em.roles[0], i.at));
    let mut descs: Vec<String> = case.plan.iter().map(desc).collect();
    descs.sort();
    let mut out = vec![];
    let enc = |plan: &[Inj]| -> Result<Option<Vec<u8>>, String> {
        match apply_and_encode(&em.bytes, plan, case.api, 1) {
            Ok(v) => Ok(v.into_iter().next()),
            Err((_, p)) if p.msg.starts_with("harness:") => Err(p.msg),
            Err(_) => Ok(None),
        }
    };
    // the probes alone: if the library refuses or fails on them, the replacement is not to blame
    let a_bytes = match enc(&probes)? {
        Some(b) => b,
        None => return Ok((out, 0)),
    };
    let b_bytes = match apply_and_encode(&em.bytes, &case.plan, case.api, 1) {
        Ok(v) => v.into_iter().next().unwrap(),
        Err((applied, p)) => {
            if p.msg.starts_with("harness:") {
                return Err(p.msg);
            }
            out.push(Mismatch::new(format!("panic {} {} [{}] via {}", if applied { "encode" } else { "inject" }, p.site(), descs.join(", "), case.api.name()), format!("{} at {}:{} (the same probes without the block alternate lower fine)", p.msg, p.file, p.line)));
            return Ok((out, 0));
        }
    };
    let a = ops_of(&a_bytes, 0)?;
    let b = ops_of(&b_bytes, 0)?;
    let r: Vec<String> = if alt.mode == SMode::BlockAlt { code_of(alt).iter().map(|o| format!("{:?}", o)).collect() } else { vec![] };
    let is_else = matches!(f.ops[alt.at], Operator::Else);
    let region: Vec<String> = if is_else { f.ops[alt.at..f.end_of[alt.at]].iter().map(|o| format!("{:?}", o)).collect() } else { f.ops[alt.at..=f.end_of[alt.at]].iter().map(|o| format!("{:?}", o)).collect() };
    // B = A[..p] ++ R ++ A[p + |region| ..] for a position p at which A holds the region
    let mut ok = false;
    if a.len() + r.len() == b.len() + region.len() {
        for p in 0..=a.len().saturating_sub(region.len()) {
            if a[p..p + region.len()] == region[..] && b.len() >= p + r.len() && a[..p] == b[..p] && b[p..p + r.len()] == r[..] && a[p + region.len()..] == b[p + r.len()..] {
                ok = true;
                break;
            }
        }
    }
    if !ok {
        let sig_modes: Vec<String> = probes.iter().map(desc).collect();
        out.push(Mismatch::new(
            format!("outside-instrumentation disturbed [{} of {}; {}] via {}", alt.mode.name(), role_at(&em.roles[0], alt.at), sig_modes.join(", "), case.api.name()),
            format!("with the probes alone the function is {:?}; with the block alternate added it is {:?}; expected the former with {:?} replaced by {:?}", a, b, region, r),
        ));
    }
    let removes_if_without_replacement = alt.mode == SMode::EmptyBlockAlt && matches!(em.roles[0].get(alt.at), Some(Role::If));
    if !removes_if_without_replacement && validate(&a_bytes, features_core()).is_ok() {
        if let Err(e) = validate(&b_bytes, features_core()) {
            out.push(Mismatch::new(format!("invalid-output with outside probes [{}]", descs.join(", ")), e));
        }
    }
    Ok((out, hash_of(&b_bytes)))
}

fn c21_outside_cases(tier: Tier) -> Vec<Case> {
    use Leaf::*;
    let gr = Grammar { max_nodes: tier.pick(3, 4), max_depth: 3, leaves: vec![Mark, Nop, BrIf], blocks: true, loops: true, ifs: true, else_arms: true, conds: vec![Cond::A], results: 0 };
    let progs = program_list(&gr);
    let mut cases = vec![];
    for (pi, prog) in progs.iter().enumerate() {
        let em = emit(prog);
        let roles = &em.roles[0];
        let m = match load(&em.bytes) {
            Ok(m) => m,
            Err(_) => continue,
        };
        let f = &m.funcs[0];
        let openers: Vec<usize> = roles.iter().enumerate().filter(|(_, r)| matches!(r, Role::Block | Role::Loop | Role::If | Role::Else)).map(|(i, _)| i).collect();
        let mut k = 0usize;
        for at in openers.iter().copied() {
            let (s, e) = match roles[at] {
                Role::Else => (at, f.end_of[at]),
                _ => (at, f.end_of[at] + 1),
            };
            for empty in [false, true] {
                let alt = Inj { at, mode: if empty { SMode::EmptyBlockAlt } else { SMode::BlockAlt }, c: 0x7200, drop_first: matches!(roles[at], Role::If), retract: false, encode_after: false, finish: false };
                // every special-mode probe on an instruction outside the region (enclosing constructs and
                // the `if` of a replaced `else` included)
                let mut probes: Vec<(usize, SMode)> = vec![(0, SMode::FuncEntry), (0, SMode::FuncExit)];
                for q in 0..roles.len() {
                    if q >= s && q < e {
                        continue;
                    }
                    match roles[q] {
                        Role::Block | Role::If | Role::Else => probes.extend([(q, SMode::BlockEntry), (q, SMode::BlockExit), (q, SMode::SemanticAfter)]),
                        Role::Loop => probes.extend([(q, SMode::BlockEntry), (q, SMode::BlockExit)]),
                        Role::BrIf | Role::Br | Role::BrTable if !super::instr::branch_targets_loop_pub(f, q) => probes.push((q, SMode::SemanticAfter)),
                        _ => {}
                    }
                }
                for (q, mode) in probes {
                    let probe = Inj { at: q, mode, c: 0x7302, drop_first: false, retract: false, encode_after: false, finish: false };
                    for alt_first in [false, true] {
                        // a function-level mode stays selected on the function (documented protocol:
                        // function-level injections are made last)
                        if !alt_first && matches!(mode, SMode::FuncEntry | SMode::FuncExit) {
                            continue;
                        }
                        let plan = if alt_first { vec![alt.clone(), probe.clone()] } else { vec![probe.clone(), alt.clone()] };
                        let api = [Api::IterMode, Api::ModAt, Api::CompMode, Api::IterAddInstrAt, Api::ModInjectAt][(pi + k) % 5];
                        k += 1;
                        cases.push(Case { program: prog.clone(), plan, api });
                    }
                }
            }
        }
    }
    cases
}

pub fn check_c21(tier: Tier) -> i32 {
    let mut run = Run::new("C21", tier, "exploration");
    let cases = c21_cases(tier);
    run.rule = format!(
        "ALL function bodies with <= {} nodes / nesting <= 3 over block, loop, if, if-else, mark, nop, br_if x ALL plans of 1 or 2 block-alternates (non-empty `[drop;] i32.const c; drop` / empty) on block, loop, if, else openers - nested and sequential - plus every placement of one before/after probe outside the replaced regions (injected after and, separately, before the block alternates), plus every placement of one special-mode probe (block-entry, block-exit, semantic-after) on a construct strictly inside a replaced region (a body that is gone is never entered, left or passed: the probe must vanish with the region), plus every plan of two alternates made in two rounds with an encoding in between, rotated over 5 API paths; plus ONE block alternate together with ONE special-mode probe (block-entry, block-exit, semantic-after on block/if/else and on branches that do not target a loop, function entry, function exit) on every instruction OUTSIDE the replaced region - enclosing constructs and the `if` of a replaced `else` included - in both call orders: the function lowered with the probe and the alternate must be the function lowered with the probe alone, with the construct's own instructions cut out and the replacement in their place. Oracle: an independent matcher deletes [opener ..= matching end] (else: [else .. end)) and inserts the replacement at the opener's place (outermost replacement wins for nested ones); the decoded instruction list must equal that, and the output must validate (a replaced `if` consumes its condition with `drop`).",
        tier.pick(3, 4)
    );
    run_cases_static(&mut run, "block alternates", cases, true);
    {
        let cases = c21_outside_cases(tier);
        let family = "block alternate with a special-mode probe outside";
        let results: Vec<Result<(Vec<Mismatch>, u64), String>> = cases
            .par_iter()
            .map(|c| match catch(|| judge_c21_outside(c)) {
                Ok(r) => r,
                Err(p) => Err(format!("harness panic: {} at {}:{}", p.msg, p.file, p.line)),
            })
            .collect();
        for (c, r) in cases.iter().zip(results) {
            match r {
                Err(e) => run.machinery_error(format!("{}: {}", family, e)),
                Ok((ms, h)) => {
                    run.add_observed(h);
                    let em = emit(&c.program);
                    let mut class: Vec<String> = c.plan.iter().map(|i| format!("{}@{}", i.mode.name(), role_at(&em.roles[0], i.at))).collect();
                    class.sort();
                    run.add_class(family, &format!("{}|{}", class.join("+"), c.api.name()));
                    for m in ms {
                        run.add_mismatch(family, json!(c), m.sig, m.detail, 1);
                    }
                }
            }
        }
        run.add_evaluations(family, cases.len() as u64);
        if let Some(c) = cases.get(cases.len() / 2) {
            run.add_sample(json!({"family": family, "case": c}));
        }
    }
    run.assumptions.push("no probe is placed on the opener of a replaced construct (the property does not say what happens to it); special-mode probes on constructs strictly inside a replaced region must vanish with it; plain before/after code attached to removed instructions is not judged (unspecified; the library keeps it); semantic-after probes on branches inside a region are not placed (their flag code may legitimately live outside the region)".into());
    run.finish()
}

// ---------------------------------------------------------------------------------------------
// C22
// ---------------------------------------------------------------------------------------------
#[derive(Clone, Debug, Serialize, Deserialize)]
pub struct C22Case {
    pub program: Program,
    pub inj: Inj,
    pub api: Api,
}

fn judge_c22(c: &C22Case) -> Result<(Vec<Mismatch>, String, u64, bool), String> {
    let em = emit(&c.program);
    let role = role_at(&em.roles[0], c.inj.at);
    let mut where_ = if matches!(c.inj.mode, SMode::FuncEntry | SMode::FuncExit) { "function".to_string() } else { role.to_string() };
    // for branches: the kinds of label they target
    if let Ok(m) = load(&em.bytes) {
        let f = &m.funcs[0];
        let mut stack: Vec<usize> = vec![];
        for (i, op) in f.ops.iter().enumerate().take(c.inj.at) {
            match op {
                Operator::Block { .. } | Operator::Loop { .. } | Operator::If { .. } => stack.push(i),
                Operator::End => {
                    stack.pop();
                }
                _ => {}
            }
        }
        let kind = |d: u32| -> &'static str {
            let d = d as usize;
            if d >= stack.len() {
                "fn-label"
            } else {
                match f.ops[stack[stack.len() - 1 - d]] {
                    Operator::Loop { .. } => "loop",
                    Operator::If { .. } => "if",
                    _ => "block",
                }
            }
        };
        let mut kinds: Vec<&'static str> = match f.ops.get(c.inj.at) {
            Some(Operator::Br { relative_depth }) | Some(Operator::BrIf { relative_depth }) if !matches!(em.roles[0].get(c.inj.at), Some(Role::Aux)) => vec![kind(*relative_depth)],
            Some(Operator::BrTable { targets }) => {
                let mut v: Vec<&'static str> = targets.targets().map(|t| kind(t.unwrap_or(0))).collect();
                v.push(kind(targets.default()));
                v
            }
            _ => vec![],
        };
        kinds.sort();
        kinds.dedup();
        if !kinds.is_empty() && !matches!(c.inj.mode, SMode::FuncEntry | SMode::FuncExit) {
            where_.push_str(&format!("->{}", kinds.join("+")));
        }
    }
    let class = format!("{}|{}|{}", c.inj.mode.name(), c.api.name(), where_);
    let _ = take_logs();
    let r = apply_and_encode(&em.bytes, std::slice::from_ref(&c.inj), c.api, 1);
    let logs = take_logs();
    let bug_logged = logs.iter().any(|l| l.contains("BUG:"));
    match r {
        // rejected at the call, or encoding failed loudly: both are allowed
        Err((_applied, p)) => {
            if p.msg.starts_with("harness:") {
                return Err(p.msg);
            }
            Ok((vec![], class, hash_of(&("rejected", p.site())), false))
        }
        Ok(outs) => {
            let enc = &outs[0];
            let got = ops_of(enc, 0)?;
            let orig = ops_of(&em.bytes, 0)?;
            let needle = format!("I32Const {{ value: {} }}", c.inj.c);
            let reflected = if c.inj.mode == SMode::EmptyBlockAlt { got.len() < orig.len() } else { got.iter().any(|o| *o == needle) };
            let mut ms = vec![];
            if !reflected {
                ms.push(Mismatch::new(
                    format!("silently-lost {} on {} via {}", c.inj.mode.name(), where_, c.api.name()),
                    format!("the injection was accepted and encoding succeeded, but the encoded function does not contain it{}", if bug_logged { " (the library logged a 'BUG: ... should be resolved already' error)" } else { "" }),
                ));
            }
            Ok((ms, class, hash_of(enc), reflected))
        }
    }
}

/// what the other call of a C22 call sequence is, relative to the judged injection (constant 0x7400)
fn describe_seq(plan: &[Inj]) -> String {
    let pos = plan.iter().position(|i| i.c == 0x7400).unwrap_or(0);
    let first = &plan[pos];
    match plan.iter().find(|i| i.c != 0x7400) {
        Some(o) if o.retract && o.c == 0x7404 => "followed by a withdrawn before probe elsewhere".to_string(),
        Some(o) if o.retract => "followed by a withdrawn injection of the same mode elsewhere".to_string(),
        Some(o) if o.mode != SMode::Before => format!("{} by {} elsewhere", if pos == 0 { "followed" } else { "preceded" }, o.mode.name()),
        Some(o) => {
            let func_level = matches!(first.mode, SMode::FuncEntry | SMode::FuncExit);
            let same = if o.at == first.at && !func_level { "same instruction" } else { "another instruction" };
            format!("{} by before on {}", if pos == 0 { "followed" } else { "preceded" }, same)
        }
        None => "alone".to_string(),
    }
}

/// a call sequence around one special-mode injection (constant 0x7400): it must still be reflected
fn judge_c22_seq(case: &Case) -> Result<Option<Mismatch>, String> {
    let em = emit(&case.program);
    let what = describe_seq(&case.plan);
    match catch(|| apply_and_encode(&em.bytes, &case.plan, case.api, 1)) {
        Err(p) => Err(format!("harness panic {}", p.msg)),
        Ok(Err((_applied, p))) => {
            if p.msg.starts_with("harness:") {
                Err(p.msg)
            } else {
                Ok(None) // rejected at a call or loud encode failure
            }
        }
        Ok(Ok(outs)) => {
            let got = ops_of(&outs[0], 0)?;
            let needle = format!("I32Const {{ value: {} }}", 0x7400);
            if got.iter().any(|o| *o == needle) {
                Ok(None)
            } else {
                let first = case.plan.iter().find(|i| i.c == 0x7400).ok_or("no judged injection in the plan")?;
                let role = role_at(&em.roles[0], first.at);
                let where_ = if matches!(first.mode, SMode::FuncEntry | SMode::FuncExit) { "function".to_string() } else { role.to_string() };
                Ok(Some(Mismatch::new(
                    format!("silently-lost {} on {} via {} when {}", first.mode.name(), where_, case.api.name(), what),
                    "the injection is reflected when made alone, but absent from the encoded function in this call sequence".to_string(),
                )))
            }
        }
    }
}

// ---- C22: special modes on functions that the API itself created ------------------------------
#[derive(Clone, Debug, Serialize, Deserialize)]
pub struct C22NewFn {
    /// 0 = function that replaced the FIRST of two imported functions (replace_import_in_module),
    /// 1 = function that replaced the LAST import, 2 = function added with finish_module,
    /// 3 = a parsed local function of the same shape (control)
    pub kind: u8,
    pub mode: SMode,
    /// 0 = function modifier *_at + inject, 1 = function modifier inject_at, 2 = module iterator mode() + inject
    pub api: u8,
}

const C22_NEWFN_BASE: &str = r#"(module
  (import "e" "a" (func $a)) (import "e" "b" (func $b))
  (func $l (block (nop)) (i32.const 0x5F01) (drop) (call $a) (call $b))
  (export "l" (func $l)))"#;

fn c22_newfn_encode(c: &C22NewFn, inject: bool) -> Result<Vec<u8>, PanicInfo> {
    use wirm::ir::function::FunctionBuilder;
    use wirm::opcode::Opcode;
    let bytes = wat::parse_str(C22_NEWFN_BASE).expect("harness: base assembles");
    catch(|| {
        let mut module = Module::parse(&bytes, false).expect("harness: base parses");
        let mut fb = FunctionBuilder::new(&[], &[]);
        fb.block(wirm::ir::types::BlockType::Empty);
        fb.nop();
        fb.end();
        fb.i32_const(0x5F02);
        fb.drop();
        let fid = match c.kind {
            0 | 1 => {
                let name = if c.kind == 0 { "a" } else { "b" };
                let imp = module.imports.find("e".to_string(), name.to_string()).expect("library: imports.find does not find a live import");
                fb.replace_import_in_module(&mut module, imp);
                FunctionID(c.kind as u32)
            }
            2 => fb.finish_module(&mut module),
            _ => FunctionID(2),
        };
        if inject {
            let func_level = matches!(c.mode, SMode::FuncEntry | SMode::FuncExit);
            let empty = c.mode == SMode::EmptyBlockAlt;
            let code = [Operator::I32Const { value: 0x7400 }, Operator::Drop];
            let loc = Location::Module { func_idx: fid, instr_idx: 0 };
            if c.api == 2 {
                let mut it = ModuleIterator::new(&mut module, &vec![]);
                loop {
                    if let Location::Module { func_idx, instr_idx } = it.curr_loc().0 {
                        if func_idx == fid && instr_idx == 0 {
                            break;
                        }
                    }
                    if it.next().is_none() {
                        panic!("library: the module iterator never visits function {}", *fid);
                    }
                }
                match c.mode {
                    SMode::SemanticAfter => { it.semantic_after(); }
                    SMode::BlockEntry => { it.block_entry(); }
                    SMode::BlockExit => { it.block_exit(); }
                    SMode::BlockAlt => { it.block_alt(); }
                    SMode::EmptyBlockAlt => { it.empty_block_alt(); }
                    SMode::FuncEntry => { it.func_entry(); }
                    _ => { it.func_exit(); }
                }
                if !empty {
                    for op in code {
                        it.inject(op);
                    }
                }
            } else {
                let mut fm = module.functions.get_fn_modifier(fid).expect("library: get_fn_modifier refuses a function the API created");
                let via_inject_at = c.api == 1 && !func_level && !empty;
                if via_inject_at {
                    for op in code {
                        fm.inject_at(0, c.mode.imode().unwrap(), op);
                    }
                } else {
                    match c.mode {
                        SMode::SemanticAfter => { fm.semantic_after_at(loc); }
                        SMode::BlockEntry => { fm.block_entry_at(loc); }
                        SMode::BlockExit => { fm.block_exit_at(loc); }
                        SMode::BlockAlt => { fm.block_alt_at(loc); }
                        SMode::EmptyBlockAlt => { fm.empty_block_alt_at(loc); }
                        SMode::FuncEntry => { fm.func_entry(); }
                        _ => { fm.func_exit(); }
                    }
                    if !empty {
                        for op in code {
                            fm.inject(op);
                        }
                    }
                }
                fm.finish_instr();
            }
        }
        module.encode()
    })
}

fn all_ops(bytes: &[u8]) -> Vec<String> {
    let mut out = vec![];
    let mut i = 0;
    while let Ok(v) = ops_of(bytes, i) {
        out.extend(v);
        i += 1;
    }
    out
}

pub fn judge_c22_newfn(c: &C22NewFn) -> Result<Option<Mismatch>, String> {
    let plain = match c22_newfn_encode(c, false) {
        Ok(b) => b,
        Err(p) => return if p.msg.starts_with("harness:") { Err(p.msg) } else { Ok(None) },
    };
    let kind = ["function that replaced the first import", "function that replaced the last import", "function added with finish_module", "parsed local function"][c.kind as usize % 4];
    let api = ["function-modifier *_at+inject", "function-modifier inject_at", "module-iterator mode()+inject"][c.api as usize % 3];
    match c22_newfn_encode(c, true) {
        Err(p) => {
            if p.msg.starts_with("harness:") {
                Err(p.msg)
            } else {
                Ok(None) // rejected at the call, or a loud failure
            }
        }
        Ok(enc) => {
            let got = all_ops(&enc);
            let reflected = if c.mode == SMode::EmptyBlockAlt {
                got.iter().filter(|o| o.as_str() == "Nop").count() < all_ops(&plain).iter().filter(|o| o.as_str() == "Nop").count()
            } else {
                got.iter().any(|o| o == "I32Const { value: 29696 }")
            };
            if reflected {
                Ok(None)
            } else {
                Ok(Some(Mismatch::new(format!("silently-lost {} on a {} via {}", c.mode.name(), kind, api), "the injection was accepted and encoding succeeded, but no function of the encoded module contains it".to_string())))
            }
        }
    }
}

pub fn check_c22(tier: Tier) -> i32 {
    let mut run = Run::new("C22", tier, "exploration");
    // covering programs: every instruction kind the special modes distinguish
    let covering: Vec<Vec<Stmt>> = vec![
        vec![Stmt::Block(vec![Stmt::Mark, Stmt::Br(0)]), Stmt::Loop(vec![Stmt::BrIf(Cond::Ctr, 0)]), Stmt::If(Cond::A, vec![Stmt::Mark], Some(vec![Stmt::Nop])), Stmt::Mark],
        vec![Stmt::Block(vec![Stmt::BrIf(Cond::A, 1), Stmt::BrTable(Cond::A, vec![0], 1)]), Stmt::If(Cond::B, vec![Stmt::Br(1)], None)],
        vec![Stmt::Block(vec![Stmt::Block(vec![Stmt::BrTable(Cond::A, vec![0, 1], 2)])]), Stmt::Ret],
    ];
    let modes = [SMode::SemanticAfter, SMode::BlockEntry, SMode::BlockExit, SMode::BlockAlt, SMode::EmptyBlockAlt, SMode::FuncEntry, SMode::FuncExit];
    let mut cases = vec![];
    for body in covering.iter() {
        let prog = Program { results: 0, main: body.clone(), callee: vec![Stmt::Mark] };
        let em = emit(&prog);
        let roles = &em.roles[0];
        for mode in modes {
            for api in ALL_APIS {
                if matches!(mode, SMode::FuncEntry | SMode::FuncExit) {
                    cases.push(C22Case { program: prog.clone(), inj: Inj { at: 0, mode, c: 0x7400, drop_first: false, retract: false, encode_after: false, finish: false }, api });
                    continue;
                }
                // one site per distinct instruction role (+ every site in the thorough tier)
                let mut seen: std::collections::BTreeSet<String> = std::collections::BTreeSet::new();
                for (at, r) in roles.iter().enumerate() {
                    // (every instruction in both tiers: the space is tiny)
                    let _ = (&mut seen, tier);
                    cases.push(C22Case { program: prog.clone(), inj: Inj { at, mode, c: 0x7400, drop_first: matches!(r, Role::If) && mode == SMode::BlockAlt, retract: false, encode_after: false, finish: false }, api });
                }
            }
        }
    }
    run.rule = format!(
        "complete product: {{semantic-after, block-entry, block-exit, block-alt, empty-block-alt, func-entry, func-exit}} x 9 API paths (module iterator / function modifier / component iterator, each through mode()+inject, inject_at and *_at+add_instr_at) x every instruction role (thorough: every instruction) of 3 covering programs (block, loop, if, else, br, br_if, br_table to block / function label, plain instructions, inner ends, final end). Oracle: the call panics (= rejected at the call) or encoding fails loudly or the probe's unique constant occurs in the encoded function (empty-block-alt: the construct is gone); accepted-then-absent is the violation. {} cases. Call sequences: each reflected injection followed / preceded by a before probe (same and another instruction), by a second special-mode injection of any mode elsewhere, followed by a withdrawn injection of the same mode elsewhere and by a withdrawn before probe elsewhere (clear_instr_at). API-created functions: the 7 modes x 3 paths on a function that replaced the first / the last of two imports (replace_import_in_module), on a function added with finish_module, and on a parsed function of the same shape.",
        cases.len()
    );
    let results: Vec<Result<(Vec<Mismatch>, String, u64, bool), String>> = cases.iter().map(|c| match catch(|| judge_c22(c)) { Ok(r) => r, Err(p) => Err(format!("harness panic {}", p.msg)) }).collect();
    let mut rejected = 0u64;
    let mut single_ok: Vec<bool> = vec![];
    for (c, r) in cases.iter().zip(results) {
        single_ok.push(matches!(&r, Ok((_, _, _, true))));
        match r {
            Err(e) => run.machinery_error(e),
            Ok((ms, class, h, _)) => {
                run.add_observed(h);
                run.add_class("special modes", &class);
                if ms.is_empty() && h == hash_of(&("rejected", "")) {
                    rejected += 1;
                }
                for m in ms {
                    run.add_mismatch("special modes", json!(c), m.sig, m.detail, 1);
                }
            }
        }
    }
    let _ = rejected;
    // ---- sequences: a special-mode injection together with another API call on the same function -----
    // (a) an ordinary `before` probe injected after / before it (same API path), at another instruction
    //     and at the same instruction; (b) a second special injection of the same mode elsewhere that is
    //     withdrawn again with clear_instr_at. The first injection must still be reflected. Only
    //     injections that are reflected when made alone are used (the others are judged above).
    {
        let reflected_alone: std::collections::HashSet<(usize, String, usize, String)> = cases
            .iter()
            .zip(single_ok.iter())
            .filter(|(_, ok)| **ok)
            .map(|(c, _)| (covering.iter().position(|b| *b == c.program.main).unwrap_or(0), c.inj.mode.name().to_string(), c.inj.at, c.api.name().to_string()))
            .collect();
        let mut seqs: Vec<(Case, i32, String)> = vec![];
        for c in cases.iter() {
            let pi = covering.iter().position(|b| *b == c.program.main).unwrap_or(0);
            if !reflected_alone.contains(&(pi, c.inj.mode.name().to_string(), c.inj.at, c.api.name().to_string())) {
                continue;
            }
            if matches!(c.inj.mode, SMode::EmptyBlockAlt) {
                continue; // carries no marker constant
            }
            let em = emit(&c.program);
            let roles = &em.roles[0];
            let func_level = matches!(c.inj.mode, SMode::FuncEntry | SMode::FuncExit);
            let plain = roles.iter().position(|r| matches!(r, Role::MarkConst)).unwrap_or(0);
            let mut seconds = vec![plain];
            if !func_level && c.inj.at != plain {
                seconds.push(c.inj.at);
            }
            for at2 in seconds {
                let o = Inj { at: at2, mode: SMode::Before, c: 0x7401, drop_first: false, retract: false, encode_after: false, finish: false };
                let same = if at2 == c.inj.at && !func_level { "same instruction" } else { "another instruction" };
                seqs.push((Case { program: c.program.clone(), plan: vec![c.inj.clone(), o.clone()], api: c.api }, c.inj.c, format!("followed by before on {}", same)));
                seqs.push((Case { program: c.program.clone(), plan: vec![o, c.inj.clone()], api: c.api }, c.inj.c, format!("preceded by before on {}", same)));
            }
            // (c) a second special-mode injection of ANY mode elsewhere on the function, before or after it.
            //     Not judged where the other one legitimately removes it: a block alternate whose region
            //     (opener through matching end) contains the judged injection's instruction.
            if let Ok(m) = load(&em.bytes) {
                let fdec = &m.funcs[0];
                for mode2 in [SMode::SemanticAfter, SMode::BlockEntry, SMode::BlockExit, SMode::BlockAlt, SMode::EmptyBlockAlt, SMode::FuncEntry, SMode::FuncExit] {
                    let fl2 = matches!(mode2, SMode::FuncEntry | SMode::FuncExit);
                    let sites2: Vec<usize> = if fl2 { vec![0] } else { (0..roles.len()).collect() };
                    for at2 in sites2 {
                        if !reflected_alone.contains(&(pi, mode2.name().to_string(), at2, c.api.name().to_string())) {
                            continue;
                        }
                        if !fl2 && !func_level && at2 == c.inj.at {
                            continue;
                        }
                        if mode2 == c.inj.mode && (fl2 || at2 < c.inj.at) {
                            continue; // symmetric duplicates / two bodies of one function-level mode
                        }
                        if matches!(mode2, SMode::BlockAlt | SMode::EmptyBlockAlt) && !func_level {
                            let end = fdec.end_of.get(at2).copied().unwrap_or(usize::MAX);
                            if end != usize::MAX && c.inj.at >= at2 && c.inj.at <= end {
                                continue;
                            }
                        }
                        let o = Inj { at: at2, mode: mode2, c: 0x7403, drop_first: matches!(roles[at2], Role::If) && mode2 == SMode::BlockAlt, retract: false, encode_after: false, finish: false };
                        seqs.push((Case { program: c.program.clone(), plan: vec![c.inj.clone(), o.clone()], api: c.api }, c.inj.c, String::new()));
                        seqs.push((Case { program: c.program.clone(), plan: vec![o, c.inj.clone()], api: c.api }, c.inj.c, String::new()));
                    }
                }
            }
            // (d) followed by an ordinary `before` probe on another instruction that is withdrawn again with
            //     clear_instr_at(loc, Before): taking an unrelated probe back must not take this one along
            if func_level || c.inj.at != plain {
                let w = Inj { at: plain, mode: SMode::Before, c: 0x7404, drop_first: false, retract: true, encode_after: false, finish: false };
                seqs.push((Case { program: c.program.clone(), plan: vec![c.inj.clone(), w], api: c.api }, c.inj.c, "followed by a withdrawn before probe elsewhere".to_string()));
            }
            if !func_level {
                for (at2, r2) in roles.iter().enumerate() {
                    if at2 == c.inj.at || !reflected_alone.contains(&(pi, c.inj.mode.name().to_string(), at2, c.api.name().to_string())) {
                        continue;
                    }
                    let w = Inj { at: at2, mode: c.inj.mode, c: 0x7402, drop_first: matches!(r2, Role::If) && c.inj.mode == SMode::BlockAlt, retract: true, encode_after: false, finish: false };
                    seqs.push((Case { program: c.program.clone(), plan: vec![c.inj.clone(), w], api: c.api }, c.inj.c, "followed by a withdrawn injection of the same mode elsewhere".to_string()));
                }
            }
        }
        let judged: Vec<Result<Option<Mismatch>, String>> = seqs.par_iter().map(|(case, _, _)| judge_c22_seq(case)).collect();
        for ((case, _, _), r) in seqs.iter().zip(judged) {
            let what = describe_seq(&case.plan);
            match r {
                Err(e) => run.machinery_error(e),
                Ok(m) => {
                    let first_mode = case.plan.iter().find(|i| i.c == 0x7400).map(|i| i.mode.name()).unwrap_or("?");
                    run.add_class("special modes in call sequences", &format!("{}|{}|{}", first_mode, case.api.name(), what));
                    if let Some(m) = m {
                        run.add_mismatch("special modes in call sequences", json!(case), m.sig, m.detail, 1);
                    }
                }
            }
        }
        run.add_evaluations("special modes in call sequences", seqs.len() as u64);
    }
    {
        let mut nf = vec![];
        for kind in 0..4u8 {
            for mode in modes {
                for api in 0..3u8 {
                    nf.push(C22NewFn { kind, mode, api });
                }
            }
        }
        for c in nf.iter() {
            run.add_class("special modes on API-created functions", &format!("{}|{}|{}", c.kind, c.mode.name(), c.api));
            match judge_c22_newfn(c) {
                Err(e) => run.machinery_error(e),
                Ok(Some(m)) => run.add_mismatch("special modes on API-created functions", json!(c), m.sig, m.detail, 1),
                Ok(None) => {}
            }
        }
        run.add_evaluations("special modes on API-created functions", nf.len() as u64);
    }
    run.add_evaluations("special modes x api paths x instruction kinds", cases.len() as u64);
    if let Some(c) = cases.get(cases.len() / 3) {
        run.add_sample(json!(c));
    }
    run.finish()
}

// ---------------------------------------------------------------------------------------------
// C05, plan family
// ---------------------------------------------------------------------------------------------
/// every instrumentation plan of a small family encoded three times in a row
pub fn reencode_family(run: &mut Run, tier: Tier) {
    let gr = grammar_all(tier.pick(2, 3), 2);
    let progs = program_list(&gr);
    let modes = [SMode::Before, SMode::After, SMode::Alternate, SMode::EmptyAlternate, SMode::SemanticAfter, SMode::BlockEntry, SMode::BlockExit, SMode::BlockAlt, SMode::EmptyBlockAlt, SMode::FuncEntry, SMode::FuncExit];
    let mut cases: Vec<Case> = vec![];
    for (pi, prog) in progs.iter().enumerate() {
        let em = emit(prog);
        let roles = &em.roles[0];
        let mut singles: Vec<Inj> = vec![];
        for mode in modes {
            for (at, r) in roles.iter().enumerate() {
                let ok = match mode {
                    SMode::Before | SMode::Alternate | SMode::EmptyAlternate => true,
                    SMode::After => at + 1 < roles.len(),
                    SMode::BlockEntry | SMode::BlockExit | SMode::BlockAlt | SMode::EmptyBlockAlt => matches!(r, Role::Block | Role::Loop | Role::If | Role::Else),
                    SMode::SemanticAfter => matches!(r, Role::Block | Role::If | Role::Else | Role::Br | Role::BrIf | Role::BrTable),
                    SMode::FuncEntry | SMode::FuncExit => at == 0,
                };
                if ok {
                    singles.push(Inj { at, mode, c: 0x7500, drop_first: matches!(r, Role::If) && mode == SMode::BlockAlt, retract: false, encode_after: false, finish: false });
                }
            }
        }
        for (k, a) in singles.iter().enumerate() {
            cases.push(Case { program: prog.clone(), plan: vec![a.clone()], api: [Api::IterMode, Api::ModAt][(pi + a.at) % 2] });
            // every ordered pair in which at least one injection is a special mode (pairs of plain
            // before/after/alternate injections are C15's, whose model covers their re-encoding trivially)
            for (l, b) in singles.iter().enumerate() {
                if k == l {
                    continue;
                }
                let special = |m: SMode| !matches!(m, SMode::Before | SMode::After | SMode::Alternate | SMode::EmptyAlternate);
                if !special(a.mode) && !special(b.mode) {
                    continue;
                }
                let mut b2 = b.clone();
                b2.c = 0x7501;
                cases.push(Case { program: prog.clone(), plan: vec![a.clone(), b2], api: [Api::IterMode, Api::ModAt][(pi + k + l) % 2] });
            }
        }
    }
    let results: Vec<Option<(String, String)>> = cases
        .par_iter()
        .map(|c| {
            let em = emit(&c.program);
            let what = {
                let mut v: Vec<String> = c.plan.iter().map(|i| format!("{}@{}", i.mode.name(), role_at(&em.roles[0], i.at))).collect();
                v.sort();
                v.join("+")
            };
            match apply_and_encode(&em.bytes, &c.plan, c.api, 3) {
                Err((applied, p)) => {
                    if applied && !p.msg.starts_with("harness:") {
                        // the first encoding may fail loudly (not C05's business); a LATER one failing
                        // after the first succeeded is
                        match apply_and_encode(&em.bytes, &c.plan, c.api, 1) {
                            Ok(_) => Some((format!("reencode panic plan {}", what), format!("the first encoding succeeds, a later one panics: {}", p.msg))),
                            Err(_) => None,
                        }
                    } else {
                        None
                    }
                }
                Ok(outs) => {
                    if outs[0] != outs[1] || outs[1] != outs[2] {
                        Some((format!("reencode differs plan {}", what), format!("encodings have {} / {} / {} bytes", outs[0].len(), outs[1].len(), outs[2].len())))
                    } else {
                        None
                    }
                }
            }
        })
        .collect();
    for (c, r) in cases.iter().zip(results) {
        let mut ms: Vec<&str> = c.plan.iter().map(|i| i.mode.name()).collect();
        ms.sort();
        run.add_class("plans", &ms.join("+"));
        if let Some((sig, detail)) = r {
            run.add_mismatch("instrumentation plans x 3 encodings", json!(c), sig, detail, 1);
        }
    }
    run.add_evaluations("instrumentation plans x 3 encodings", cases.len() as u64);
}

pub fn replay(id: &str, family: &str, case: &serde_json::Value) -> Vec<Mismatch> {
    if id == "C22" {
        if case.get("kind").is_some() {
            return match serde_json::from_value::<C22NewFn>(case.clone()) {
                Ok(c) => match judge_c22_newfn(&c) {
                    Ok(m) => m.into_iter().collect(),
                    Err(e) => vec![Mismatch::new("machinery", e)],
                },
                Err(e) => vec![Mismatch::new("replay-case-unreadable", e.to_string())],
            };
        }
        if case.get("plan").is_some() {
            let c: Case = match serde_json::from_value(case.clone()) {
                Ok(c) => c,
                Err(e) => return vec![Mismatch::new("replay-case-unreadable", e.to_string())],
            };
            return match judge_c22_seq(&c) {
                Ok(m) => m.into_iter().collect(),
                Err(e) => vec![Mismatch::new("machinery", e)],
            };
        }
        let c: C22Case = match serde_json::from_value(case.clone()) {
            Ok(c) => c,
            Err(e) => return vec![Mismatch::new("replay-case-unreadable", e.to_string())],
        };
        return match judge_c22(&c) {
            Ok((ms, _, _, _)) => ms,
            Err(e) => vec![Mismatch::new("machinery", e)],
        };
    }
    let c: Case = match serde_json::from_value(case.clone()) {
        Ok(c) => c,
        Err(e) => return vec![Mismatch::new("replay-case-unreadable", e.to_string())],
    };
    if id == "C05" {
        let em = emit(&c.program);
        return match apply_and_encode(&em.bytes, &c.plan, c.api, 3) {
            Ok(outs) if outs[0] != outs[1] || outs[1] != outs[2] => vec![Mismatch::new("reencode differs", "")],
            _ => vec![],
        };
    }
    if id == "C21" && family == "block alternate with a special-mode probe outside" {
        return match judge_c21_outside(&c) {
            Ok((ms, _)) => ms,
            Err(e) => vec![Mismatch::new("machinery", e)],
        };
    }
    match judge(&c, id == "C21") {
        Ok((ms, _)) => ms,
        Err(e) => vec![Mismatch::new("machinery", e)],
    }
}
