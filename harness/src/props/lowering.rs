//! C15/C21/C22 (static lowering model) — plan explorer. (under construction)
use crate::engine::*;

/// C05's second family: every instrumentation plan encoded three times.
pub fn reencode_family(_run: &mut Run, _tier: Tier) {}
