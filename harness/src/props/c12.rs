//! C12 — Built functions appear exactly as built.
//!
//! A function is built with `FunctionBuilder::new(params, results)` + `add_local` + helper calls
//! (+ `set_name`) + `finish_module`, on a base module, with at most one other edit before and one after
//! (add an imported function, add another built function, delete an unreferenced local function).
//! The returned FunctionID is exported as "probe" (`exports.add_export_func`), so "the returned ID refers
//! to it" is observed through the library's own remapping.
//! Oracle (output decoded with wasmparser only): the output validates; exactly one function body starts
//! with the identity token `i32.const 0x5F10; drop`; the export "probe" designates that function; its type
//! has exactly the requested params/results; its expanded locals are the declared ones in order; its
//! operator list is token ++ built ++ result constants ++ exactly one `end` (a `call` target is resolved by
//! the callee's own token / import name, never by index); the name section carries the set name at its
//! index (unset: no entry at its index).
//! Case space: history axes (base, edit before, edit after, name set?) as a FULL product; content axes
//! (signature: all (params, results) with <= 2 entries each over 7 types; locals: all lists <= 3 over 4
//! types; body: all sequences up to the bound over 5 stack-neutral helpers) deviation-bounded around the
//! base content ([i32] -> [i32], no locals, empty body): quick = history product x (<= 1 content deviation);
//! thorough = that with longer bodies + (<= 1 history deviation) x (<= 2 content deviations). Hence quick
//! contains every single deviation and thorough every pair of deviations over all seven axes.
use crate::engine::*;
use crate::wasmutil;
use serde::{Deserialize, Serialize};
use std::collections::BTreeSet;
use wasmparser::Operator;
use wirm::ir::function::FunctionBuilder;
use wirm::ir::id::{FunctionID, LocalID};
use wirm::ir::module::module_types::{AbstractHeapType, HeapType};
use wirm::ir::types::BlockType;
use wirm::module_builder::AddLocal;
use wirm::opcode::{Inject, Opcode};
use wirm::{DataType, Module};

const TOKEN: i32 = 0x5F10;
const TOKEN_AUX_BEFORE: i32 = 0x5F20;
const TOKEN_AUX_AFTER: i32 = 0x5F21;
const TOKEN_L0: i32 = 0x5F00;

#[derive(Serialize, Deserialize, Clone, Debug, PartialEq, Eq, Hash)]
struct Case {
    base: String,
    /// "none" | "import" | "built" | "delete" | "delete-import"
    before: String,
    after: String,
    name: Option<String>,
    /// value types by their text: i32 i64 f32 f64 v128 funcref externref
    params: Vec<String>,
    results: Vec<String>,
    locals: Vec<String>,
    /// "nop" | "const" | "lget" | "block" | "call"
    body: Vec<String>,
    /// the base module sits in a component and the function is finished with `finish_component(comp, 0)`
    #[serde(default)]
    via_component: bool,
}

const TYPES7: [&str; 7] = ["i32", "i64", "f32", "f64", "v128", "funcref", "externref"];
const LOCAL_TYPES: [&str; 4] = ["i32", "i64", "v128", "externref"];
const BODY_OPS: [&str; 5] = ["nop", "const", "lget", "block", "call"];
const EDITS: [&str; 5] = ["none", "import", "built", "delete", "delete-import"];

fn dt(t: &str) -> DataType {
    match t {
        "i32" => DataType::I32,
        "i64" => DataType::I64,
        "f32" => DataType::F32,
        "f64" => DataType::F64,
        "v128" => DataType::V128,
        "funcref" => DataType::FuncRefNull,
        "externref" => DataType::ExternRefNull,
        _ => panic!("harness: unknown type {}", t),
    }
}

// ---------------------------------------------------------------------------------------------
// bases (wat). Local functions carry identity tokens. B2 has a name section.
// ---------------------------------------------------------------------------------------------
struct Base {
    name: &'static str,
    wat: &'static str,
    /// FunctionID (index in the parsed module) of a function of type [] -> [] that `call` may target,
    /// and how to recognise it in the output: Ok(token) for a local, Err(field) for an import
    call: Option<(u32, Result<i32, &'static str>)>,
    /// a local function nothing references
    delete: Option<u32>,
    /// an imported function nothing references
    delete_import: Option<u32>,
}
const BASES: [Base; 4] = [
    Base { name: "empty", wat: "(module)", call: None, delete: None, delete_import: None },
    Base {
        name: "2locals",
        wat: "(module (func i32.const 0x5F00 drop) (func i32.const 0x5F01 drop))",
        call: Some((0, Ok(TOKEN_L0))),
        delete: Some(1),
        delete_import: None,
    },
    Base {
        name: "2imports+2locals",
        wat: r#"(module (import "e" "i0" (func $i0)) (import "e" "i1" (func $i1 (param i32)))
                 (func $l0 i32.const 0x5F00 drop) (func $l1 i32.const 0x5F01 drop))"#,
        call: Some((2, Ok(TOKEN_L0))),
        delete: Some(3),
        delete_import: Some(1),
    },
    Base {
        name: "imports-only",
        wat: r#"(module (import "e" "i0" (func)) (import "e" "i1" (func (param i32))))"#,
        call: Some((0, Err("i0"))),
        delete: None,
        delete_import: Some(1),
    },
];
fn base(name: &str) -> Option<(&'static Base, &'static [u8])> {
    static B: std::sync::OnceLock<Vec<Vec<u8>>> = std::sync::OnceLock::new();
    let v = B.get_or_init(|| BASES.iter().map(|b| wat::parse_str(b.wat).expect("base wat")).collect());
    BASES.iter().position(|b| b.name == name).map(|i| (&BASES[i], v[i].as_slice()))
}

/// wasmparser's V128 has no public constructor: decode one from an encoded `v128.const`
fn v128_zero() -> wasmparser::V128 {
    let mut bytes = vec![0xfd, 0x0c];
    bytes.extend_from_slice(&[0u8; 16]);
    bytes[2] = 0x2A;
    let mut r = wasmparser::OperatorsReader::new(wasmparser::BinaryReader::new(&bytes, 0));
    match r.read() {
        Ok(Operator::V128Const { value }) => value,
        other => panic!("harness: cannot decode v128.const: {:?}", other),
    }
}

fn result_const(t: &str) -> Operator<'static> {
    match t {
        "i32" => Operator::I32Const { value: 11 },
        "i64" => Operator::I64Const { value: -12 },
        "f32" => Operator::F32Const { value: wasmparser::Ieee32::from(1.5f32) },
        "f64" => Operator::F64Const { value: wasmparser::Ieee64::from(-2.25f64) },
        "v128" => Operator::V128Const { value: v128_zero() },
        "funcref" => Operator::RefNull {
            hty: wasmparser::HeapType::Abstract { shared: false, ty: wasmparser::AbstractHeapType::Func },
        },
        "externref" => Operator::RefNull {
            hty: wasmparser::HeapType::Abstract { shared: false, ty: wasmparser::AbstractHeapType::Extern },
        },
        _ => panic!("harness: unknown type {}", t),
    }
}

fn emit_result_const(b: &mut FunctionBuilder, t: &str) {
    match t {
        "i32" => {
            b.i32_const(11);
        }
        "i64" => {
            b.i64_const(-12);
        }
        "f32" => {
            b.f32_const(1.5);
        }
        "f64" => {
            b.f64_const(-2.25);
        }
        "v128" => b.inject(Operator::V128Const { value: v128_zero() }),
        "funcref" => {
            b.ref_null(HeapType::Abstract { shared: false, ty: AbstractHeapType::Func });
        }
        "externref" => {
            b.ref_null(HeapType::Abstract { shared: false, ty: AbstractHeapType::Extern });
        }
        _ => panic!("harness: unknown type {}", t),
    }
}

fn apply_edit<'a>(m: &mut Module<'a>, b: &Base, which: &str, aux_token: i32) {
    match which {
        "none" => {}
        "import" => {
            let t = m.types.add_func_type(&[DataType::I64], &[], None);
            m.add_import_func("added".to_string(), "imp".to_string(), t);
        }
        "built" => {
            let mut fb = FunctionBuilder::new(&[], &[]);
            fb.i32_const(aux_token);
            fb.drop();
            fb.set_name("aux".to_string());
            fb.finish_module(m);
        }
        "delete" => {
            m.delete_func(FunctionID(b.delete.expect("harness: delete on a base without target")));
        }
        "delete-import" => {
            m.delete_func(FunctionID(b.delete_import.expect("harness: delete-import on a base without target")));
        }
        _ => panic!("harness: unknown edit {}", which),
    }
}

struct OutFn {
    index: u32,
    ty: Option<(Vec<String>, Vec<String>)>,
    locals: Vec<String>,
    ops: Vec<String>,
    /// (first i32.const value, second op is drop)
    token: Option<i32>,
}
struct OutView {
    funcs: Vec<OutFn>,
    import_funcs: Vec<String>,
    exports: Vec<(String, u32)>,
}

fn decode(out: &[u8]) -> Result<OutView, String> {
    use wasmparser::Payload as P;
    let mut types: Vec<Option<(Vec<String>, Vec<String>)>> = vec![];
    let mut import_funcs = vec![];
    let mut func_types: Vec<u32> = vec![];
    let mut exports = vec![];
    let mut funcs: Vec<OutFn> = vec![];
    for p in wasmparser::Parser::new(0).parse_all(out) {
        match p.map_err(|e| e.to_string())? {
            P::TypeSection(r) => {
                for g in r {
                    for st in g.map_err(|e| e.to_string())?.types() {
                        types.push(match &st.composite_type.inner {
                            wasmparser::CompositeInnerType::Func(f) => Some((
                                f.params().iter().map(|v| v.to_string()).collect(),
                                f.results().iter().map(|v| v.to_string()).collect(),
                            )),
                            _ => None,
                        });
                    }
                }
            }
            P::ImportSection(r) => {
                for i in r {
                    let i = i.map_err(|e| e.to_string())?;
                    if let wasmparser::TypeRef::Func(_) = i.ty {
                        import_funcs.push(i.name.to_string());
                    }
                }
            }
            P::FunctionSection(r) => {
                for t in r {
                    func_types.push(t.map_err(|e| e.to_string())?);
                }
            }
            P::ExportSection(r) => {
                for e in r {
                    let e = e.map_err(|e| e.to_string())?;
                    if e.kind == wasmparser::ExternalKind::Func {
                        exports.push((e.name.to_string(), e.index));
                    }
                }
            }
            P::CodeSectionEntry(body) => {
                let k = funcs.len();
                let mut locals = vec![];
                for l in body.get_locals_reader().map_err(|e| e.to_string())? {
                    let (n, t) = l.map_err(|e| e.to_string())?;
                    for _ in 0..n {
                        locals.push(t.to_string());
                    }
                }
                let mut ops = vec![];
                let mut token = None;
                let mut first: Option<i32> = None;
                for (i, op) in body.get_operators_reader().map_err(|e| e.to_string())?.into_iter().enumerate() {
                    let op = op.map_err(|e| e.to_string())?;
                    if i == 0 {
                        if let Operator::I32Const { value } = op {
                            first = Some(value);
                        }
                    }
                    if i == 1 {
                        if let (Some(v), Operator::Drop) = (first, &op) {
                            token = Some(v);
                        }
                    }
                    ops.push(format!("{:?}", op));
                }
                let ty = func_types.get(k).and_then(|t| types.get(*t as usize).cloned().flatten());
                funcs.push(OutFn { index: import_funcs.len() as u32 + k as u32, ty, locals, ops, token });
            }
            _ => {}
        }
    }
    Ok(OutView { funcs, import_funcs, exports })
}

fn runs_pattern(l: &[String]) -> String {
    // e.g. [i32,i32,i64] -> "aab"
    let mut seen: Vec<&String> = vec![];
    l.iter()
        .map(|t| {
            let i = match seen.iter().position(|s| *s == t) {
                Some(i) => i,
                None => {
                    seen.push(t);
                    seen.len() - 1
                }
            };
            (b'a' + i as u8) as char
        })
        .collect()
}

/// combinations that are not part of the space (the edit / helper has no target)
fn applicable(c: &Case) -> bool {
    let b = match base(&c.base) {
        Some((b, _)) => b,
        None => return false,
    };
    !((c.before == "delete" || c.after == "delete") && b.delete.is_none())
        && !(c.before == "delete" && c.after == "delete")
        && !((c.before == "delete-import" || c.after == "delete-import") && b.delete_import.is_none())
        && !(c.before == "delete-import" && c.after == "delete-import")
        && !(c.body.iter().any(|o| o == "call") && b.call.is_none())
        && !(c.body.iter().any(|o| o == "lget") && c.params.is_empty())
}

fn run_case(c: &Case) -> Outcome {
    let (b, bytes) = match base(&c.base) {
        Some(x) => x,
        None => return Outcome::skip("unknown base"),
    };
    // inapplicable combinations are not cases of the space
    if (c.before == "delete" || c.after == "delete") && b.delete.is_none() {
        return Outcome::skip("delete: base has no local function");
    }
    if c.before == "delete" && c.after == "delete" {
        return Outcome::skip("delete twice: only one unreferenced local function");
    }
    if ((c.before == "delete-import" || c.after == "delete-import") && b.delete_import.is_none()) || (c.before == "delete-import" && c.after == "delete-import") {
        return Outcome::skip("delete-import: no (second) unreferenced imported function");
    }
    if c.body.iter().any(|o| o == "call") && b.call.is_none() {
        return Outcome::skip("call: base has no function of type [] -> []");
    }
    if c.body.iter().any(|o| o == "lget") && c.params.is_empty() {
        return Outcome::skip("local.get: no parameter");
    }
    if let Err(e) = wasmutil::validate(bytes, wasmutil::features_core()) {
        return Outcome::skip(format!("base does not validate: {}", e));
    }
    let any = |l: &Vec<String>, t: &[&str]| l.iter().any(|x| t.contains(&x.as_str()));
    let mut o = Outcome::ok(format!(
        "{}:{}>{}:{}:sig{}/{}{}{}:loc-{}:body-{}",
        c.base,
        c.before,
        c.after,
        if c.name.is_some() { "named" } else { "anon" },
        c.params.len(),
        c.results.len(),
        if any(&c.params, &["funcref", "externref"]) || any(&c.results, &["funcref", "externref"]) { "+ref" } else { "" },
        if any(&c.params, &["v128"]) || any(&c.results, &["v128"]) { "+v128" } else { "" },
        runs_pattern(&c.locals),
        c.body.join(",")
    ));

    let res = catch(|| {
        let build = || {
            let params: Vec<DataType> = c.params.iter().map(|t| dt(t)).collect();
            let results: Vec<DataType> = c.results.iter().map(|t| dt(t)).collect();
            let mut fb = FunctionBuilder::new(&params, &results);
            for l in c.locals.iter() {
                fb.add_local(dt(l));
            }
            fb.i32_const(TOKEN);
            fb.drop();
            for op in c.body.iter() {
                match op.as_str() {
                    "nop" => {
                        fb.nop();
                    }
                    "const" => {
                        fb.i32_const(7);
                        fb.drop();
                    }
                    "lget" => {
                        fb.local_get(LocalID(0));
                        fb.drop();
                    }
                    "block" => {
                        fb.block(BlockType::Empty);
                        fb.end();
                    }
                    "call" => {
                        fb.call(FunctionID(b.call.unwrap().0));
                    }
                    _ => panic!("harness: unknown body op {}", op),
                }
            }
            for r in c.results.iter() {
                emit_result_const(&mut fb, r);
            }
            if let Some(n) = &c.name {
                fb.set_name(n.clone());
            }
            fb
        };
        if c.via_component {
            let mut wc = wasm_encoder::Component::new();
            wc.section(&wasm_encoder::RawSection { id: 1, data: bytes });
            let wrapped = wc.finish();
            let mut comp = wirm::Component::parse(&wrapped, false).expect("harness: wrapped base parses");
            apply_edit(&mut comp.modules[0], b, &c.before, TOKEN_AUX_BEFORE);
            let fb = build();
            let id = fb.finish_component(&mut comp, wirm::ir::id::ModuleID(0));
            comp.modules[0].exports.add_export_func("probe".to_string(), *id, None);
            apply_edit(&mut comp.modules[0], b, &c.after, TOKEN_AUX_AFTER);
            let enc = comp.encode();
            let mut first = None;
            for p in wasmparser::Parser::new(0).parse_all(&enc) {
                if let Ok(wasmparser::Payload::ModuleSection { unchecked_range, .. }) = p {
                    first = enc.get(unchecked_range).map(|x| x.to_vec());
                    break;
                }
            }
            return (*id, first.expect("library: the encoded component has lost its core module"));
        }
        let mut m = Module::parse(bytes, false).expect("base parses");
        apply_edit(&mut m, b, &c.before, TOKEN_AUX_BEFORE);
        let fb = build();
        let id = fb.finish_module(&mut m);
        m.exports.add_export_func("probe".to_string(), *id, None);
        apply_edit(&mut m, b, &c.after, TOKEN_AUX_AFTER);
        (*id, m.encode())
    });
    let (id, out) = match res {
        Ok(x) => x,
        Err(p) => {
            if p.msg.starts_with("harness:") {
                panic!("{}", p.msg);
            }
            o.fail(format!("panic {}", p.site()), format!("{} at {}:{}; case {:?}", p.msg, p.file, p.line, c));
            return o;
        }
    };
    o.observed = hash_of(&out);
    let ops_executed = 1 + (c.before != "none") as u64 + (c.after != "none") as u64;
    o.count("api_operations", ops_executed);

    if let Err(e) = wasmutil::validate(&out, wasmutil::features_core()) {
        o.fail("output-invalid", format!("{}; returned id {}; case {:?}", e, id, c));
    }
    let v = match decode(&out) {
        Ok(v) => v,
        Err(e) => {
            o.fail("output-undecodable", format!("{}; case {:?}", e, c));
            return o;
        }
    };
    let mine: Vec<&OutFn> = v.funcs.iter().filter(|f| f.token == Some(TOKEN)).collect();
    if mine.len() != 1 {
        o.fail(
            if mine.is_empty() { "built-function-missing" } else { "built-function-duplicated" },
            format!("{} bodies start with the identity token; case {:?}", mine.len(), c),
        );
        return o;
    }
    let f = mine[0];
    // the returned id, as remapped by the library
    match v.exports.iter().filter(|e| e.0 == "probe").collect::<Vec<_>>().as_slice() {
        [e] => {
            if e.1 != f.index {
                let what = if (e.1 as usize) < v.import_funcs.len() { "an-import" } else { "another-local" };
                o.fail(
                    format!("returned-id-designates {}", what),
                    format!("finish_module returned {}, its export designates function {} but the built function is {}; case {:?}", id, e.1, f.index, c),
                );
            }
        }
        l => o.fail("probe-export-missing", format!("{} exports called probe; case {:?}", l.len(), c)),
    }
    // type
    match &f.ty {
        Some((p, r)) => {
            if p != &c.params {
                o.fail("wrong-param-types", format!("requested {:?}, encoded {:?}; case {:?}", c.params, p, c));
            }
            if r != &c.results {
                o.fail("wrong-result-types", format!("requested {:?}, encoded {:?}; case {:?}", c.results, r, c));
            }
        }
        None => o.fail("function-type-not-a-func-type", format!("case {:?}", c)),
    }
    // locals
    if f.locals != c.locals {
        o.fail("wrong-locals", format!("declared {:?}, encoded (expanded) {:?}; case {:?}", c.locals, f.locals, c));
    }
    // operators
    let mut want: Vec<String> = vec![format!("{:?}", Operator::I32Const { value: TOKEN }), format!("{:?}", Operator::Drop)];
    let mut call_resolved = true;
    for op in c.body.iter() {
        match op.as_str() {
            "nop" => want.push(format!("{:?}", Operator::Nop)),
            "const" => {
                want.push(format!("{:?}", Operator::I32Const { value: 7 }));
                want.push(format!("{:?}", Operator::Drop));
            }
            "lget" => {
                want.push(format!("{:?}", Operator::LocalGet { local_index: 0 }));
                want.push(format!("{:?}", Operator::Drop));
            }
            "block" => {
                want.push(format!("{:?}", Operator::Block { blockty: wasmparser::BlockType::Empty }));
                want.push(format!("{:?}", Operator::End));
            }
            "call" => {
                let target = match b.call.unwrap().1 {
                    Ok(tok) => v.funcs.iter().find(|g| g.token == Some(tok)).map(|g| g.index),
                    Err(field) => v.import_funcs.iter().position(|n| n == field).map(|i| i as u32),
                };
                match target {
                    Some(t) => want.push(format!("{:?}", Operator::Call { function_index: t })),
                    None => {
                        call_resolved = false;
                        want.push("Call { function_index: <callee not found in output> }".to_string());
                    }
                }
            }
            _ => {}
        }
    }
    for r in c.results.iter() {
        want.push(format!("{:?}", result_const(r)));
    }
    want.push(format!("{:?}", Operator::End));
    if f.ops != want {
        let ends = |l: &Vec<String>| l.iter().rev().take_while(|x| x.as_str() == "End").count();
        let body_eq = f.ops.len() >= ends(&f.ops) && want.len() >= 1 && f.ops[..f.ops.len() - ends(&f.ops)] == want[..want.len() - ends(&want)];
        let sig = if !call_resolved {
            "callee-missing"
        } else if body_eq && ends(&f.ops) < ends(&want) {
            "final-end-missing"
        } else if body_eq {
            "final-end-repeated"
        } else if f.ops.len() == want.len() && f.ops.iter().zip(want.iter()).all(|(a, b)| a == b || (a.starts_with("Call") && b.starts_with("Call"))) {
            "call-target-wrong"
        } else {
            "wrong-instructions"
        };
        o.fail(sig, format!("built {:?}, encoded {:?}; case {:?}", want, f.ops, c));
    }
    // name
    match wasmutil::decode_names(&out) {
        Ok(n) => {
            let got = n.funcs().get(&f.index).cloned();
            match (&c.name, got) {
                (Some(w), Some(g)) if *w == g => {}
                (Some(w), Some(g)) => o.fail("name-wrong", format!("set {:?}, name section has {:?} at function {}; case {:?}", w, g, f.index, c)),
                (Some(w), None) => o.fail("name-missing", format!("set {:?}, no entry for function {} in {:?}; case {:?}", w, f.index, n.funcs(), c)),
                (None, Some(g)) => o.fail("name-unexpected", format!("no name set, name section has {:?} at function {}; case {:?}", g, f.index, c)),
                (None, None) => {}
            }
        }
        Err(e) => o.fail("name-section-undecodable", format!("{}; case {:?}", e, c)),
    }
    o
}

// ---------------------------------------------------------------------------------------------
// enumeration
// ---------------------------------------------------------------------------------------------
fn lists(alpha: &[&str], max: usize) -> Vec<Vec<String>> {
    let mut out: Vec<Vec<String>> = vec![vec![]];
    let mut level: Vec<Vec<String>> = vec![vec![]];
    for _ in 0..max {
        let mut next = vec![];
        for l in level.iter() {
            for a in alpha {
                let mut l2 = l.clone();
                l2.push(a.to_string());
                next.push(l2);
            }
        }
        out.extend(next.iter().cloned());
        level = next;
    }
    out
}

#[derive(Clone)]
struct Content {
    params: Vec<String>,
    results: Vec<String>,
    locals: Vec<String>,
    body: Vec<String>,
}
#[derive(Clone)]
struct Hist {
    base: &'static str,
    before: &'static str,
    after: &'static str,
    named: bool,
}

fn mk(h: &Hist, c: &Content) -> Case {
    Case {
        base: h.base.to_string(),
        before: h.before.to_string(),
        after: h.after.to_string(),
        name: if h.named { Some("built".to_string()) } else { None },
        params: c.params.clone(),
        results: c.results.clone(),
        locals: c.locals.clone(),
        body: c.body.clone(),
        via_component: false,
    }
}

pub fn check(tier: Tier) -> i32 {
    let body_len = tier.pick(2usize, 3usize);
    let mut run = Run::new("C12", tier, "model_checking");
    run.rule = format!(
        "FunctionBuilder::new + add_local* + helpers + [set_name] + finish_module (every history also once through a component wrapping the base and finish_component), returned id exported; history axes full product: 4 bases (empty, 2 locals, 2 imports + 2 locals with names, imports only) x edit before x edit after (none, add_import_func, another built function, delete an unreferenced local, delete an unreferenced imported function) x name set/unset; content axes: 3249 signatures (<= 2 params x <= 2 results over i32 i64 f32 f64 v128 funcref externref), 85 local lists (<= 3 over i32 i64 v128 externref), all bodies of <= {} stack-neutral helpers (nop; i32.const+drop; local.get 0+drop; block..end; call of a []->[] function) followed by one constant per result; {}; inapplicable combinations (delete without a local function, call without callee, local.get without param) are not part of the space; non-trivial class = (base, before>after, named?, signature shape, run-length pattern of locals, body helper list)",
        body_len,
        tier.pick(
            "quick: history product x (base content [i32]->[i32] / no locals / empty body + every single content deviation) + base history x (<= 2 content deviations)",
            "thorough: history product x (<= 1 content deviation) + (<= 1 history deviation) x (<= 2 content deviations)"
        )
    );
    let sigs_p = lists(&TYPES7, 2);
    let locals = lists(&LOCAL_TYPES, 3);
    let bodies = lists(&BODY_OPS, body_len);
    let base_c = Content { params: vec!["i32".into()], results: vec!["i32".into()], locals: vec![], body: vec![] };

    // content deviations
    let mut sig_devs: Vec<Content> = vec![];
    for p in sigs_p.iter() {
        for r in sigs_p.iter() {
            if *p == base_c.params && *r == base_c.results {
                continue;
            }
            sig_devs.push(Content { params: p.clone(), results: r.clone(), ..base_c.clone() });
        }
    }
    let loc_devs: Vec<Content> = locals.iter().filter(|l| !l.is_empty()).map(|l| Content { locals: l.clone(), ..base_c.clone() }).collect();
    let body_devs: Vec<Content> = bodies.iter().filter(|l| !l.is_empty()).map(|l| Content { body: l.clone(), ..base_c.clone() }).collect();
    let mut c1: Vec<Content> = vec![base_c.clone()];
    c1.extend(sig_devs.iter().cloned());
    c1.extend(loc_devs.iter().cloned());
    c1.extend(body_devs.iter().cloned());

    // history product
    let mut hfull: Vec<Hist> = vec![];
    for b in BASES.iter() {
        for before in EDITS {
            for after in EDITS {
                for named in [false, true] {
                    hfull.push(Hist { base: b.name, before, after, named });
                }
            }
        }
    }
    let base_h = Hist { base: "2imports+2locals", before: "none", after: "none", named: false };
    let mut h1: Vec<Hist> = vec![base_h.clone()];
    for b in BASES.iter() {
        if b.name != base_h.base {
            h1.push(Hist { base: b.name, ..base_h.clone() });
        }
    }
    for e in &EDITS[1..] {
        h1.push(Hist { before: e, ..base_h.clone() });
        h1.push(Hist { after: e, ..base_h.clone() });
    }
    h1.push(Hist { named: true, ..base_h.clone() });

    let mut seen: BTreeSet<u64> = BTreeSet::new();
    let mut states = 0u64;
    let mut transitions = 0u64;
    let mut flush = |run: &mut Run, fam: &str, cases: &mut Vec<Case>| {
        cases.retain(|c| applicable(c) && seen.insert(hash_of(c)));
        states += cases.len() as u64;
        transitions += cases.iter().map(|c| 1 + (c.before != "none") as u64 + (c.after != "none") as u64).sum::<u64>();
        run.run_cases(fam, cases, run_case);
        cases.clear();
    };

    // family 1: history product x <= 1 content deviation
    for h in hfull.iter() {
        let mut cases: Vec<Case> = c1.iter().map(|c| mk(h, c)).collect();
        // the same history with the module inside a component and finish_component, on the base content
        cases.push(Case { via_component: true, ..mk(h, &base_c) });
        flush(&mut run, "history product x <=1 content deviation", &mut cases);
    }
    // family 2 (thorough): <= 1 history deviation x pairs of content deviations
    {
        // quick: on the base history only; thorough: on every single history deviation
        let hs: Vec<Hist> = if tier == Tier::Thorough { h1.clone() } else { vec![base_h.clone()] };
        for h in hs.iter() {
            let mut cases: Vec<Case> = vec![];
            // sig x locals, sig x body
            for s in sig_devs.iter() {
                for l in loc_devs.iter() {
                    cases.push(mk(h, &Content { locals: l.locals.clone(), ..s.clone() }));
                }
                for bd in body_devs.iter() {
                    cases.push(mk(h, &Content { body: bd.body.clone(), ..s.clone() }));
                }
                if cases.len() >= 200_000 {
                    flush(&mut run, "<=1 history deviation x 2 content deviations", &mut cases);
                }
            }
            // locals x body
            for l in loc_devs.iter() {
                for bd in body_devs.iter() {
                    cases.push(mk(h, &Content { body: bd.body.clone(), ..l.clone() }));
                }
            }
            flush(&mut run, "<=1 history deviation x 2 content deviations", &mut cases);
        }
    }
    drop(flush);
    run.states = Some(states);
    run.transitions = Some(transitions);
    run.traces_validated = Some(states);
    run.extra.insert("max_body_helpers".into(), serde_json::json!(body_len));
    run.extra.insert("signatures".into(), serde_json::json!(sig_devs.len() + 1));
    run.extra.insert("local_lists".into(), serde_json::json!(locals.len()));
    run.extra.insert("bodies".into(), serde_json::json!(bodies.len()));
    run.assumptions.push("functions are identified by the identity token in their first two instructions, call targets by the callee's token / import name; indices are never predicted".into());
    run.assumptions.push("a name-section entry at the index of a function that was given no name is reported (name-unexpected): it can only be another function's name".into());
    run.finish()
}

pub fn replay(_family: &str, case: &serde_json::Value) -> Vec<Mismatch> {
    match serde_json::from_value::<Case>(case.clone()) {
        Ok(c) => run_case(&c).mismatches,
        Err(e) => vec![Mismatch::new("machinery replay-case-unreadable", e.to_string())],
    }
}
