// Seed tables of the C03 check (included by c03.rs). All seeds are produced WITHOUT wirm:
// WAT text converted by the `wat` crate, or raw bytes assembled here.
//
// A seed is a small, (almost always) valid binary that reaches one distinct part of the parsers:
// one per section kind / encoding variant / const-expr form / type form / name subsection /
// custom-section position / operator immediate shape / component section kind.

/// hand-written core modules: (name, wat)
const CORE_WATS: &[(&str, &str)] = &[
    // ---- section shapes -------------------------------------------------------------------
    ("empty", "(module)"),
    ("type-empty-func", "(module (type (func)))"),
    ("type-all-num", "(module (type (func (param i32 i64 f32 f64 v128) (result i32))))"),
    ("type-multi-result", "(module (type (func (param i32) (result i32 i64 f32))))"),
    ("type-refs", "(module (type (func (param funcref externref) (result funcref))))"),
    ("type-dup", "(module (type (func)) (type (func)) (type (func (param i32))) (type (func (param i32))))"),
    ("func-min", "(module (func))"),
    ("func-two", "(module (func) (func (param i32) (result i32) local.get 0))"),
    ("func-locals", "(module (func (local i32 i32 i64 f32 f64 v128 funcref externref) nop))"),
    ("func-locals-runs", "(module (func (local i32) (local i64) (local i32) (local i32) local.get 3 drop))"),
    ("import-func", r#"(module (import "m" "f" (func)))"#),
    ("import-func-typed", r#"(module (type (func (param i32))) (import "m" "f" (func (type 0))))"#),
    ("import-table", r#"(module (import "m" "t" (table 1 funcref)))"#),
    ("import-table-max", r#"(module (import "m" "t" (table 1 2 externref)))"#),
    ("import-memory", r#"(module (import "m" "m" (memory 1)))"#),
    ("import-memory-max", r#"(module (import "m" "m" (memory 1 2)))"#),
    ("import-memory-shared", r#"(module (import "m" "m" (memory 1 2 shared)))"#),
    ("import-memory64", r#"(module (import "m" "m" (memory i64 1)))"#),
    ("import-global", r#"(module (import "m" "g" (global i32)))"#),
    ("import-global-mut", r#"(module (import "m" "g" (global (mut f64))))"#),
    ("import-tag", r#"(module (import "m" "e" (tag (param i32))))"#),
    ("import-all-kinds", r#"(module (import "a" "g" (global i32)) (import "a" "f" (func)) (import "a" "m" (memory 1)) (import "a" "f2" (func (param i32))) (import "a" "t" (table 1 funcref)) (import "a" "e" (tag)))"#),
    ("import-empty-names", r#"(module (import "" "" (func)))"#),
    ("import-utf8-names", r#"(module (import "\c3\a9" "\e2\82\ac" (func)))"#),
    ("import-func-and-local", r#"(module (import "m" "f" (func)) (func call 0) (func call 1))"#),
    ("table-min", "(module (table 1 funcref))"),
    ("table-minmax", "(module (table 1 10 funcref))"),
    ("table-extern", "(module (table 0 externref))"),
    ("table-two", "(module (table 1 funcref) (table 2 externref))"),
    ("table-init-expr", "(module (func) (table 2 (ref null func) (ref.func 0)) (elem declare func 0))"),
    ("table-init-null", "(module (table 2 (ref null func) (ref.null func)))"),
    ("table64", "(module (table i64 1 funcref))"),
    ("table-inline-elem", "(module (func) (table funcref (elem 0 0)))"),
    ("memory-min", "(module (memory 1))"),
    ("memory-minmax", "(module (memory 1 2))"),
    ("memory-shared", "(module (memory 1 2 shared))"),
    ("memory64", "(module (memory i64 1))"),
    ("memory64-max", "(module (memory i64 1 65536))"),
    ("memory-multi", "(module (memory 1) (memory 2) (memory 3))"),
    ("memory-pagesize", "(module (memory 1 (pagesize 1)))"),
    ("memory-inline-data", r#"(module (memory (data "abc")))"#),
    ("global-i32", "(module (global i32 (i32.const 42)))"),
    ("global-i32-neg", "(module (global i32 (i32.const -1)))"),
    ("global-i32-min", "(module (global i32 (i32.const -2147483648)))"),
    ("global-i64", "(module (global i64 (i64.const 42)))"),
    ("global-i64-min", "(module (global i64 (i64.const -9223372036854775808)))"),
    ("global-f32", "(module (global f32 (f32.const 1.5)))"),
    ("global-f32-nan", "(module (global f32 (f32.const nan:0x200000)))"),
    ("global-f64", "(module (global f64 (f64.const -0.0)))"),
    ("global-f64-inf", "(module (global f64 (f64.const inf)))"),
    ("global-v128", "(module (global v128 (v128.const i32x4 1 2 3 4)))"),
    ("global-mut", "(module (global (mut i32) (i32.const 0)))"),
    ("global-ref-null-func", "(module (global funcref (ref.null func)))"),
    ("global-ref-null-extern", "(module (global externref (ref.null extern)))"),
    ("global-ref-func", "(module (func) (global funcref (ref.func 0)) (elem declare func 0))"),
    ("global-get-import", r#"(module (import "m" "g" (global i32)) (global i32 (global.get 0)))"#),
    ("global-get-local", "(module (global i32 (i32.const 1)) (global i32 (global.get 0)))"),
    ("global-extended-const", "(module (global i32 (i32.add (i32.const 1) (i32.const 2))))"),
    ("global-extended-const64", "(module (global i64 (i64.mul (i64.const 3) (i64.sub (i64.const 2) (i64.const 1)))))"),
    ("global-many", "(module (global i32 (i32.const 0)) (global (mut i64) (i64.const 1)) (global f32 (f32.const 2)) (global (mut f64) (f64.const 3)))"),
    ("export-func", r#"(module (func (export "f")))"#),
    ("export-all-kinds", r#"(module (func (export "f")) (table (export "t") 1 funcref) (memory (export "m") 1) (global (export "g") i32 (i32.const 0)) (tag (export "e")))"#),
    ("export-twice", r#"(module (func) (export "a" (func 0)) (export "b" (func 0)))"#),
    ("export-empty-name", r#"(module (func) (export "" (func 0)))"#),
    ("start", "(module (func) (start 0))"),
    ("start-import", r#"(module (import "m" "f" (func)) (start 0))"#),
    // ---- element segments: the 8 encodings (flags 0..7) -----------------------------------
    ("elem-0-active-funcs", "(module (table 1 funcref) (func) (elem (i32.const 0) func 0))"),
    ("elem-1-passive-funcs", "(module (func) (elem func 0 0))"),
    ("elem-2-active-table-funcs", "(module (table 1 funcref) (table 1 funcref) (func) (elem (table 1) (i32.const 0) func 0))"),
    ("elem-3-declared-funcs", "(module (func) (elem declare func 0))"),
    ("elem-4-active-exprs", "(module (table 2 funcref) (func) (elem (i32.const 0) funcref (ref.func 0) (ref.null func)))"),
    ("elem-5-passive-exprs", "(module (func) (elem funcref (ref.null func) (ref.func 0)))"),
    ("elem-6-active-table-exprs", "(module (table 1 funcref) (table 2 funcref) (func) (elem (table 1) (i32.const 0) funcref (ref.null func) (ref.func 0)))"),
    ("elem-7-declared-exprs", "(module (func) (elem declare funcref (ref.func 0) (ref.null func)))"),
    ("elem-externref-exprs", "(module (table 1 externref) (elem (i32.const 0) externref (ref.null extern)))"),
    ("elem-offset-global", r#"(module (import "m" "g" (global i32)) (table 1 funcref) (func) (elem (global.get 0) func 0))"#),
    ("elem-empty", "(module (table 1 funcref) (elem (i32.const 0) func))"),
    ("elem-global-get-item", r#"(module (import "m" "g" (global funcref)) (table 1 funcref) (elem (i32.const 0) funcref (global.get 0)))"#),
    ("elem-table64", "(module (table i64 1 funcref) (func) (elem (i64.const 0) func 0))"),
    // ---- data segments --------------------------------------------------------------------
    ("data-active", r#"(module (memory 1) (data (i32.const 0) "abc"))"#),
    ("data-active-empty", r#"(module (memory 1) (data (i32.const 0) ""))"#),
    ("data-passive", r#"(module (memory 1) (data "abc"))"#),
    ("data-active-mem1", r#"(module (memory 1) (memory 1) (data (memory 1) (i32.const 8) "xy"))"#),
    ("data-offset-global", r#"(module (import "m" "g" (global i32)) (memory 1) (data (global.get 0) "a"))"#),
    ("data-mem64", r#"(module (memory i64 1) (data (i64.const 0) "a"))"#),
    ("data-count", r#"(module (memory 1) (func (memory.init 0 (i32.const 0) (i32.const 0) (i32.const 1)) (data.drop 0)) (data "abc"))"#),
    ("data-two", r#"(module (memory 1) (data (i32.const 0) "a") (data "b") (data (i32.const 4) "\00\ff"))"#),
    ("data-extended-const", r#"(module (memory 1) (data (i32.add (i32.const 1) (i32.const 2)) "a"))"#),
    // ---- tags / exceptions -----------------------------------------------------------------
    ("tag", "(module (tag))"),
    ("tag-param", "(module (tag (param i32 i64)))"),
    ("tag-typed", "(module (type (func (param i32))) (tag (type 0)))"),
    ("throw", "(module (tag (param i32)) (func (throw 0 (i32.const 1))))"),
    ("try-table-catch", "(module (tag (param i32)) (func (result i32) (block (result i32) (try_table (catch 0 0) (throw 0 (i32.const 1))) (i32.const 0))))"),
    ("try-table-catch-all", "(module (func (block (try_table (catch_all 0) nop))))"),
    ("try-table-catch-ref", "(module (tag) (func (block (result exnref) (try_table (catch_ref 0 0) (catch_all_ref 0) nop) unreachable) drop))"),
    ("throw-ref", "(module (func (param exnref) (throw_ref (local.get 0))))"),
    ("legacy-try-catch", "(module (tag) (func try nop catch 0 nop catch_all nop end))"),
    ("legacy-try-delegate", "(module (func try nop delegate 0))"),
    ("legacy-rethrow", "(module (func try nop catch_all rethrow 0 end))"),
    // ---- GC types ----------------------------------------------------------------------------
    ("gc-struct", "(module (type (struct (field i32) (field (mut i64)))))"),
    ("gc-struct-empty", "(module (type (struct)))"),
    ("gc-struct-packed", "(module (type (struct (field i8) (field (mut i16)))))"),
    ("gc-array", "(module (type (array i32)))"),
    ("gc-array-mut-packed", "(module (type (array (mut i8))))"),
    ("gc-array-ref", "(module (type (array (ref null any))))"),
    ("gc-rec", "(module (rec (type $a (struct (field (ref null $b)))) (type $b (struct (field (ref null $a))))))"),
    ("gc-rec-empty", "(module (rec))"),
    ("gc-rec-one", "(module (rec (type (func))))"),
    ("gc-sub", "(module (type $a (sub (struct))) (type (sub $a (struct (field i32)))))"),
    ("gc-sub-final", "(module (type $a (sub (struct))) (type (sub final $a (struct))))"),
    ("gc-sub-func", "(module (type $a (sub (func))) (type (sub $a (func))))"),
    ("gc-concrete-ref", "(module (type $s (struct)) (type (func (param (ref $s) (ref null $s)))))"),
    ("gc-func-concrete-local", "(module (type $s (struct)) (func (param (ref null $s)) (local (ref null $s))))"),
    ("gc-global-struct-new", "(module (type $s (struct (field i32))) (global (ref $s) (struct.new $s (i32.const 1))))"),
    ("gc-global-struct-default", "(module (type $s (struct (field i32))) (global (ref $s) (struct.new_default $s)))"),
    ("gc-global-array-new", "(module (type $a (array i32)) (global (ref $a) (array.new $a (i32.const 1) (i32.const 2))))"),
    ("gc-global-array-default", "(module (type $a (array i32)) (global (ref $a) (array.new_default $a (i32.const 2))))"),
    ("gc-global-array-fixed", "(module (type $a (array i32)) (global (ref $a) (array.new_fixed $a 2 (i32.const 1) (i32.const 2))))"),
    ("gc-global-i31", "(module (global (ref i31) (ref.i31 (i32.const 1))))"),
    ("gc-global-convert", "(module (global anyref (any.convert_extern (ref.null extern))))"),
    ("gc-global-extern-convert", "(module (global externref (extern.convert_any (ref.null any))))"),
    ("gc-global-null-concrete", "(module (type $s (struct)) (global (ref null $s) (ref.null $s)))"),
    ("gc-struct-ops", "(module (type $s (struct (field (mut i32)) (field i8))) (func (param (ref $s)) (struct.set $s 0 (local.get 0) (struct.get $s 0 (local.get 0))) (drop (struct.get_s $s 1 (local.get 0))) (drop (struct.get_u $s 1 (local.get 0)))))"),
    ("gc-array-ops", r#"(module (type $a (array (mut i8))) (data "abc") (func (param (ref $a)) (array.set $a (local.get 0) (i32.const 0) (array.get_u $a (local.get 0) (i32.const 1))) (drop (array.len (local.get 0))) (array.fill $a (local.get 0) (i32.const 0) (i32.const 0) (i32.const 1)) (array.copy $a $a (local.get 0) (i32.const 0) (local.get 0) (i32.const 0) (i32.const 0)) (drop (array.new_data $a 0 (i32.const 0) (i32.const 1))) (array.init_data $a 0 (local.get 0) (i32.const 0) (i32.const 0) (i32.const 0))))"#),
    ("gc-array-elem-ops", "(module (type $a (array (mut funcref))) (elem funcref (ref.null func)) (func (param (ref $a)) (drop (array.new_elem $a 0 (i32.const 0) (i32.const 1))) (array.init_elem $a 0 (local.get 0) (i32.const 0) (i32.const 0) (i32.const 0))))"),
    ("gc-casts", "(module (type $s (struct)) (func (param anyref) (drop (ref.test (ref $s) (local.get 0))) (drop (ref.test (ref null $s) (local.get 0))) (drop (ref.cast (ref null struct) (local.get 0))) (drop (ref.cast (ref i31) (local.get 0)))))"),
    ("gc-br-on-cast", "(module (type $s (struct)) (func (param anyref) (result (ref $s)) (block (result (ref $s)) (br_on_cast 0 anyref (ref $s) (local.get 0)) unreachable)))"),
    ("gc-br-on-cast-fail", "(module (type $s (struct)) (func (param anyref) (result anyref) (block (result anyref) (br_on_cast_fail 0 anyref (ref $s) (local.get 0)) unreachable)))"),
    ("gc-i31", "(module (func (result i32) (i31.get_s (ref.i31 (i32.const 1))) (i31.get_u (ref.i31 (i32.const 2))) i32.add))"),
    ("gc-ref-eq", "(module (func (param eqref eqref) (result i32) (ref.eq (local.get 0) (local.get 1))))"),
    ("funcref-call-ref", "(module (type $t (func)) (func (param (ref $t)) (call_ref $t (local.get 0))))"),
    ("funcref-return-call-ref", "(module (type $t (func)) (func (param (ref $t)) (return_call_ref $t (local.get 0))))"),
    ("funcref-as-non-null", "(module (func (param funcref) (drop (ref.as_non_null (local.get 0)))))"),
    ("funcref-br-on-null", "(module (func (param funcref) (block (drop (br_on_null 0 (local.get 0))))))"),
    ("funcref-br-on-non-null", "(module (func (param funcref) (block (result (ref func)) (br_on_non_null 0 (local.get 0)) unreachable) drop))"),
    ("cont-type", "(module (type $f (func)) (type $c (cont $f)))"),
    ("shared-func-type", "(module (type (shared (func))))"),
    ("shared-global", "(module (global (shared i32) (i32.const 0)))"),
    // ---- name section --------------------------------------------------------------------------
    ("name-module", "(module $mymod)"),
    ("name-func", "(module (func $f) (func $g))"),
    ("name-func-import", r#"(module (import "m" "f" (func $imp)) (func $loc))"#),
    ("name-local", "(module (func (param $p i32) (local $l i64)))"),
    ("name-label", "(module (func (block $b (loop $l (br $b)))))"),
    ("name-type", "(module (type $t (func)))"),
    ("name-table", "(module (table $t 1 funcref))"),
    ("name-memory", "(module (memory $m 1))"),
    ("name-global", "(module (global $g i32 (i32.const 0)))"),
    ("name-elem", "(module (func) (elem $e func 0))"),
    ("name-data", r#"(module (memory 1) (data $d "a"))"#),
    ("name-field", "(module (type $s (struct (field $x i32) (field $y i64))))"),
    ("name-tag", "(module (tag $e))"),
    ("name-all", r#"(module $m (type $t (func)) (type $s (struct (field $x i32))) (import "a" "f" (func $if)) (func $f (param $p i32) (local $l i32) (block $b nop)) (table $tb 1 funcref) (memory $mem 1) (global $g i32 (i32.const 0)) (tag $e) (elem $el func $f) (data $d "x"))"#),
    // ---- custom sections -------------------------------------------------------------------
    ("custom-plain", r#"(module (@custom "hello" "world"))"#),
    ("custom-empty", r#"(module (@custom "" ""))"#),
    ("custom-two", r#"(module (@custom "a" "1") (func) (@custom "b" "2"))"#),
    ("producers", r#"(module (@producers (language "C" "11") (processed-by "clang" "17.0") (sdk "wasi" "20")))"#),
    ("producers-one", r#"(module (@producers (processed-by "x" "1")))"#),
    ("producers-func", r#"(module (func) (@producers (language "Rust" "") (processed-by "rustc" "1.80.0") (processed-by "wirm" "1")))"#),
    ("producers-empty", r#"(module (@custom "producers" "\00"))"#),
    ("target-features", r#"(module (@custom "target_features" "\02\2b\04simd\2b\0bbulk-memory"))"#),
    ("dylink0", r#"(module (@dylink.0 (mem-info (memory 4 2) (table 1 0)) (needed "a" "b")))"#),
    ("linking", r#"(module (@custom "linking" "\02"))"#),
    ("sourcemap", r#"(module (@custom "sourceMappingURL" "\07foo.map"))"#),
    ("branch-hint", r#"(module (func (param i32) (@metadata.code.branch_hint "\01") (if (local.get 0) (then nop))))"#),
    // ---- instructions: one representative per immediate shape -----------------------------
    ("op-control", "(module (func (param i32) (result i32) (block (result i32) (loop (result i32) (if (result i32) (local.get 0) (then (i32.const 1)) (else (i32.const 2)))))))"),
    ("op-block-functype", "(module (type $t (func (param i32) (result i32))) (func (result i32) (i32.const 1) (block (type $t) (loop (type $t) nop))))"),
    ("op-br", "(module (func (param i32) (block (block (br 1)) (br_if 0 (local.get 0))) return))"),
    ("op-br-table", "(module (func (param i32) (block (block (block (br_table 0 1 2 0 (local.get 0)))))))"),
    ("op-br-table-empty", "(module (func (param i32) (block (br_table 0 (local.get 0)))))"),
    ("op-call", "(module (func) (func (call 0) (call 1)))"),
    ("op-call-indirect", "(module (type $t (func)) (table 1 funcref) (table 1 funcref) (func (call_indirect (type $t) (i32.const 0)) (call_indirect 1 (type $t) (i32.const 0))))"),
    ("op-return-call", "(module (type $t (func)) (table 1 funcref) (func (return_call 0)) (func (return_call_indirect (type $t) (i32.const 0))))"),
    ("op-locals-globals", "(module (global (mut i32) (i32.const 0)) (func (local i32) (local.set 0 (global.get 0)) (global.set 0 (local.tee 0 (i32.const 1)))))"),
    ("op-select", "(module (func (param i32) (result i32) (select (i32.const 1) (i32.const 2) (local.get 0))) (func (param i32) (result funcref) (select (result funcref) (ref.null func) (ref.null func) (local.get 0))))"),
    ("op-drop-unreachable", "(module (func (drop (i32.const 0)) unreachable))"),
    ("op-consts", "(module (func (drop (i32.const -2147483648)) (drop (i64.const 9223372036854775807)) (drop (f32.const nan)) (drop (f64.const -inf)) (drop (i32.const 63)) (drop (i32.const 64)) (drop (i64.const -65))))"),
    ("op-load-store", "(module (memory 1) (func (i32.store8 (i32.const 0) (i32.load16_s offset=4 align=1 (i32.const 0))) (i64.store32 offset=65536 (i32.const 0) (i64.load32_u (i32.const 0))) (f32.store (i32.const 0) (f32.load (i32.const 0))) (f64.store align=4 (i32.const 0) (f64.load (i32.const 0)))))"),
    ("op-load-store-mem1", "(module (memory 1) (memory 1) (func (i32.store 1 (i32.const 0) (i32.load 1 offset=8 (i32.const 0)))))"),
    ("op-load-store-mem64", "(module (memory i64 1) (func (i32.store offset=4294967296 (i64.const 0) (i32.load offset=0x1_0000_0000_0 (i64.const 0)))))"),
    ("op-memory-size-grow", "(module (memory 1) (func (drop (memory.grow (memory.size)))))"),
    ("op-memory-size-grow-mem1", "(module (memory 1) (memory 1) (func (drop (memory.grow 1 (memory.size 1)))))"),
    ("op-bulk-memory", r#"(module (memory 1) (data "x") (func (memory.copy (i32.const 0) (i32.const 1) (i32.const 2)) (memory.fill (i32.const 0) (i32.const 1) (i32.const 2)) (memory.init 0 (i32.const 0) (i32.const 0) (i32.const 1)) (data.drop 0)))"#),
    ("op-bulk-memory-multi", r#"(module (memory 1) (memory 1) (data "x") (func (memory.copy 1 0 (i32.const 0) (i32.const 1) (i32.const 2)) (memory.fill 1 (i32.const 0) (i32.const 1) (i32.const 2)) (memory.init 1 0 (i32.const 0) (i32.const 0) (i32.const 1))))"#),
    ("op-table-ops", "(module (table 1 funcref) (table 1 funcref) (elem func) (func (table.set 1 (i32.const 0) (table.get 0 (i32.const 0))) (drop (table.grow 1 (ref.null func) (table.size 0))) (table.fill 0 (i32.const 0) (ref.null func) (i32.const 0)) (table.copy 1 0 (i32.const 0) (i32.const 0) (i32.const 0)) (table.init 1 0 (i32.const 0) (i32.const 0) (i32.const 0)) (elem.drop 0)))"),
    ("op-ref", "(module (func) (elem declare func 0) (func (drop (ref.is_null (ref.null extern))) (drop (ref.func 0)) (drop (ref.null func))))"),
    ("op-numeric", "(module (func (param i32 i64 f32 f64) (drop (i32.add (local.get 0) (i32.clz (local.get 0)))) (drop (i64.rotl (local.get 1) (local.get 1))) (drop (f32.sqrt (local.get 2))) (drop (f64.copysign (local.get 3) (local.get 3))) (drop (i32.wrap_i64 (local.get 1))) (drop (f64.promote_f32 (local.get 2))) (drop (i64.reinterpret_f64 (local.get 3)))))"),
    ("op-sign-ext-sat", "(module (func (param i32 i64 f32 f64) (drop (i32.extend8_s (local.get 0))) (drop (i64.extend32_s (local.get 1))) (drop (i32.trunc_sat_f32_s (local.get 2))) (drop (i64.trunc_sat_f64_u (local.get 3)))))"),
    ("op-simd", "(module (memory 1) (func (param v128) (result v128) (v128.store (i32.const 0) (v128.load offset=16 (i32.const 0))) (drop (i8x16.extract_lane_s 15 (local.get 0))) (drop (f64x2.replace_lane 1 (local.get 0) (f64.const 1))) (drop (i8x16.shuffle 0 1 2 3 4 5 6 7 8 9 10 11 12 13 14 31 (local.get 0) (local.get 0))) (drop (v128.load8_lane 3 (i32.const 0) (local.get 0))) (v128.store64_lane offset=8 1 (i32.const 0) (local.get 0)) (drop (v128.load32_zero (i32.const 0))) (drop (v128.load8x8_s (i32.const 0))) (i32x4.add (local.get 0) (v128.const i64x2 -1 1))))"),
    ("op-relaxed-simd", "(module (func (param v128) (result v128) (i32x4.relaxed_trunc_f32x4_s (local.get 0))))"),
    ("op-atomics", "(module (memory 1 1 shared) (func (drop (i32.atomic.load (i32.const 0))) (i64.atomic.store8 offset=8 (i32.const 0) (i64.const 1)) (drop (i32.atomic.rmw.add (i32.const 0) (i32.const 1))) (drop (i64.atomic.rmw16.cmpxchg_u (i32.const 0) (i64.const 0) (i64.const 1))) (drop (memory.atomic.notify (i32.const 0) (i32.const 1))) (drop (memory.atomic.wait32 (i32.const 0) (i32.const 0) (i64.const 0))) (drop (memory.atomic.wait64 (i32.const 0) (i64.const 0) (i64.const 0))) atomic.fence))"),
    ("op-wide-arith", "(module (func (param i64 i64 i64 i64) (result i64 i64) (i64.add128 (local.get 0) (local.get 1) (local.get 2) (local.get 3))))"),
    ("op-nested-deep", "(module (func (block (block (block (block (block (block (block (block (loop (br 8))))))))))))"),
    ("op-if-no-else", "(module (func (param i32) (if (local.get 0) (then nop))))"),
    ("op-dead-code", "(module (func (result i32) (return (i32.const 1)) (i32.add) (drop) (i32.const 2)))"),
    ("func-many", "(module (type $t (func)) (func (type $t)) (func (type $t)) (func (type $t)) (func (type $t)) (func (type $t)) (func (type $t)) (func (type $t)) (func (type $t)))"),
    // ---- mixed modules -------------------------------------------------------------------------
    ("mixed-small", r#"(module (import "env" "log" (func $log (param i32))) (memory (export "mem") 1) (global $g (mut i32) (i32.const 7)) (func $main (export "main") (call $log (global.get $g))) (start $main) (data (i32.const 16) "hi"))"#),
    ("mixed-table", r#"(module (type $t (func (result i32))) (func $a (type $t) (i32.const 1)) (func $b (type $t) (i32.const 2)) (table (export "t") 2 2 funcref) (elem (i32.const 0) $a $b) (func (export "call") (param i32) (result i32) (call_indirect (type $t) (local.get 0))))"#),
    ("mixed-all-sections", r#"(module $all (type $t (func (param i32) (result i32))) (import "e" "f" (func $imp (type $t))) (func $f (type $t) (local.get 0)) (table $tab 1 funcref) (memory $mem 1) (tag $tg (param i32)) (global $g (mut i32) (i32.const 1)) (export "f" (func $f)) (start $s) (func $s) (elem (i32.const 0) $f) (data (i32.const 0) "d") (@custom "tail" "x") (@producers (language "wat" "1")))"#),
];

/// hand-written components: (name, wat)
const COMPONENT_WATS: &[(&str, &str)] = &[
    ("c-empty", "(component)"),
    ("c-core-module", "(component (core module))"),
    ("c-core-module-func", r#"(component (core module (func (export "f"))))"#),
    ("c-two-modules", r#"(component (core module (func)) (core module (memory 1) (data (i32.const 0) "a")))"#),
    ("c-module-global-init", r#"(component (core module (global i32 (i32.const 1)) (global funcref (ref.null func))))"#),
    ("c-module-names", r#"(component (core module $m (func $f (param $p i32))))"#),
    ("c-module-producers", r#"(component (core module (@producers (language "C" "1"))))"#),
    ("c-core-instance", r#"(component (core module $m (func (export "f"))) (core instance $i (instantiate $m)))"#),
    ("c-core-instance-args", r#"(component (core module $a (func (export "f"))) (core module $b (import "a" "f" (func))) (core instance $ia (instantiate $a)) (core instance $ib (instantiate $b (with "a" (instance $ia)))))"#),
    ("c-core-instance-exports", r#"(component (core module $m (func (export "f"))) (core instance $i (instantiate $m)) (core instance (export "g" (func $i "f"))))"#),
    ("c-alias-core-export", r#"(component (core module $m (func (export "f"))) (core instance $i (instantiate $m)) (alias core export $i "f" (core func $f)))"#),
    ("c-canon-lift", r#"(component (core module $m (func (export "f"))) (core instance $i (instantiate $m)) (func (export "g") (canon lift (core func $i "f"))))"#),
    ("c-canon-lift-opts", r#"(component (core module $m (memory (export "mem") 1) (func (export "realloc") (param i32 i32 i32 i32) (result i32) (i32.const 0)) (func (export "f") (param i32 i32))) (core instance $i (instantiate $m)) (func (export "g") (param "s" string) (canon lift (core func $i "f") (memory (core memory $i "mem")) (realloc (core func $i "realloc")) string-encoding=utf8)))"#),
    ("c-canon-lower", r#"(component (import "f" (func $f)) (core func $l (canon lower (func $f))))"#),
    ("c-canon-resource", r#"(component (type $r (resource (rep i32))) (core func (canon resource.new $r)) (core func (canon resource.drop $r)) (core func (canon resource.rep $r)))"#),
    ("c-type-func", r#"(component (type (func (param "a" u32) (param "b" string) (result string))))"#),
    ("c-type-prims", r#"(component (type (func (param "a" bool) (param "b" s8) (param "c" u8) (param "d" s16) (param "e" u16) (param "f" s32) (param "g" s64) (param "h" u64) (param "i" f32) (param "j" f64) (param "k" char))))"#),
    ("c-type-defined", r#"(component (type $rec (record (field "x" u32) (field "y" string))) (type (variant (case "a") (case "b" u32))) (type (list u8)) (type (tuple u32 string)) (type (flags "a" "b")) (type (enum "x" "y")) (type (option u32)) (type (result u32 (error string))) (type (result)))"#),
    ("c-type-resource", r#"(component (type $r (resource (rep i32))) (type (own $r)) (type (borrow $r)))"#),
    ("c-type-instance", r#"(component (type (instance (export "f" (func)) (type (func)) (export "t" (type (sub resource))))))"#),
    ("c-type-component", r#"(component (type (component (import "a" (func)) (export "b" (func (result u32))))))"#),
    ("c-core-type-func", "(component (core type (func (param i32) (result i32))))"),
    ("c-core-type-module", r#"(component (core type (module (import "a" "b" (func)) (export "c" (func)) (type (func (param i32))) (alias outer 0 0 (type)))))"#),
    ("c-import-kinds", r#"(component (import "f" (func)) (import "i" (instance (export "x" (func)))) (import "c" (component)) (import "t" (type (sub resource))) (import "m" (core module)) (type $u u32) (import "te" (type (eq $u))))"#),
    ("c-import-versioned", r#"(component (import "wasi:io/streams@0.2.0" (instance)))"#),
    ("c-export-kinds", r#"(component (import "f" (func $f)) (export "g" (func $f)) (component $c) (export "c" (component $c)) (core module $m) (export "m" (core module $m)) (type $t u32) (export "t" (type $t)))"#),
    ("c-export-ascribed", r#"(component (import "f" (func $f)) (export "g" (func $f) (func)))"#),
    ("c-nested-1", "(component (component))"),
    ("c-nested-2", r#"(component (component (component (core module (func)))))"#),
    ("c-nested-3", r#"(component (core module (func)) (component (core module (memory 1)) (component (core module (global i32 (i32.const 0))) (component (core module)))) (core module))"#),
    ("c-nested-siblings", "(component (component) (component (component) (component)) (component))"),
    ("c-instance", r#"(component (component $c (type $t (func)) (export "t" (type $t))) (instance $i (instantiate $c)))"#),
    ("c-instance-args", r#"(component (import "f" (func $f)) (component $c (import "f" (func))) (instance (instantiate $c (with "f" (func $f)))))"#),
    ("c-instance-exports", r#"(component (import "f" (func $f)) (instance (export "g" (func $f))))"#),
    ("c-alias-instance-export", r#"(component (import "i" (instance $i (export "f" (func)))) (alias export $i "f" (func $f)) (export "g" (func $f)))"#),
    ("c-alias-outer", r#"(component (type $t (func)) (component (alias outer 1 $t (type $u)) (import "f" (func (type $u)))))"#),
    ("c-custom", r#"(component (@custom "meta" "data") (core module) (@custom "tail" ""))"#),
    ("c-names", r#"(component $top (core module $m (func (export "f"))) (core instance $ci (instantiate $m)) (alias core export $ci "f" (core func $cf)) (type $t (func)) (func $lf (type $t) (canon lift (core func $cf))) (component $sub) (instance $inst (instantiate $sub)) (core type $ct (func)))"#),
    ("c-names-core-sorts", r#"(component $n (core module $m (func (export "f")) (memory (export "m") 1) (table (export "t") 1 funcref) (global (export "g") i32 (i32.const 0))) (core instance $i (instantiate $m)) (alias core export $i "m" (core memory $mem)) (alias core export $i "t" (core table $tab)) (alias core export $i "g" (core global $glob)))"#),
    ("c-start", r#"(component (import "f" (func $f)) (start $f))"#),
    ("c-value-import", r#"(component (import "v" (value $v u32)) (export "w" (value $v)))"#),
];

/// Seeds generated from small tables (a value-type / heap-type / position sweep).
fn generated_core_wats() -> Vec<(String, String)> {
    let mut v = vec![];
    // every value type the binary format can express, in five syntactic positions
    let valtypes: &[(&str, &str)] = &[
        ("i32", "i32"), ("i64", "i64"), ("f32", "f32"), ("f64", "f64"), ("v128", "v128"),
        ("funcref", "funcref"), ("externref", "externref"), ("anyref", "anyref"), ("eqref", "eqref"),
        ("i31ref", "i31ref"), ("structref", "structref"), ("arrayref", "arrayref"), ("nullref", "nullref"),
        ("nullfuncref", "nullfuncref"), ("nullexternref", "nullexternref"), ("exnref", "exnref"),
        ("nullexnref", "nullexnref"), ("contref", "contref"), ("nullcontref", "nullcontref"),
        ("ref-func", "(ref func)"), ("ref-extern", "(ref extern)"), ("ref-any", "(ref any)"),
        ("ref-eq", "(ref eq)"), ("ref-i31", "(ref i31)"), ("ref-struct", "(ref struct)"),
        ("ref-array", "(ref array)"), ("ref-none", "(ref none)"), ("ref-nofunc", "(ref nofunc)"),
        ("ref-noextern", "(ref noextern)"), ("ref-exn", "(ref exn)"), ("ref-noexn", "(ref noexn)"),
        ("ref-concrete", "(ref 0)"), ("ref-null-concrete", "(ref null 0)"),
        ("ref-null-shared-any", "(ref null (shared any))"), ("ref-shared-func", "(ref (shared func))"),
    ];
    for (n, t) in valtypes {
        v.push((
            format!("vt-{}", n),
            format!(
                "(module (type (func)) (type (func (param {t}) (result {t}))) (type (struct (field {t}))) (func (param {t}) (local {t}) unreachable){})",
                if t.contains("ref") && (!t.starts_with("(ref ") || t.starts_with("(ref null")) { format!(" (table 0 {})", t) } else { String::new() },
                t = t
            ),
        ));
    }
    // ref.null of every abstract heap type as a global initialiser
    for ht in ["func", "extern", "any", "eq", "i31", "struct", "array", "none", "nofunc", "noextern", "exn", "noexn", "cont", "nocont"] {
        v.push((
            format!("refnull-{}", ht),
            format!("(module (global (ref null {ht}) (ref.null {ht})) (func (drop (ref.null {ht}))))", ht = ht),
        ));
    }
    // a custom section at every position of a module with all 13 standard sections
    let parts: [(&str, &str); 13] = [
        ("type", "(type $t (func))"),
        ("import", r#"(import "a" "b" (func (type $t)))"#),
        ("func", "(func $f (type $t))"),
        ("table", "(table 1 funcref)"),
        ("memory", "(memory 1)"),
        ("tag", "(tag (type $t))"),
        ("global", "(global i32 (i32.const 0))"),
        ("export", r#"(export "e" (func $f))"#),
        ("start", "(start $f)"),
        ("elem", "(elem (i32.const 0) func $f)"),
        ("datacount", ""),
        ("code", ""),
        ("data", r#"(data (i32.const 0) "a")"#),
    ];
    let body: String = parts.iter().map(|p| p.1).collect::<Vec<_>>().join(" ");
    v.push(("custom-pos-first".to_string(), format!(r#"(module {} (@custom "c" (before first) "x"))"#, body)));
    for (n, _) in parts.iter() {
        if *n == "datacount" {
            continue;
        }
        v.push((format!("custom-pos-after-{}", n), format!(r#"(module {} (@custom "c" (after {}) "x"))"#, body, n)));
    }
    // name section placed before the code section (function names then index a code entry that
    // has not been read yet) and a name section in a module without code
    v.push(("custom-pos-last".to_string(), format!(r#"(module {} (@custom "c" (after last) "x"))"#, body)));
    v
}

fn leb(out: &mut Vec<u8>, mut v: u32) {
    loop {
        let b = (v & 0x7f) as u8;
        v >>= 7;
        if v == 0 {
            out.push(b);
            break;
        }
        out.push(b | 0x80);
    }
}

fn section(out: &mut Vec<u8>, id: u8, payload: &[u8]) {
    out.push(id);
    leb(out, payload.len() as u32);
    out.extend_from_slice(payload);
}

fn custom(out: &mut Vec<u8>, name: &str, data: &[u8]) {
    let mut p = vec![];
    leb(&mut p, name.len() as u32);
    p.extend_from_slice(name.as_bytes());
    p.extend_from_slice(data);
    section(out, 0, &p);
}

const MODULE_HEADER: [u8; 8] = [0x00, 0x61, 0x73, 0x6d, 0x01, 0x00, 0x00, 0x00];
const COMPONENT_HEADER: [u8; 8] = [0x00, 0x61, 0x73, 0x6d, 0x0d, 0x00, 0x01, 0x00];

/// Seeds assembled byte by byte (shapes the text format cannot express).
fn raw_core_seeds() -> Vec<(String, Vec<u8>)> {
    let mut v = vec![];
    // name section BEFORE the code section: type, function, name(function 0 -> "f"), code
    {
        let mut m = MODULE_HEADER.to_vec();
        section(&mut m, 1, &[1, 0x60, 0, 0]);
        section(&mut m, 3, &[1, 0]);
        custom(&mut m, "name", &[1, 4, 1, 0, 1, b'f']);
        section(&mut m, 10, &[1, 2, 0, 0x0b]);
        v.push(("raw-name-before-code".to_string(), m));
    }
    // name section in a module without functions, naming function 0
    {
        let mut m = MODULE_HEADER.to_vec();
        custom(&mut m, "name", &[1, 4, 1, 0, 1, b'f']);
        v.push(("raw-name-func-without-code".to_string(), m));
    }
    // name section with every subsection id 0..=11 (and an unknown id 12), each with one entry
    {
        let mut m = MODULE_HEADER.to_vec();
        section(&mut m, 1, &[1, 0x60, 0, 0]);
        section(&mut m, 3, &[1, 0]);
        section(&mut m, 10, &[1, 2, 0, 0x0b]);
        let mut n = vec![];
        n.extend_from_slice(&[0, 2, 1, b'm']); // module
        n.extend_from_slice(&[1, 4, 1, 0, 1, b'f']); // functions
        n.extend_from_slice(&[2, 6, 1, 0, 1, 0, 1, b'l']); // locals
        n.extend_from_slice(&[3, 6, 1, 0, 1, 0, 1, b'b']); // labels
        for id in [4u8, 5, 6, 7, 8, 9] {
            n.extend_from_slice(&[id, 4, 1, 0, 1, b'a' + id]); // type table memory global elem data
        }
        n.extend_from_slice(&[10, 6, 1, 0, 1, 0, 1, b'x']); // fields
        n.extend_from_slice(&[11, 4, 1, 0, 1, b't']); // tags
        n.extend_from_slice(&[12, 1, 0]); // unknown subsection
        custom(&mut m, "name", &n);
        v.push(("raw-name-every-subsection".to_string(), m));
    }
    // two name sections
    {
        let mut m = MODULE_HEADER.to_vec();
        custom(&mut m, "name", &[0, 2, 1, b'a']);
        custom(&mut m, "name", &[0, 2, 1, b'b']);
        v.push(("raw-name-twice".to_string(), m));
    }
    // producers with zero fields / with a field that has zero values / two fields
    {
        let mut m = MODULE_HEADER.to_vec();
        custom(&mut m, "producers", &[1, 8, b'l', b'a', b'n', b'g', b'u', b'a', b'g', b'e', 0]);
        v.push(("raw-producers-field-no-values".to_string(), m));
    }
    {
        let mut m = MODULE_HEADER.to_vec();
        custom(&mut m, "producers", &[2, 3, b's', b'd', b'k', 1, 1, b'a', 1, b'1', 12, b'p', b'r', b'o', b'c', b'e', b's', b's', b'e', b'd', b'-', b'b', b'y', 1, 1, b'b', 0]);
        v.push(("raw-producers-two-fields".to_string(), m));
    }
    // known custom sections of wasmparser other than name/producers
    {
        let mut m = MODULE_HEADER.to_vec();
        custom(&mut m, "core", &[0, 0, 0, 0]);
        custom(&mut m, "coremodules", &[0]);
        custom(&mut m, "reloc.CODE", &[10, 0]);
        custom(&mut m, "component-name", &[0, 2, 1, b'c']);
        v.push(("raw-known-customs".to_string(), m));
    }
    // sections in a non-canonical order and repeated (the parsers do not validate order)
    {
        let mut m = MODULE_HEADER.to_vec();
        section(&mut m, 8, &[0]); // start before anything else
        section(&mut m, 1, &[1, 0x60, 0, 0]);
        section(&mut m, 3, &[1, 0]);
        section(&mut m, 10, &[1, 2, 0, 0x0b]);
        v.push(("raw-start-first".to_string(), m));
    }
    // function section whose type index has no type (types[&functions[index]])
    {
        let mut m = MODULE_HEADER.to_vec();
        section(&mut m, 3, &[1, 0]);
        section(&mut m, 10, &[1, 2, 0, 0x0b]);
        v.push(("raw-func-without-type".to_string(), m));
    }
    // function declared with a struct type
    {
        let mut m = MODULE_HEADER.to_vec();
        section(&mut m, 1, &[1, 0x5f, 0]);
        section(&mut m, 3, &[1, 0]);
        section(&mut m, 10, &[1, 2, 0, 0x0b]);
        v.push(("raw-func-of-struct-type".to_string(), m));
    }
    // `ref.null <type index 2^20>` as a global initialiser (RefType::new(..) has no such index)
    {
        let mut m = MODULE_HEADER.to_vec();
        section(&mut m, 6, &[1, 0x70, 0, 0xd0, 0x80, 0x80, 0xc0, 0x00, 0x0b]);
        v.push(("raw-ref-null-huge-index".to_string(), m));
    }
    // a component-only section id inside a core module and an unknown section id
    {
        let mut m = MODULE_HEADER.to_vec();
        section(&mut m, 14, &[0]);
        v.push(("raw-unknown-section-14".to_string(), m));
    }
    v
}

/// A ladder of nested components: depth 1 = `(component (core module))`.
fn ladder(depth: usize) -> Vec<u8> {
    // innermost: a component holding one empty core module
    let mut inner = COMPONENT_HEADER.to_vec();
    section(&mut inner, 1, &MODULE_HEADER);
    for _ in 1..depth {
        let mut outer = COMPONENT_HEADER.to_vec();
        section(&mut outer, 4, &inner);
        inner = outer;
    }
    inner
}

/// A ladder of nested component types (tag 0x41) or instance types (tag 0x42) in one type
/// section: depth 1 = `(component (type (component)))`.
fn type_ladder(depth: usize, tag: u8) -> Vec<u8> {
    let mut inner = vec![tag, 0];
    for _ in 1..depth {
        let mut outer = vec![tag, 1, 1];
        outer.extend_from_slice(&inner);
        inner = outer;
    }
    let mut payload = vec![1];
    payload.extend_from_slice(&inner);
    let mut c = COMPONENT_HEADER.to_vec();
    section(&mut c, 7, &payload);
    c
}

fn raw_component_seeds() -> Vec<(String, Vec<u8>)> {
    let mut v = vec![];
    // component-name section with every subsection: component name + the 13 sort-indexed maps
    {
        let mut c = COMPONENT_HEADER.to_vec();
        let mut n = vec![];
        n.extend_from_slice(&[0, 2, 1, b'c']);
        // sort-indexed subsections: id 1, payload = sort byte(s) + name map
        for sort in [[0x00u8, 0x00], [0x00, 0x01], [0x00, 0x02], [0x00, 0x03], [0x00, 0x04], [0x00, 0x10], [0x00, 0x11], [0x00, 0x12]] {
            n.extend_from_slice(&[1, 6, sort[0], sort[1], 1, 0, 1, b'a']);
        }
        for sort in [0x01u8, 0x02, 0x03, 0x04, 0x05] {
            n.extend_from_slice(&[1, 5, sort, 1, 0, 1, b'b']);
        }
        n.extend_from_slice(&[9, 1, 0]); // unknown subsection
        custom(&mut c, "component-name", &n);
        v.push(("raw-c-name-every-subsection".to_string(), c));
    }
    // a core module with every kind of content inside a component inside a component
    {
        let m = wat::parse_str(r#"(module $m (import "a" "f" (func $i)) (func $f (param $p i32)) (global i32 (i32.const 1)) (memory 1) (data (i32.const 0) "x") (tag) (@producers (language "C" "1")))"#).unwrap_or_default();
        let mut inner = COMPONENT_HEADER.to_vec();
        section(&mut inner, 1, &m);
        let mut outer = COMPONENT_HEADER.to_vec();
        section(&mut outer, 4, &inner);
        section(&mut outer, 1, &m);
        v.push(("raw-c-module-in-depth-2".to_string(), outer));
    }
    // a core module header where a component is expected and vice versa
    {
        let mut c = COMPONENT_HEADER.to_vec();
        section(&mut c, 1, &COMPONENT_HEADER);
        section(&mut c, 4, &MODULE_HEADER);
        v.push(("raw-c-swapped-headers".to_string(), c));
    }
    v
}
