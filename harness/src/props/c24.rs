//! C24 — Opcode helpers emit exactly the named instruction.
use crate::engine::*;
use serde::Serialize;
use wasmparser::{MemArg, Operator};
use wirm::ir::function::FunctionBuilder;
use wirm::ir::id::{DataSegmentID, ElementID, FieldID, FunctionID, GlobalID, LocalID, TypeID};
use wirm::ir::module::module_types::{AbstractHeapType, HeapType};
use wirm::ir::types::BlockType;
use wirm::opcode::{MacroOpcode, Opcode};
use wirm::{DataType, Module};

include!("c24_table.rs");

#[derive(Serialize, Clone, Debug)]
struct Case {
    helper: String,
    v: String,
    w: String,
    memarg: (u8, u64, u32),
    bt: usize,
    ht: usize,
}

/// Base module: 3 functions, 3 globals, 3 memories (one import + two locals each), so that the
/// entity-indexed helpers have live targets 0..=2 (a dangling index makes encoding fail loudly,
/// which is C09's business, not this property's).
const BASE_WAT: &str = r#"(module
  (import "e" "f0" (func))
  (import "e" "g0" (global i32))
  (import "e" "m0" (memory 1))
  (func) (func)
  (global (mut i32) (i32.const 0)) (global (mut i32) (i32.const 1))
  (memory 1) (memory 1))"#;
fn base() -> &'static [u8] {
    static B: std::sync::OnceLock<Vec<u8>> = std::sync::OnceLock::new();
    B.get_or_init(|| wat::parse_str(BASE_WAT).expect("base wat"))
}

fn block_types() -> Vec<(BlockType, wasmparser::BlockType)> {
    use wasmparser::AbstractHeapType as P;
    use wasmparser::ValType as V;
    let r = |nullable: bool, ty: P| -> wasmparser::BlockType {
        wasmparser::BlockType::Type(V::Ref(wasmparser::RefType::new(nullable, wasmparser::HeapType::Abstract { shared: false, ty }).expect("ref type")))
    };
    let mut v = vec![
        (BlockType::Empty, wasmparser::BlockType::Empty),
        (BlockType::FuncType(TypeID(0)), wasmparser::BlockType::FuncType(0)),
        (BlockType::FuncType(TypeID(7)), wasmparser::BlockType::FuncType(7)),
    ];
    // every value type the IR can name as a single block result
    for (d, w) in [(DataType::I32, V::I32), (DataType::I64, V::I64), (DataType::F32, V::F32), (DataType::F64, V::F64), (DataType::V128, V::V128)] {
        v.push((BlockType::Type(d), wasmparser::BlockType::Type(w)));
    }
    for (d, n, ty) in [
        (DataType::FuncRef, false, P::Func),
        (DataType::FuncRefNull, true, P::Func),
        (DataType::ExternRef, false, P::Extern),
        (DataType::ExternRefNull, true, P::Extern),
        (DataType::Any, false, P::Any),
        (DataType::AnyNull, true, P::Any),
        (DataType::None, false, P::None),
        (DataType::NoneNull, true, P::None),
        (DataType::NoExtern, false, P::NoExtern),
        (DataType::NoExternNull, true, P::NoExtern),
        (DataType::NoFunc, false, P::NoFunc),
        (DataType::NoFuncNull, true, P::NoFunc),
        (DataType::Eq, false, P::Eq),
        (DataType::EqNull, true, P::Eq),
        (DataType::Struct, false, P::Struct),
        (DataType::StructNull, true, P::Struct),
        (DataType::Array, false, P::Array),
        (DataType::ArrayNull, true, P::Array),
        (DataType::I31, false, P::I31),
        (DataType::I31Null, true, P::I31),
        (DataType::Exn, false, P::Exn),
        (DataType::ExnNull, true, P::Exn),
        (DataType::NoExn, false, P::NoExn),
        (DataType::NoExnNull, true, P::NoExn),
    ] {
        v.push((BlockType::Type(d), r(n, ty)));
    }
    for nullable in [false, true] {
        let rt = wasmparser::RefType::new(nullable, wasmparser::HeapType::Concrete(wasmparser::UnpackedIndex::Module(3))).expect("ref type");
        v.push((BlockType::Type(DataType::Module { ty_id: 3, nullable }), wasmparser::BlockType::Type(V::Ref(rt))));
    }
    v
}

fn heap_types() -> Vec<(HeapType, wasmparser::HeapType)> {
    use wasmparser::AbstractHeapType as P;
    let mut v = vec![];
    for (a, p) in [
        (AbstractHeapType::Func, P::Func),
        (AbstractHeapType::Extern, P::Extern),
        (AbstractHeapType::Any, P::Any),
        (AbstractHeapType::None, P::None),
        (AbstractHeapType::NoExtern, P::NoExtern),
        (AbstractHeapType::NoFunc, P::NoFunc),
        (AbstractHeapType::Eq, P::Eq),
        (AbstractHeapType::Struct, P::Struct),
        (AbstractHeapType::Array, P::Array),
        (AbstractHeapType::I31, P::I31),
        (AbstractHeapType::Exn, P::Exn),
        (AbstractHeapType::NoExn, P::NoExn),
    ] {
        v.push((
            HeapType::Abstract { shared: false, ty: a },
            wasmparser::HeapType::Abstract { shared: false, ty: p },
        ));
    }
    v.push((
        HeapType::Abstract { shared: true, ty: AbstractHeapType::Any },
        wasmparser::HeapType::Abstract { shared: true, ty: P::Any },
    ));
    for i in [0u32, 3] {
        v.push((
            HeapType::Concrete(wasmparser::UnpackedIndex::Module(i)),
            wasmparser::HeapType::Concrete(wasmparser::UnpackedIndex::Module(i)),
        ));
    }
    v
}

fn domain(kind: &str) -> Vec<(i128, i128)> {
    let one = |xs: &[i128]| xs.iter().map(|x| (*x, 0i128)).collect::<Vec<_>>();
    match kind {
        "NONE" | "MA" | "BT" | "HT" => vec![(0, 0)],
        "U32" => one(&[0, 1, 2, 0x7fff_ffff, 0x8000_0000, 0xffff_ffff]),
        "U64" => one(&[0, 1, 0x7fff_ffff_ffff_ffff, 0x8000_0000_0000_0000, 0xffff_ffff_ffff_ffff]),
        "I32" => one(&[0, 1, -1, i32::MIN as i128, i32::MAX as i128, 0x5F00]),
        "I64" => one(&[0, 1, -1, i64::MIN as i128, i64::MAX as i128]),
        // bit patterns: +0 -0 1.5 +inf -inf qNaN qNaN+payload sNaN sNaN(min payload) -sNaN
        "F32" => one(&[
            0x0000_0000, 0x8000_0000, 0x3fc0_0000, 0x7f80_0000, 0xff80_0000, 0x7fc0_0000, 0x7fc0_1234, 0x7fa0_0000,
            0x7f80_0001, 0xff80_0001,
        ]),
        "F64" => one(&[
            0x0000_0000_0000_0000,
            0x8000_0000_0000_0000,
            0x3ff8_0000_0000_0000,
            0x7ff0_0000_0000_0000,
            0xfff0_0000_0000_0000,
            0x7ff8_0000_0000_0000,
            0x7ff8_0000_dead_beef,
            0x7ff4_0000_0000_0000,
            0x7ff0_0000_0000_0001,
            0xfff0_0000_0000_0001,
        ]),
        "ENT" => one(&[0, 1, 2]),
        "U32xENT" => vec![(0, 0), (1, 2), (0xffff_ffff, 1)],
        "ENTxENT" => vec![(0, 0), (0, 1), (1, 0), (2, 1), (1, 2)],
        "U32x2" => vec![(0, 0), (0, 1), (1, 0), (2, 5), (0xffff_ffff, 0x7fff_ffff), (0x8000_0000, 0xffff_ffff)],
        k => panic!("unknown domain {}", k),
    }
}

fn memargs() -> Vec<(u8, u64, u32)> {
    vec![(0, 0, 0), (2, 0, 0), (3, 65537, 1), (0, u32::MAX as u64, 0), (1, 1 << 33, 2), (2, 8, 1)]
}

fn scrape_names() -> Result<Vec<String>, String> {
    let src = std::fs::read_to_string("/repo/src/opcode.rs").map_err(|e| e.to_string())?;
    let start = src.find("pub trait Opcode").ok_or("no Opcode trait")?;
    let mut names = vec![];
    for line in src[start..].lines() {
        let t = line.trim_start();
        if let Some(rest) = t.strip_prefix("fn ") {
            if let Some(p) = rest.find('(') {
                names.push(rest[..p].to_string());
            }
        }
    }
    Ok(names)
}

fn norm(op: &Operator) -> String {
    // max_align is not part of the encoding (it is a property of the opcode): drop it
    let s = format!("{:?}", op);
    let mut out = String::new();
    let mut rest = s.as_str();
    while let Some(i) = rest.find("max_align: ") {
        out.push_str(&rest[..i]);
        let tail = &rest[i + "max_align: ".len()..];
        let j = tail.find(|c: char| !c.is_ascii_digit()).unwrap_or(tail.len());
        rest = tail[j..].trim_start_matches(", ");
    }
    out.push_str(rest);
    out
}

fn run_case(c: &Case) -> Outcome {
    let mut o = Outcome::ok(format!("{}:{}", c.helper, if c.v == "0" && c.w == "0" { "base" } else { "imm" }));
    let v: i128 = c.v.parse().unwrap();
    let w: i128 = c.w.parse().unwrap();
    let ma = MemArg { align: c.memarg.0, max_align: c.memarg.0, offset: c.memarg.1, memory: c.memarg.2 };
    let bts = block_types();
    let hts = heap_types();
    let res = catch(|| {
        let mut module = Module::parse(base(), true).expect("base module parses");
        let mut b = FunctionBuilder::new(&[], &[]);
        // structured helpers need a syntactic context, or the decoder refuses the body
        match c.helper.as_str() {
            "else_stmt" => { b.if_stmt(BlockType::Empty); }
            "end" => { b.block(BlockType::Empty); }
            _ => {}
        }
        let (expected, _) = run_helper(&c.helper, &mut b, v, w, ma, &bts[c.bt], &hts[c.ht]);
        match c.helper.as_str() {
            "else_stmt" | "if_stmt" | "block" | "loop_stmt" => { b.end(); }
            _ => {}
        }
        b.finish_module(&mut module);
        (norm(&expected), module.encode())
    });
    let (expected, bytes) = match res {
        Ok(x) => x,
        Err(p) => {
            o.fail(format!("helper-panics {}", c.helper), format!("{} at {}:{}", p.msg, p.file, p.line));
            return o;
        }
    };
    o.observed = hash_of(&bytes);
    // decode without validating: single instructions are not valid programs
    let mut got_last: Vec<String> = vec![];
    for p in wasmparser::Parser::new(0).parse_all(&bytes) {
        match p {
            Ok(wasmparser::Payload::CodeSectionEntry(body)) => {
                let mut got: Vec<String> = vec![];
                let mut r = body.get_operators_reader().unwrap();
                while !r.eof() {
                    match r.read() {
                        Ok(op) => got.push(norm(&op)),
                        Err(e) => {
                            got.push(format!("<decode error {}>", e));
                            break;
                        }
                    }
                }
                got_last = got;
            }
            Ok(_) => {}
            Err(e) => {
                o.fail(format!("output-undecodable {}", c.helper), e.to_string());
                return o;
            }
        }
    }
    let mut want = vec![];
    match c.helper.as_str() {
        "else_stmt" => want.push("If { blockty: Empty }".to_string()),
        "end" => want.push("Block { blockty: Empty }".to_string()),
        _ => {}
    }
    want.push(expected.clone());
    match c.helper.as_str() {
        "else_stmt" | "if_stmt" | "block" | "loop_stmt" => want.push("End".to_string()),
        _ => {}
    }
    want.push("End".to_string());
    // the built function is the last one of the code section
    let got: Vec<String> = got_last;
    if got != want {
        o.fail(
            format!("wrong-instruction {}", c.helper),
            format!("helper {} v={} w={} memarg={:?}: expected {:?}, encoded {:?}", c.helper, c.v, c.w, c.memarg, want, got),
        );
    }
    o
}

pub fn check(tier: Tier) -> i32 {
    let mut run = Run::new("C24", tier, "exploration");
    run.rule = "every default method of Opcode/MacroOpcode (names scraped from src/opcode.rs must equal the expectation table's key set) x boundary immediates (ints 0,1,-1,MIN,MAX; f32/f64 bit patterns incl. quiet/signalling NaN payloads; u32/u64 0,2^31,MAX; 6 memargs; 6 block types; 15 heap types); called on a FunctionBuilder, encoded, decoded with wasmparser; non-trivial class = (helper, base|immediate-variant)".into();
    let scraped = match scrape_names() {
        Ok(s) => s,
        Err(e) => {
            run.machinery_error(format!("cannot scrape opcode.rs: {}", e));
            return run.finish();
        }
    };
    let table: std::collections::BTreeSet<&str> = HELPER_NAMES.iter().copied().collect();
    let src: std::collections::BTreeSet<&str> = scraped.iter().map(|s| s.as_str()).collect();
    if table != src {
        let missing: Vec<_> = src.difference(&table).collect();
        let extra: Vec<_> = table.difference(&src).collect();
        if !extra.is_empty() {
            // a tabled helper is gone from the source: the harness cannot even have compiled against it
            run.machinery_error(format!(
                "helper set of src/opcode.rs differs from the expectation table (regenerate with tools/gen_c24_table.py): not in source {:?}",
                extra
            ));
            return run.finish();
        }
        // helpers the table does not know (added to the library later): a hole in the claim, stated in
        // the evidence; every tabled helper is still checked
        run.extra.insert("helpers_in_source_without_expectation".into(), serde_json::json!(missing));
        run.assumptions.push(format!("{} helper(s) of src/opcode.rs are not in the expectation table and are NOT checked: {:?} (regenerate with tools/gen_c24_table.py)", missing.len(), missing));
    }
    // which domain does each helper use: ask the table with a dry call
    let mut cases = vec![];
    let bts = block_types();
    let hts = heap_types();
    for name in HELPER_NAMES {
        let kind = {
            let mut b = FunctionBuilder::new(&[], &[]);
            let ma = MemArg { align: 0, max_align: 0, offset: 0, memory: 0 };
            run_helper(name, &mut b, 0, 0, ma, &bts[0], &hts[0]).1
        };
        let mas = if kind == "MA" { memargs() } else { vec![(0, 0, 0)] };
        let nbt = if kind == "BT" { bts.len() } else { 1 };
        let nht = if kind == "HT" { hts.len() } else { 1 };
        for (v, w) in domain(kind) {
            for ma in mas.iter() {
                for bt in 0..nbt {
                    for ht in 0..nht {
                        cases.push(Case { helper: name.to_string(), v: v.to_string(), w: w.to_string(), memarg: *ma, bt, ht });
                    }
                }
            }
        }
    }
    run.extra.insert("helpers".into(), serde_json::json!(HELPER_NAMES.len()));
    run.run_cases("helper x immediates", &cases, run_case);
    run.assumptions.push("decoding by wasmparser 0.235 is correct; max_align is not part of the binary encoding and is not compared".into());
    run.finish()
}

pub fn replay(case: &serde_json::Value) -> Vec<Mismatch> {
    let c = Case {
        helper: case["helper"].as_str().unwrap_or("").to_string(),
        v: case["v"].as_str().unwrap_or("0").to_string(),
        w: case["w"].as_str().unwrap_or("0").to_string(),
        memarg: (
            case["memarg"][0].as_u64().unwrap_or(0) as u8,
            case["memarg"][1].as_u64().unwrap_or(0),
            case["memarg"][2].as_u64().unwrap_or(0) as u32,
        ),
        bt: case["bt"].as_u64().unwrap_or(0) as usize,
        ht: case["ht"].as_u64().unwrap_or(0) as usize,
    };
    run_case(&c).mismatches
}
