pub mod c24;
