pub mod c01;
pub mod c24;
pub mod hist;
