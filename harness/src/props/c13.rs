//! C13 — Added types are exact and deduplicated.
//!
//! History exploration (DESIGN §1 E1, §2 C13): a state is the history of `module.types.add_*` calls
//! that reaches it; every state is rebuilt by parsing the base and replaying the real API calls in
//! lock-step with the reference model (the list of requested descriptors); the invariant is evaluated
//! in every state, i.e. every history of length 0..=L is a case of its own (the set is prefix closed).
//!
//! Oracle (decoded with wasmparser, never with wirm), rec groups flattened to an index-ordered list:
//!  1. the types of the base are an unchanged prefix (content; and the partition into rec groups);
//!  2. the subtype at each returned index is structurally the requested one (composite kind, field /
//!     param / result types, mutability, finality, supertype index, sharedness);
//!  3. two requests that are structurally equal (tag and API variant ignored, supertype resolved to the
//!     returned index) got the same index;
//!  4. the output validates whenever an independently built reference type section (base rec groups
//!     re-encoded with wasm-encoder + the requested types as singleton groups) validates.
//! Lenient readings (property text silent): a request equal to a type ALREADY in the base may return the
//! index of any structurally identical base type (also a member of an explicit rec group; counted as
//! `dedup_onto_recgroup_member`) or a fresh index; additional unrequested types in the output are not
//! judged; the position/grouping of the added types is not judged.
use crate::engine::*;
use crate::wasmutil;
use serde::{Deserialize, Serialize};
use std::collections::BTreeMap;
use wirm::ir::id::TypeID;
use wirm::ir::types::Tag;
use wirm::{DataType, Module};

#[derive(Serialize, Deserialize, Clone, Debug, PartialEq, Eq, Hash)]
enum VT {
    I32,
    I64,
    F32,
    F64,
    V128,
    FuncRef,
    ExternRef,
    AnyRef,
    I8,
    I16,
    /// (ref null <type index of the base>)
    RefNull(u32),
}

#[derive(Serialize, Deserialize, Clone, Debug, PartialEq, Eq, Hash)]
enum Comp {
    Func { params: Vec<VT>, results: Vec<VT> },
    Array { elem: VT, mutable: bool },
    Struct { fields: Vec<(VT, bool)> },
}

#[derive(Serialize, Deserialize, Clone, Debug, PartialEq, Eq, Hash)]
enum Sup {
    None,
    /// a type index of the base module
    Base(u32),
    /// the TypeID returned by the k-th call of this history
    Prev(usize),
}

#[derive(Serialize, Deserialize, Clone, Debug, PartialEq, Eq, Hash)]
struct Op {
    comp: Comp,
    /// true: `add_*_type_with_params(.., super_type, is_final, shared=false, tag)`, false: the short form
    /// (then is_final = true, sup = None is what the short form is documented/implemented to mean)
    with_params: bool,
    is_final: bool,
    sup: Sup,
    /// pass Some(Tag::default()) instead of None (must not influence deduplication)
    tag: bool,
}

#[derive(Serialize, Deserialize, Clone, Debug)]
struct Case {
    base: String,
    ops: Vec<Op>,
}

// ---------------------------------------------------------------------------------------------
// bases (generated with `wat`, never with wirm)
// ---------------------------------------------------------------------------------------------
const BASES: &[(&str, &str)] = &[
    // (a) no type section
    ("a-notypes", "(module (memory 1))"),
    // (b) plain distinct types, incl. `[] -> []`, a struct and an array equal to alphabet entries
    (
        "b-plain",
        r#"(module
          (type (func))
          (type (func (param i32)))
          (type (func (param i32 i64) (result f32)))
          (type (struct (field i32)))
          (type (array (mut i8)))
          (func (type 0)) (func (type 1) (param i32)))"#,
    ),
    // (c) explicit rec group of 2 (one member equals the alphabet's empty struct) + a plain type
    (
        "c-recgroup",
        r#"(module
          (rec (type $a (struct (field (ref null $b)))) (type $b (struct)))
          (type (func (param i32)))
          (func (type 2) (param i32)))"#,
    ),
    // (f) the type section ENDS with an explicit rec group (an added type must not join it)
    (
        "f-recgroup-last",
        r#"(module
          (type (func (param i32)))
          (rec (type $a (struct (field (ref null $b)))) (type $b (struct)))
          (func (type 0) (param i32)))"#,
    ),
    // (d) DUPLICATE structurally equal function types 0 and 1, a function using each
    (
        "d-duplicates",
        r#"(module
          (type (func))
          (type (func))
          (type (func (param i32)))
          (func (type 0)) (func (type 1)) (func (type 2) (param i32)))"#,
    ),
    // (e) GC types with sub / final
    (
        "e-subfinal",
        r#"(module
          (type $s (sub (struct (field i32))))
          (type $t (sub $s (struct (field i32) (field (mut i64)))))
          (type $u (sub final $t (struct (field i32) (field (mut i64)) (field f32))))
          (type $f (sub (func (param i32))))
          (type $arr (sub (array (mut i32))))
          (func (type $f) (param i32)))"#,
    ),
];

fn base_bytes(name: &str) -> Option<&'static [u8]> {
    static B: std::sync::OnceLock<Vec<(String, Vec<u8>)>> = std::sync::OnceLock::new();
    let v = B.get_or_init(|| {
        BASES
            .iter()
            .map(|(n, w)| (n.to_string(), wat::parse_str(w).expect("base wat")))
            .collect()
    });
    v.iter().find(|(n, _)| n == name).map(|(_, b)| b.as_slice())
}

// ---------------------------------------------------------------------------------------------
// decoding of type sections (wasmparser only)
// ---------------------------------------------------------------------------------------------
#[derive(Clone, Debug, Default)]
struct TypeView {
    flat: Vec<String>,
    /// sizes of the rec groups in order
    groups: Vec<usize>,
}
impl TypeView {
    fn group_of(&self, idx: usize) -> usize {
        let mut start = 0;
        for g in self.groups.iter() {
            if idx < start + g {
                return *g;
            }
            start += g;
        }
        0
    }
}

fn render_sub(st: &wasmparser::SubType) -> String {
    use wasmparser::CompositeInnerType as I;
    let sup = match st.supertype_idx {
        None => "none".to_string(),
        Some(p) => match p.unpack() {
            wasmparser::UnpackedIndex::Module(i) => i.to_string(),
            other => format!("{}", other),
        },
    };
    let comp = match &st.composite_type.inner {
        I::Func(f) => format!(
            "func [{}] -> [{}]",
            f.params().iter().map(|v| v.to_string()).collect::<Vec<_>>().join(" "),
            f.results().iter().map(|v| v.to_string()).collect::<Vec<_>>().join(" ")
        ),
        I::Array(a) => format!("array {} {}", if a.0.mutable { "mut" } else { "const" }, a.0.element_type),
        I::Struct(s) => format!(
            "struct [{}]",
            s.fields
                .iter()
                .map(|f| format!("{} {}", if f.mutable { "mut" } else { "const" }, f.element_type))
                .collect::<Vec<_>>()
                .join("; ")
        ),
        I::Cont(_) => "cont".to_string(),
    };
    format!(
        "{}{} sup={} {}",
        if st.is_final { "final" } else { "open" },
        if st.composite_type.shared { " shared" } else { "" },
        sup,
        comp
    )
}

fn decode_types(bytes: &[u8]) -> Result<TypeView, String> {
    let mut v = TypeView::default();
    for p in wasmparser::Parser::new(0).parse_all(bytes) {
        if let wasmparser::Payload::TypeSection(r) = p.map_err(|e| e.to_string())? {
            for g in r {
                let g = g.map_err(|e| e.to_string())?;
                let mut n = 0;
                for st in g.types() {
                    v.flat.push(render_sub(st));
                    n += 1;
                }
                v.groups.push(n);
            }
        }
    }
    Ok(v)
}

// ---------------------------------------------------------------------------------------------
// reference side: rendering / wasm-encoder form of a requested descriptor
// ---------------------------------------------------------------------------------------------
fn vt_text(v: &VT) -> String {
    match v {
        VT::I32 => "i32".into(),
        VT::I64 => "i64".into(),
        VT::F32 => "f32".into(),
        VT::F64 => "f64".into(),
        VT::V128 => "v128".into(),
        VT::FuncRef => "funcref".into(),
        VT::ExternRef => "externref".into(),
        VT::AnyRef => "anyref".into(),
        VT::I8 => "i8".into(),
        VT::I16 => "i16".into(),
        VT::RefNull(i) => format!("(ref null (module {}))", i),
    }
}
fn vt_data(v: &VT) -> DataType {
    match v {
        VT::I32 => DataType::I32,
        VT::I64 => DataType::I64,
        VT::F32 => DataType::F32,
        VT::F64 => DataType::F64,
        VT::V128 => DataType::V128,
        VT::FuncRef => DataType::FuncRefNull,
        VT::ExternRef => DataType::ExternRefNull,
        VT::AnyRef => DataType::AnyNull,
        VT::I8 => DataType::I8,
        VT::I16 => DataType::I16,
        VT::RefNull(i) => DataType::Module { ty_id: *i, nullable: true },
    }
}
fn vt_enc(v: &VT) -> wasm_encoder::StorageType {
    use wasm_encoder::{AbstractHeapType as A, HeapType as H, RefType, StorageType as S, ValType as V};
    let abs = |ty| S::Val(V::Ref(RefType { nullable: true, heap_type: H::Abstract { shared: false, ty } }));
    match v {
        VT::I32 => S::Val(V::I32),
        VT::I64 => S::Val(V::I64),
        VT::F32 => S::Val(V::F32),
        VT::F64 => S::Val(V::F64),
        VT::V128 => S::Val(V::V128),
        VT::FuncRef => abs(A::Func),
        VT::ExternRef => abs(A::Extern),
        VT::AnyRef => abs(A::Any),
        VT::I8 => S::I8,
        VT::I16 => S::I16,
        VT::RefNull(i) => S::Val(V::Ref(RefType { nullable: true, heap_type: H::Concrete(*i) })),
    }
}
fn enc_val(v: &VT) -> wasm_encoder::ValType {
    match vt_enc(v) {
        wasm_encoder::StorageType::Val(v) => v,
        _ => wasm_encoder::ValType::I32, // packed types never occur in value position in the alphabet
    }
}

fn req_text(op: &Op, sup: Option<u32>) -> String {
    let comp = match &op.comp {
        Comp::Func { params, results } => format!(
            "func [{}] -> [{}]",
            params.iter().map(vt_text).collect::<Vec<_>>().join(" "),
            results.iter().map(vt_text).collect::<Vec<_>>().join(" ")
        ),
        Comp::Array { elem, mutable } => format!("array {} {}", if *mutable { "mut" } else { "const" }, vt_text(elem)),
        Comp::Struct { fields } => format!(
            "struct [{}]",
            fields
                .iter()
                .map(|(t, m)| format!("{} {}", if *m { "mut" } else { "const" }, vt_text(t)))
                .collect::<Vec<_>>()
                .join("; ")
        ),
    };
    format!(
        "{} sup={} {}",
        if op.is_final { "final" } else { "open" },
        match sup {
            None => "none".to_string(),
            Some(i) => i.to_string(),
        },
        comp
    )
}

fn req_enc(op: &Op, sup: Option<u32>) -> wasm_encoder::SubType {
    use wasm_encoder::{ArrayType, CompositeInnerType as I, CompositeType, FieldType, FuncType, StructType, SubType};
    let inner = match &op.comp {
        Comp::Func { params, results } => I::Func(FuncType::new(
            params.iter().map(enc_val).collect::<Vec<_>>(),
            results.iter().map(enc_val).collect::<Vec<_>>(),
        )),
        Comp::Array { elem, mutable } => I::Array(ArrayType(FieldType { element_type: vt_enc(elem), mutable: *mutable })),
        Comp::Struct { fields } => I::Struct(StructType {
            fields: fields
                .iter()
                .map(|(t, m)| FieldType { element_type: vt_enc(t), mutable: *m })
                .collect::<Vec<_>>()
                .into_boxed_slice(),
        }),
    };
    SubType { is_final: op.is_final, supertype_idx: sup, composite_type: CompositeType { inner, shared: false } }
}

/// base rec groups re-encoded by wasm-encoder's own re-encoder + `added` as singleton groups
fn reference_module(base: &[u8], added: &[wasm_encoder::SubType]) -> Result<Vec<u8>, String> {
    use wasm_encoder::reencode::{Reencode, RoundtripReencoder};
    let mut ts = wasm_encoder::TypeSection::new();
    for p in wasmparser::Parser::new(0).parse_all(base) {
        if let wasmparser::Payload::TypeSection(r) = p.map_err(|e| e.to_string())? {
            RoundtripReencoder.parse_type_section(&mut ts, r).map_err(|e| e.to_string())?;
        }
    }
    for s in added {
        ts.ty().subtype(s);
    }
    let mut m = wasm_encoder::Module::new();
    m.section(&ts);
    Ok(m.finish())
}

// ---------------------------------------------------------------------------------------------
// the real calls
// ---------------------------------------------------------------------------------------------
fn apply(m: &mut Module, op: &Op, sup: Option<u32>) -> u32 {
    let tag = if op.tag { Some(Tag::default()) } else { None };
    let sup = sup.map(TypeID);
    let id = match &op.comp {
        Comp::Func { params, results } => {
            let p: Vec<DataType> = params.iter().map(vt_data).collect();
            let r: Vec<DataType> = results.iter().map(vt_data).collect();
            if op.with_params {
                m.types.add_func_type_with_params(&p, &r, sup, op.is_final, false, tag)
            } else {
                m.types.add_func_type(&p, &r, tag)
            }
        }
        Comp::Array { elem, mutable } => {
            if op.with_params {
                m.types.add_array_type_with_params(vt_data(elem), *mutable, sup, op.is_final, false, tag)
            } else {
                m.types.add_array_type(vt_data(elem), *mutable, tag)
            }
        }
        Comp::Struct { fields } => {
            let f: Vec<DataType> = fields.iter().map(|(t, _)| vt_data(t)).collect();
            let mu: Vec<bool> = fields.iter().map(|(_, m)| *m).collect();
            if op.with_params {
                m.types.add_struct_type_with_params(f, mu, sup, op.is_final, false, tag)
            } else {
                m.types.add_struct_type(f, mu, tag)
            }
        }
    };
    *id
}

/// which aspect of two rendered subtypes differs first: finality, supertype, kind, mutability, content
fn diff_aspect(want: &str, got: &str) -> &'static str {
    let w: Vec<&str> = want.splitn(3, ' ').collect();
    let g: Vec<&str> = got.splitn(3, ' ').collect();
    if w.len() < 3 || g.len() < 3 || got.contains(" shared ") {
        return "content";
    }
    if w[0] != g[0] {
        return "finality";
    }
    if w[1] != g[1] {
        return "supertype";
    }
    if w[2].split(' ').next() != g[2].split(' ').next() {
        return "kind";
    }
    let strip = |s: &str| s.replace("mut ", "").replace("const ", "");
    if strip(w[2]) == strip(g[2]) {
        "mutability"
    } else {
        "content"
    }
}

fn kind_letter(op: &Op) -> String {
    let k = match &op.comp {
        Comp::Func { .. } => "F",
        Comp::Array { .. } => "A",
        Comp::Struct { .. } => "S",
    };
    format!(
        "{}{}{}{}",
        k,
        if op.with_params { "p" } else { "" },
        if op.is_final { "" } else { "o" },
        match op.sup {
            Sup::None => "",
            Sup::Base(_) => "^b",
            Sup::Prev(_) => "^p",
        }
    )
}

fn run_case(c: &Case) -> Outcome {
    let base = match base_bytes(&c.base) {
        Some(b) => b,
        None => return Outcome::skip("unknown base"),
    };
    if let Err(e) = wasmutil::validate(base, wasmutil::features_core()) {
        return Outcome::skip(format!("base {} does not validate: {}", c.base, e));
    }
    let bv = match decode_types(base) {
        Ok(v) => v,
        Err(e) => return Outcome::skip(format!("base undecodable: {}", e)),
    };
    let nbase = bv.flat.len();
    let mut o = Outcome::ok("");

    // protocol: a supertype handle is an ID the API returned (or an index of the parsed module)
    let res = catch(|| {
        let mut m = Module::parse(base, false).expect("base parses");
        let mut ids: Vec<u32> = vec![];
        for op in c.ops.iter() {
            let sup = match op.sup {
                Sup::None => None,
                Sup::Base(i) => Some(i),
                Sup::Prev(k) => Some(ids[k]),
            };
            let id = apply(&mut m, op, sup);
            ids.push(id);
        }
        let bytes = m.encode();
        (ids, bytes)
    });
    let (ids, bytes) = match res {
        Ok(x) => x,
        Err(p) => {
            o.class = format!("{}:panic", c.base);
            o.fail(format!("panic {}", p.site()), format!("{} at {}:{} in history {:?}", p.msg, p.file, p.line, c.ops));
            return o;
        }
    };
    o.observed = hash_of(&bytes);
    o.count("api_calls", c.ops.len() as u64);
    let sups: Vec<Option<u32>> = c
        .ops
        .iter()
        .map(|op| match op.sup {
            Sup::None => None,
            Sup::Base(i) => Some(i),
            Sup::Prev(k) => Some(ids[k]),
        })
        .collect();
    let reqs: Vec<String> = c.ops.iter().zip(sups.iter()).map(|(op, s)| req_text(op, *s)).collect();

    let ov = match decode_types(&bytes) {
        Ok(v) => v,
        Err(e) => {
            o.class = format!("{}:undecodable", c.base);
            o.fail("output-undecodable", format!("{} after {:?}", e, reqs));
            return o;
        }
    };

    // 1. base types are an unchanged prefix
    let mut clean = true;
    if ov.flat.len() < nbase {
        o.fail("existing-types-lost", format!("base has {} types, output {}", nbase, ov.flat.len()));
        clean = false;
    } else {
        for i in 0..nbase {
            if ov.flat[i] != bv.flat[i] {
                o.fail(
                    "existing-type-changed",
                    format!("type {} was `{}`, is `{}` after adding {:?}", i, bv.flat[i], ov.flat[i], reqs),
                );
                clean = false;
                break;
            }
        }
        if clean && (ov.groups.len() < bv.groups.len() || ov.groups[..bv.groups.len()] != bv.groups[..]) {
            o.fail(
                "existing-recgroup-partition-changed",
                format!("base rec group sizes {:?}, output {:?}", bv.groups, ov.groups),
            );
            clean = false;
        }
    }

    // 2. the subtype at the returned index is the requested one
    let mut dedup_base = false;
    for (k, id) in ids.iter().enumerate() {
        let id = *id as usize;
        if id >= ov.flat.len() {
            o.fail(
                "returned-index-out-of-range",
                format!("call {} ({}) returned TypeID {}, output has {} types", k, reqs[k], id, ov.flat.len()),
            );
            clean = false;
            continue;
        }
        if ov.flat[id] != reqs[k] {
            let what = if id < nbase { "deduplicated-onto-different-base-type" } else { "wrong-type-at-returned-index" };
            o.fail(
                format!("{} {} {}", what, kind_letter(&c.ops[k]).chars().next().unwrap(), diff_aspect(&reqs[k], &ov.flat[id])),
                format!("call {} requested `{}`, returned TypeID {}, which encodes as `{}`; history {:?}", k, reqs[k], id, ov.flat[id], reqs),
            );
            clean = false;
        }
        if id < nbase {
            dedup_base = true;
            if bv.group_of(id) > 1 {
                o.count("dedup_onto_recgroup_member", 1);
            }
        }
    }

    // 3. equal request => equal index
    let mut dup = false;
    for i in 0..ids.len() {
        for j in i + 1..ids.len() {
            if reqs[i] == reqs[j] {
                dup = true;
                if ids[i] != ids[j] {
                    o.fail(
                        format!("not-deduplicated {}", kind_letter(&c.ops[j]).chars().next().unwrap()),
                        format!("calls {} and {} both requested `{}` but returned {} and {}", i, j, reqs[i], ids[i], ids[j]),
                    );
                    clean = false;
                }
            }
        }
    }

    // 4. validity, against an independently built reference type section
    if clean {
        let mut added: BTreeMap<u32, wasm_encoder::SubType> = BTreeMap::new();
        for (k, id) in ids.iter().enumerate() {
            if (*id as usize) >= nbase {
                added.insert(*id, req_enc(&c.ops[k], sups[k]));
            }
        }
        let contiguous = added.keys().enumerate().all(|(n, k)| *k as usize == nbase + n);
        if contiguous {
            let list: Vec<wasm_encoder::SubType> = added.values().cloned().collect();
            match reference_module(base, &list) {
                Ok(r) => {
                    if wasmutil::validate(&r, wasmutil::features_core()).is_ok() {
                        o.count("reference_valid", 1);
                        if let Err(e) = wasmutil::validate(&bytes, wasmutil::features_core()) {
                            o.fail("output-invalid", format!("{} after {:?}", e, reqs));
                        }
                    } else {
                        o.count("reference_invalid_supertype", 1);
                    }
                }
                Err(e) => {
                    o.fail("machinery reference-module", e);
                }
            }
        } else {
            o.count("non_contiguous_ids_validity_not_judged", 1);
        }
    }

    let mut kinds: Vec<String> = c.ops.iter().map(kind_letter).collect();
    kinds.sort();
    kinds.dedup();
    o.class = format!(
        "{}:{}:{}{}{}",
        c.base,
        kinds.join(","),
        c.ops.len(),
        if dup { ":dup" } else { "" },
        if dedup_base { ":basehit" } else { "" }
    );
    o
}

// ---------------------------------------------------------------------------------------------
// alphabet
// ---------------------------------------------------------------------------------------------
fn short(comp: Comp, tag: bool) -> Op {
    Op { comp, with_params: false, is_final: true, sup: Sup::None, tag }
}
fn full(comp: Comp, is_final: bool, sup: Sup) -> Op {
    Op { comp, with_params: true, is_final, sup, tag: false }
}
fn func(p: &[VT], r: &[VT]) -> Comp {
    Comp::Func { params: p.to_vec(), results: r.to_vec() }
}
fn strukt(f: &[(VT, bool)]) -> Comp {
    Comp::Struct { fields: f.to_vec() }
}

/// the operation menu in the state reached by `hist` on base `base`
fn menu(base: &str, hist: &[Op]) -> Vec<Op> {
    use VT::*;
    let mut v = vec![
        // function signatures through the short form, tag None / Some
        short(func(&[], &[]), false),
        short(func(&[], &[]), true),
        short(func(&[I32], &[]), false),
        short(func(&[I32, I64], &[F32]), true),
        short(func(&[], &[I32, I32]), false),
        short(func(&[FuncRef, ExternRef], &[V128]), false),
        // `_with_params`: same content as a short form (must dedupe), and open variants
        full(func(&[I32], &[]), true, Sup::None),
        full(func(&[], &[]), false, Sup::None),
        // arrays
        short(Comp::Array { elem: I32, mutable: false }, false),
        short(Comp::Array { elem: I32, mutable: true }, true),
        short(Comp::Array { elem: I8, mutable: true }, false),
        short(Comp::Array { elem: I16, mutable: false }, false),
        short(Comp::Array { elem: AnyRef, mutable: true }, false),
        full(Comp::Array { elem: I32, mutable: false }, false, Sup::None),
        // structs
        short(strukt(&[]), false),
        short(strukt(&[(I32, false)]), true),
        short(strukt(&[(I32, true), (I64, false)]), false),
        short(strukt(&[(I32, true), (I64, true)]), false),
        short(strukt(&[(I8, true), (FuncRef, false)]), false),
        full(strukt(&[(I32, false)]), false, Sup::None),
        full(strukt(&[]), false, Sup::None),
        full(strukt(&[(I32, true), (I64, false)]), true, Sup::None),
    ];
    // base-specific: references to and supertypes among the types of the base
    match base {
        "a-notypes" => {}
        "b-plain" | "d-duplicates" => {
            v.push(short(Comp::Array { elem: RefNull(0), mutable: true }, false));
            // base types are final: declaring one as supertype is invalid; structure is still judged
            v.push(full(func(&[], &[]), true, Sup::Base(0)));
        }
        "c-recgroup" => {
            v.push(short(strukt(&[(RefNull(1), false)]), false));
            v.push(full(strukt(&[]), true, Sup::Base(1)));
        }
        "f-recgroup-last" => {
            v.push(short(strukt(&[(RefNull(2), false)]), false));
            v.push(full(strukt(&[]), true, Sup::Base(2)));
        }
        "e-subfinal" => {
            v.push(short(Comp::Array { elem: RefNull(0), mutable: true }, false));
            // equals base type 1 exactly
            v.push(full(strukt(&[(I32, false), (I64, true)]), false, Sup::Base(0)));
            // same, but final: a new type
            v.push(full(strukt(&[(I32, false), (I64, true)]), true, Sup::Base(0)));
            v.push(full(func(&[I32], &[]), true, Sup::Base(3)));
            v.push(full(Comp::Array { elem: I32, mutable: true }, false, Sup::Base(4)));
            // incompatible (fewer fields than the supertype) and final supertype: invalid requests
            v.push(full(strukt(&[]), true, Sup::Base(0)));
            v.push(full(strukt(&[(I32, false), (I64, true), (F32, false)]), true, Sup::Base(2)));
        }
        _ => {}
    }
    // supertype = a type just added by this history
    for (k, prev) in hist.iter().enumerate() {
        v.push(full(prev.comp.clone(), true, Sup::Prev(k)));
        if let Comp::Struct { fields } = &prev.comp {
            let mut f = fields.clone();
            f.push((I32, false));
            v.push(full(Comp::Struct { fields: f }, false, Sup::Prev(k)));
        }
    }
    v
}

fn extend(base: &str, hist: &mut Vec<Op>, depth: usize, out: &mut Vec<Case>) {
    out.push(Case { base: base.to_string(), ops: hist.clone() });
    if depth == 0 {
        return;
    }
    for op in menu(base, hist) {
        hist.push(op);
        extend(base, hist, depth - 1, out);
        hist.pop();
    }
}

pub fn check(tier: Tier) -> i32 {
    let depth = tier.pick(3usize, 4usize);
    let mut run = Run::new("C13", tier, "model_checking");
    run.rule = format!(
        "all histories of length <= {} of module.types.add_{{func,array,struct}}_type[_with_params] over a descriptor menu (22 base-independent descriptors: 5 signatures incl. funcref/externref/v128, tag None/Some, packed i8/i16 and anyref fields, mutability patterns, final/open; + per base references to / supertypes among base types, valid and invalid; + per earlier call k of the history: same content with supertype = returned id k, and a width-extended struct) on 6 bases (no type section; plain types; explicit rec group; explicit rec group at the end of the type section; duplicate equal function types; GC sub/final); each history = one state, rebuilt by parse + replay, invariant evaluated in every state; non-trivial class = (base, set of descriptor kinds, length, duplicate-request?, hit-on-base-type?)",
        depth
    );
    let mut states = 0u64;
    let mut transitions = 0u64;
    for (base, _) in BASES {
        // the root state and the first level in one chunk, then one chunk per first operation
        let mut root = vec![];
        extend(base, &mut vec![], 0, &mut root);
        states += root.len() as u64;
        run.run_cases("type histories", &root, run_case);
        for first in menu(base, &[]) {
            let mut cases = vec![];
            let mut h = vec![first];
            extend(base, &mut h, depth - 1, &mut cases);
            states += cases.len() as u64;
            transitions += cases.iter().map(|c| c.ops.len() as u64).sum::<u64>();
            run.run_cases("type histories", &cases, run_case);
        }
    }
    run.states = Some(states);
    run.transitions = Some(transitions);
    run.traces_validated = Some(states);
    run.extra.insert("max_history_length".into(), serde_json::json!(depth));
    run.extra.insert("bases".into(), serde_json::json!(BASES.iter().map(|b| b.0).collect::<Vec<_>>()));
    run.extra.insert(
        "menu_sizes_at_root".into(),
        serde_json::json!(BASES.iter().map(|b| menu(b.0, &[]).len()).collect::<Vec<_>>()),
    );
    run.assumptions.push("wasmparser 0.235 decodes type sections correctly; structural comparison on flattened rec groups (index-ordered); shared=false only".into());
    run.assumptions.push("hash maps iterate in insertion order (hook build); a request equal to several base types may return any of their indices".into());
    run.finish()
}

pub fn replay(_family: &str, case: &serde_json::Value) -> Vec<Mismatch> {
    match serde_json::from_value::<Case>(case.clone()) {
        Ok(c) => run_case(&c).mismatches,
        Err(e) => vec![Mismatch::new("machinery replay-case-unreadable", e.to_string())],
    }
}
