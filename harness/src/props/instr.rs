//! C16-C20: behaviour of instrumented programs (reference interpreter + event monitor).
use crate::engine::*;
use crate::interp::*;
use crate::prog::*;
use crate::wasmutil::*;
use rayon::prelude::*;
use serde::{Deserialize, Serialize};
use serde_json::json;
use std::collections::{BTreeMap, HashMap, HashSet};
use wasmparser::Operator;
use wirm::ir::id::FunctionID;
use wirm::ir::types::Location;
use wirm::iterator::iterator_trait::{IteratingInstrumenter, Iterator as WIterator};
use wirm::iterator::module_iterator::ModuleIterator;
use wirm::opcode::{Inject, Instrumenter};
use wirm::Module;

#[derive(Clone, Copy, Debug, PartialEq, Eq, Hash, PartialOrd, Ord, Serialize, Deserialize)]
pub enum Mode {
    Before,
    After,
    SemanticAfter,
    BlockEntry,
    BlockExit,
    FuncEntry,
    FuncExit,
}
impl Mode {
    pub fn name(self) -> &'static str {
        match self {
            Mode::Before => "before",
            Mode::After => "after",
            Mode::SemanticAfter => "semantic-after",
            Mode::BlockEntry => "block-entry",
            Mode::BlockExit => "block-exit",
            Mode::FuncEntry => "func-entry",
            Mode::FuncExit => "func-exit",
        }
    }
}

#[derive(Clone, Debug, PartialEq, Eq, Hash, Serialize, Deserialize)]
pub struct Probe {
    /// 0 = main (function 2), 1 = callee (function 3)
    pub func: u8,
    /// instruction index (ignored for function-level modes)
    pub at: usize,
    pub mode: Mode,
    pub id: i32,
}

#[derive(Clone, Debug, Serialize, Deserialize)]
pub struct Case {
    pub program: Program,
    pub plan: Vec<Probe>,
    /// 0 = module iterator, 1 = function modifier
    pub api: u8,
    /// a void block / loop of main (opener index) that is additionally REMOVED through an empty block
    /// alternate; the plan's probes all sit outside it. The instrumented module must then behave like
    /// the program without that construct, probed at the corresponding places (C21: "all other
    /// instructions and their instrumentation are unaffected").
    #[serde(default)]
    pub removed: Option<usize>,
}

/// the program's module with the instructions [at ..= end] of main cut out (byte surgery on the body,
/// everything else copied verbatim; wirm is not involved)
fn cut_main(bytes: &[u8], at: usize, end: usize) -> Result<Vec<u8>, String> {
    let mut out = wasm_encoder::Module::new();
    let mut code = wasm_encoder::CodeSection::new();
    let mut in_code = false;
    let mut idx = 0usize;
    let mut left = 0u32;
    for p in wasmparser::Parser::new(0).parse_all(bytes) {
        let p = p.map_err(|e| e.to_string())?;
        match &p {
            wasmparser::Payload::CodeSectionStart { count, .. } => {
                in_code = true;
                left = *count;
                continue;
            }
            wasmparser::Payload::CodeSectionEntry(body) => {
                let raw = &bytes[body.range()];
                if idx == 0 {
                    let base = body.range().start;
                    let mut r = body.get_operators_reader().map_err(|e| e.to_string())?;
                    let mut offs = vec![];
                    while !r.eof() {
                        let (_, o) = r.read_with_offset().map_err(|e| e.to_string())?;
                        offs.push(o - base);
                    }
                    offs.push(raw.len());
                    if end + 1 >= offs.len() || at > end {
                        return Err("cut out of range".into());
                    }
                    let mut nb = raw[..offs[at]].to_vec();
                    nb.extend_from_slice(&raw[offs[end + 1]..]);
                    code.raw(&nb);
                } else {
                    code.raw(raw);
                }
                idx += 1;
                left -= 1;
                if left == 0 {
                    out.section(&code);
                    in_code = false;
                }
                continue;
            }
            _ => {}
        }
        let _ = in_code;
        if let Some((id, range)) = p.as_section() {
            out.section(&wasm_encoder::RawSection { id, data: &bytes[range] });
        }
    }
    Ok(out.finish())
}

fn fid(func: u8) -> u32 {
    F_MAIN + func as u32
}

/// Apply the plan through the public API, following the documented protocol: instruction-level
/// probes first, function-level probes last on each function.
pub fn instrument(bytes: &[u8], plan: &[Probe], api: u8, removed: Option<usize>) -> Result<Vec<u8>, PanicInfo> {
    catch(|| {
        let mut module = Module::parse(bytes, false).expect("harness: generated program parses");
        let orig_api = api;
        let remove = |module: &mut Module, at: usize| {
            let f = fid(0);
            if orig_api == 0 || orig_api == 3 || orig_api == 4 {
                let mut it = ModuleIterator::new(module, &vec![]);
                loop {
                    if let (Location::Module { func_idx, instr_idx }, _) = it.curr_loc() {
                        if *func_idx == f && instr_idx == at {
                            break;
                        }
                    }
                    if it.next().is_none() {
                        panic!("harness: iterator never reached function {} instruction {}", f, at);
                    }
                }
                it.empty_block_alt();
            } else {
                let mut fm = module.functions.get_fn_modifier(FunctionID(f)).expect("harness: local function");
                fm.empty_block_alt_at(Location::Module { func_idx: FunctionID(f), instr_idx: at });
                fm.finish_instr();
            }
        };
        // the removal comes first through the strict modifier path and the finishing iterator path,
        // otherwise after the instruction-level probes (function-level probes stay last)
        let removal_first = orig_api == 2 || orig_api == 3;
        if let (Some(at), true) = (removed, removal_first) {
            remove(&mut module, at);
        }
        // api 0 / 1: module iterator / function modifier, function-level probes issued last (the usage the
        // repository's tests show); api 2: function modifier, strictly in plan order (it is finished after
        // every probe, so a function-level mode does not stay active)
        // api 3: module iterator, `finish_instr()` called after every probe (the documented way to leave a
        // mode; the injected code must survive it)
        let strict = api == 2;
        let iter_finish = api == 3;
        // api 4: module iterator, and the module is encoded TWICE (the second encoding is judged: lowering
        // must leave nothing behind that a second pass lowers again); api 5: function modifier, and
        // pull_side_effects() is called before the encoding
        let api = match api {
            2 | 5 => 1,
            3 | 4 => 0,
            a => a,
        };
        let mut ordered: Vec<&Probe> = if strict { plan.iter().collect() } else { plan.iter().filter(|p| !matches!(p.mode, Mode::FuncEntry | Mode::FuncExit)).collect() };
        if !strict {
            ordered.extend(plan.iter().filter(|p| matches!(p.mode, Mode::FuncEntry | Mode::FuncExit)));
        }
        let mut removal_pending = if removal_first { None } else { removed };
        for p in ordered {
            if matches!(p.mode, Mode::FuncEntry | Mode::FuncExit) {
                if let Some(at) = removal_pending.take() {
                    remove(&mut module, at);
                }
            }
            let f = fid(p.func);
            let code = [Operator::I32Const { value: p.id }, Operator::Call { function_index: F_PROBE }];
            if api == 0 {
                let mut it = ModuleIterator::new(&mut module, &vec![]);
                let want = if matches!(p.mode, Mode::FuncEntry | Mode::FuncExit) { 0 } else { p.at };
                loop {
                    if let (Location::Module { func_idx, instr_idx }, _) = it.curr_loc() {
                        if *func_idx == f && instr_idx == want {
                            break;
                        }
                    }
                    if it.next().is_none() {
                        panic!("harness: iterator never reached function {} instruction {}", f, want);
                    }
                }
                match p.mode {
                    Mode::Before => {
                        it.before();
                    }
                    Mode::After => {
                        it.after();
                    }
                    Mode::SemanticAfter => {
                        it.semantic_after();
                    }
                    Mode::BlockEntry => {
                        it.block_entry();
                    }
                    Mode::BlockExit => {
                        it.block_exit();
                    }
                    Mode::FuncEntry => {
                        it.func_entry();
                    }
                    Mode::FuncExit => {
                        it.func_exit();
                    }
                }
                for op in code {
                    it.inject(op);
                }
                if iter_finish && !matches!(p.mode, Mode::FuncEntry | Mode::FuncExit) {
                    it.finish_instr();
                }
            } else {
                let mut fm = module.functions.get_fn_modifier(FunctionID(f)).expect("harness: local function");
                let loc = Location::Module { func_idx: FunctionID(f), instr_idx: p.at };
                match p.mode {
                    Mode::Before => {
                        fm.before_at(loc);
                    }
                    Mode::After => {
                        fm.after_at(loc);
                    }
                    Mode::SemanticAfter => {
                        fm.semantic_after_at(loc);
                    }
                    Mode::BlockEntry => {
                        fm.block_entry_at(loc);
                    }
                    Mode::BlockExit => {
                        fm.block_exit_at(loc);
                    }
                    Mode::FuncEntry => {
                        fm.func_entry();
                    }
                    Mode::FuncExit => {
                        fm.func_exit();
                    }
                }
                for op in code {
                    fm.inject(op);
                }
                fm.finish_instr();
            }
        }
        if let Some(at) = removal_pending.take() {
            remove(&mut module, at);
        }
        if orig_api == 4 {
            let _ = module.encode();
        }
        if orig_api == 5 {
            let _ = module.pull_side_effects();
        }
        module.encode()
    })
}

/// The monitor: Appendix A of DESIGN.md. Returns the closure state as lookup tables.
struct Monitor<'a> {
    m: &'a IModule,
    before: HashMap<(u32, usize), Vec<i32>>,
    after: HashMap<(u32, usize), Vec<i32>>,
    sem: HashMap<(u32, usize), Vec<i32>>,
    bentry: HashMap<(u32, usize), Vec<i32>>,
    bexit: HashMap<(u32, usize), Vec<i32>>,
    fentry: HashMap<u32, Vec<i32>>,
    fexit: HashMap<u32, Vec<i32>>,
    /// log positions of firings caused by a conditional branch that was NOT taken (fall-through)
    nt_idx: std::cell::RefCell<HashSet<usize>>,
    /// log positions of firings caused by a branch TAKEN to the function body label
    fnl_idx: std::cell::RefCell<HashSet<usize>>,
}

impl<'a> Monitor<'a> {
    fn new(m: &'a IModule, plan: &[Probe]) -> Self {
        let mut mo = Monitor { m, before: HashMap::new(), after: HashMap::new(), sem: HashMap::new(), bentry: HashMap::new(), bexit: HashMap::new(), fentry: HashMap::new(), fexit: HashMap::new(), nt_idx: Default::default(), fnl_idx: Default::default() };
        for p in plan {
            let f = fid(p.func);
            match p.mode {
                Mode::Before => mo.before.entry((f, p.at)).or_default().push(p.id),
                Mode::After => mo.after.entry((f, p.at)).or_default().push(p.id),
                Mode::SemanticAfter => mo.sem.entry((f, p.at)).or_default().push(p.id),
                Mode::BlockEntry => mo.bentry.entry((f, p.at)).or_default().push(p.id),
                Mode::BlockExit => mo.bexit.entry((f, p.at)).or_default().push(p.id),
                Mode::FuncEntry => mo.fentry.entry(f).or_default().push(p.id),
                Mode::FuncExit => mo.fexit.entry(f).or_default().push(p.id),
            }
        }
        mo
    }
    fn func(&self, f: u32) -> &IFunc {
        &self.m.funcs[(f - self.m.func_imports.len() as u32) as usize]
    }
    fn fire(log: &mut Vec<LogEntry>, ids: Option<&Vec<i32>>) {
        if let Some(ids) = ids {
            for i in ids {
                log.push(LogEntry::Probe(*i));
            }
        }
    }
    fn on(&self, e: &Event, log: &mut Vec<LogEntry>) {
        const NONE: usize = usize::MAX;
        match e {
            Event::Enter { f } => Self::fire(log, self.fentry.get(f)),
            Event::ExplicitTrap { f, .. } => Self::fire(log, self.fexit.get(f)),
            Event::Exit { f, .. } => Self::fire(log, self.fexit.get(f)),
            Event::Exec { f, pc } => {
                Self::fire(log, self.before.get(&(*f, *pc)));
                let func = self.func(*f);
                match &func.ops[*pc] {
                    Operator::End if func.opener_of[*pc] != NONE => {
                        // sequential arrival at the end of a construct
                        let o = func.opener_of[*pc];
                        match &func.ops[o] {
                            Operator::If { .. } => {
                                if func.else_of[o] != NONE {
                                    Self::fire(log, self.bexit.get(&(*f, func.else_of[o])));
                                } else {
                                    Self::fire(log, self.bexit.get(&(*f, o)));
                                }
                            }
                            _ => Self::fire(log, self.bexit.get(&(*f, o))),
                        }
                    }
                    Operator::Else => {
                        // the then-arm fell through: the `else` jumps to the point after the
                        // construct, so control reaches that point
                        let o = func.opener_of[*pc];
                        Self::fire(log, self.bexit.get(&(*f, o)));
                        Self::fire(log, self.sem.get(&(*f, o)));
                        Self::fire(log, self.sem.get(&(*f, *pc)));
                    }
                    _ => {}
                }
            }
            Event::Done { f, pc } => {
                Self::fire(log, self.after.get(&(*f, *pc)));
                let func = self.func(*f);
                match &func.ops[*pc] {
                    Operator::Block { .. } | Operator::Loop { .. } | Operator::If { .. } => Self::fire(log, self.bentry.get(&(*f, *pc))),
                    Operator::End if func.opener_of[*pc] != NONE => {
                        // control reached the point after the construct through its end
                        let o = func.opener_of[*pc];
                        if !matches!(func.ops[o], Operator::Loop { .. }) {
                            Self::fire(log, self.sem.get(&(*f, o)));
                            if func.else_of[o] != NONE {
                                Self::fire(log, self.sem.get(&(*f, func.else_of[o])));
                            }
                        }
                    }
                    _ => {}
                }
            }
            Event::ElseEntered { f, else_pc, .. } => {
                Self::fire(log, self.after.get(&(*f, *else_pc)));
                Self::fire(log, self.bentry.get(&(*f, *else_pc)));
            }
            Event::IfSkipped { f, if_pc } => Self::fire(log, self.sem.get(&(*f, *if_pc))),
            Event::BranchTaken { f, pc, target, is_loop } => {
                // the branch's own semantic-after probe: once per execution
                let from = log.len();
                Self::fire(log, self.sem.get(&(*f, *pc)));
                if target.is_none() {
                    self.fnl_idx.borrow_mut().extend(from..log.len());
                }
                if let Some(o) = target {
                    if *is_loop {
                        Self::fire(log, self.bentry.get(&(*f, *o)));
                    } else {
                        let func = self.func(*f);
                        Self::fire(log, self.sem.get(&(*f, *o)));
                        if func.else_of[*o] != NONE {
                            Self::fire(log, self.sem.get(&(*f, func.else_of[*o])));
                        }
                    }
                }
            }
            Event::BranchNotTaken { f, pc } => {
                let from = log.len();
                Self::fire(log, self.sem.get(&(*f, *pc)));
                self.nt_idx.borrow_mut().extend(from..log.len());
            }
        }
    }
}

/// log -> marks and, per gap, the multiset of probe ids
fn gaps(log: &[LogEntry]) -> (Vec<i32>, Vec<BTreeMap<i32, usize>>) {
    let mut marks = vec![];
    let mut gaps = vec![BTreeMap::new()];
    for e in log {
        match e {
            LogEntry::Mark(k) => {
                marks.push(*k);
                gaps.push(BTreeMap::new());
            }
            LogEntry::Probe(i) => {
                *gaps.last_mut().unwrap().entry(*i).or_insert(0) += 1;
            }
        }
    }
    (marks, gaps)
}

#[derive(Clone, Debug)]
pub struct Clause {
    /// None = behaviour clause (results/trap/state/marks/validity); Some(mode) = event placement
    pub mode: Option<Mode>,
    pub sig: String,
    pub detail: String,
}

pub struct Judged {
    pub clauses: Vec<Clause>,
    pub observed: u64,
    pub executions: u64,
    pub steps: u64,
    /// (original, instrumented) modules for the node cross-validation
    pub modules: Option<(Vec<u8>, Vec<u8>)>,
}

const INPUTS: [(i32, i32); 9] = [(0, 0), (0, 1), (0, 2), (1, 0), (1, 1), (1, 2), (2, 0), (2, 1), (2, 2)];
const FUEL: u64 = 20_000;

/// features of a probe site for signatures
fn site_desc(m: &IModule, roles: &[Vec<Role>; 2], p: &Probe) -> String {
    if matches!(p.mode, Mode::FuncEntry | Mode::FuncExit) {
        return if p.func == 0 { "main".into() } else { "callee".into() };
    }
    let role = roles[p.func as usize].get(p.at).copied().unwrap_or(Role::Aux);
    let func = &m.funcs[p.func as usize];
    let mut s = role.name().to_string();
    // branch target kind
    let depth_targets = |pc: usize| -> Vec<String> {
        let mut stack: Vec<usize> = vec![];
        for (i, op) in func.ops.iter().enumerate().take(pc) {
            match op {
                Operator::Block { .. } | Operator::Loop { .. } | Operator::If { .. } => stack.push(i),
                Operator::End => {
                    stack.pop();
                }
                _ => {}
            }
        }
        let kind = |d: u32| -> String {
            let d = d as usize;
            if d >= stack.len() {
                "fn-label".into()
            } else {
                match func.ops[stack[stack.len() - 1 - d]] {
                    Operator::Loop { .. } => "loop".into(),
                    Operator::If { .. } => "if".into(),
                    _ => "block".into(),
                }
            }
        };
        match &func.ops[pc] {
            Operator::Br { relative_depth } | Operator::BrIf { relative_depth } => vec![kind(*relative_depth)],
            Operator::BrTable { targets } => {
                let mut v: Vec<String> = targets.targets().map(|t| kind(t.unwrap_or(0))).collect();
                v.push(kind(targets.default()));
                v.sort();
                v.dedup();
                v
            }
            _ => vec![],
        }
    };
    let t = depth_targets(p.at);
    if !t.is_empty() {
        s.push_str(&format!("->{}", t.join("+")));
    }
    // inside a loop?
    let mut depth_loop = 0;
    let mut stack: Vec<bool> = vec![];
    for op in func.ops.iter().take(p.at) {
        match op {
            Operator::Loop { .. } => stack.push(true),
            Operator::Block { .. } | Operator::If { .. } => stack.push(false),
            Operator::End => {
                stack.pop();
            }
            _ => {}
        }
    }
    if stack.iter().any(|x| *x) {
        depth_loop = 1;
    }
    if depth_loop > 0 {
        s.push_str(" in-loop");
    }
    s
}

pub fn judge(case: &Case, keep_modules: bool) -> Result<Judged, String> {
    let em = emit(&case.program);
    let mut j = Judged { clauses: vec![], observed: 0, executions: 0, steps: 0, modules: None };
    if let Err(e) = validate(&em.bytes, features_core()) {
        return Err(format!("generated program invalid: {}", e));
    }
    let full = load(&em.bytes).map_err(|e| format!("load original: {:?}", e))?;
    // with a removed construct the reference is the program without it, probed at the corresponding places
    let (ref_bytes, ref_plan): (Vec<u8>, Vec<Probe>) = match case.removed {
        None => (em.bytes.clone(), case.plan.clone()),
        Some(at) => {
            let end = full.funcs[0].end_of.get(at).copied().unwrap_or(usize::MAX);
            if end == usize::MAX {
                return Err("harness: removed index is not an opener".into());
            }
            let cut = cut_main(&em.bytes, at, end)?;
            validate(&cut, features_core()).map_err(|e| format!("harness: program without the removed construct invalid: {}", e))?;
            let len = end - at + 1;
            let mut pl = vec![];
            for p in case.plan.iter() {
                let mut q = p.clone();
                if p.func == 0 && !matches!(p.mode, Mode::FuncEntry | Mode::FuncExit) {
                    if p.at >= at && p.at <= end {
                        // a probe on a construct strictly inside the removed one goes away with it:
                        // that body is never entered, left or passed
                        if p.at > at && matches!(p.mode, Mode::BlockEntry | Mode::BlockExit | Mode::SemanticAfter) {
                            continue;
                        }
                        return Err("harness: probe inside the removed construct".into());
                    }
                    if p.at > end {
                        q.at -= len;
                    }
                }
                pl.push(q);
            }
            (cut, pl)
        }
    };
    let orig = load(&ref_bytes).map_err(|e| format!("load original: {:?}", e))?;
    let by_id: HashMap<i32, &Probe> = case.plan.iter().map(|p| (p.id, p)).collect();
    let inst_bytes = match instrument(&em.bytes, &case.plan, case.api, case.removed) {
        Ok(b) => b,
        Err(p) => {
            if p.msg.starts_with("harness:") {
                return Err(p.msg);
            }
            let modes: Vec<&str> = case.plan.iter().map(|q| q.mode.name()).collect();
            j.clauses.push(Clause { mode: None, sig: format!("panic instrument/encode {} [{}]", p.site(), modes.join(",")), detail: format!("{} at {}:{}", p.msg, p.file, p.line) });
            return Ok(j);
        }
    };
    j.observed = hash_of(&inst_bytes);
    if let Err(e) = validate(&inst_bytes, features_core()) {
        let msg = match e.find(" (at offset") {
            Some(i) => e[..i].to_string(),
            None => e.clone(),
        };
        let masked: String = msg.chars().map(|c| if c.is_ascii_digit() { '#' } else { c }).take(50).collect();
        let mut descs: Vec<String> = case.plan.iter().map(|p| format!("{}@{}", p.mode.name(), site_desc(&full, &em.roles, p))).collect();
        descs.sort();
        j.clauses.push(Clause { mode: None, sig: format!("invalid-instrumented-module {} [{}]", masked, descs.join(", ")), detail: e });
        return Ok(j);
    }
    let inst = load(&inst_bytes).map_err(|e| format!("load instrumented: {:?}", e))?;
    for (a, b) in INPUTS.iter() {
        let args = [Val::I32(*a), Val::I32(*b)];
        let mon = Monitor::new(&orig, &ref_plan);
        let mut cb = |e: &Event, log: &mut Vec<LogEntry>| mon.on(e, log);
        let mut i1 = Interp::new(&orig, FUEL);
        i1.events = Some(&mut cb);
        let r1 = match i1.run_export("main", &args) {
            Ok(r) => r,
            // without the removed construct the program need not terminate any more: not a reference
            Err(InterpError::Fuel) if case.removed.is_some() => continue,
            Err(e) => return Err(format!("interpreter (original): {:?}", e)),
        };
        let i2 = Interp::new(&inst, FUEL);
        let r2 = match i2.run_export("main", &args) {
            Ok(r) => r,
            // the original finished (programs terminate by construction, within a few hundred steps);
            // an instrumented module that exhausts a budget of 20 000 steps does not behave like it
            Err(InterpError::Fuel) => {
                j.executions += 2;
                j.steps += r1.steps + FUEL;
                j.clauses.push(Clause { mode: None, sig: format!("behaviour does-not-terminate [{}]", plan_modes(&case.plan)), detail: format!("input ({},{}): original finished in {} steps, instrumented module exceeded {} steps", a, b, r1.steps, FUEL) });
                continue;
            }
            Err(e) => return Err(format!("interpreter (instrumented): {:?}", e)),
        };
        j.executions += 2;
        j.steps += r1.steps + r2.steps;
        if r1.result != r2.result {
            j.clauses.push(Clause { mode: None, sig: format!("behaviour result-or-trap differs [{}]", plan_modes(&case.plan)), detail: format!("input ({},{}): original {:?} instrumented {:?}", a, b, r1.result, r2.result) });
            continue;
        }
        if r1.globals != r2.globals || r1.mem_hash != r2.mem_hash {
            j.clauses.push(Clause { mode: None, sig: format!("behaviour state differs [{}]", plan_modes(&case.plan)), detail: format!("input ({},{}): globals {:?} vs {:?}", a, b, r1.globals, r2.globals) });
        }
        let (m1, g1) = gaps(&r1.log);
        let (m2, g2) = gaps(&r2.log);
        // per gap and probe: how many of the expected firings are fall-through firings of a
        // conditional branch (they run right behind the branch, whatever its label is)
        let fnl_gaps: Vec<BTreeMap<i32, usize>> = {
            let nt = mon.fnl_idx.borrow();
            let mut v = vec![BTreeMap::new()];
            for (i, e) in r1.log.iter().enumerate() {
                match e {
                    LogEntry::Mark(_) => v.push(BTreeMap::new()),
                    LogEntry::Probe(id) => {
                        if nt.contains(&i) {
                            *v.last_mut().unwrap().entry(*id).or_insert(0) += 1;
                        }
                    }
                }
            }
            v
        };
        let nt_gaps: Vec<BTreeMap<i32, usize>> = {
            let nt = mon.nt_idx.borrow();
            let mut v = vec![BTreeMap::new()];
            for (i, e) in r1.log.iter().enumerate() {
                match e {
                    LogEntry::Mark(_) => v.push(BTreeMap::new()),
                    LogEntry::Probe(id) => {
                        if nt.contains(&i) {
                            *v.last_mut().unwrap().entry(*id).or_insert(0) += 1;
                        }
                    }
                }
            }
            v
        };
        // function entry/exit probes: their ORDER is fixed (entry code runs before anything else of
        // the activation, exit code last; several probes of one kind in injection order), so their
        // sub-sequence of the log is compared as a sequence
        let fn_level: HashSet<i32> = case.plan.iter().filter(|p| matches!(p.mode, Mode::FuncEntry | Mode::FuncExit)).map(|p| p.id).collect();
        if !fn_level.is_empty() && m1 == m2 {
            let proj = |log: &[LogEntry]| -> Vec<LogEntry> { log.iter().filter(|e| match e { LogEntry::Mark(_) => true, LogEntry::Probe(i) => fn_level.contains(i) }).cloned().collect() };
            let (p1, p2) = (proj(&r1.log), proj(&r2.log));
            let same_multiset = {
                let (mut a, mut b) = (p1.iter().map(|e| format!("{:?}", e)).collect::<Vec<_>>(), p2.iter().map(|e| format!("{:?}", e)).collect::<Vec<_>>());
                a.sort();
                b.sort();
                a == b
            };
            if p1 != p2 && same_multiset {
                j.clauses.push(Clause { mode: Some(Mode::FuncEntry), sig: "event order func-entry/func-exit".into(), detail: format!("input ({},{}): expected order {:?}, instrumented module {:?}", a, b, p1, p2) });
            }
        }
        if m1 != m2 {
            j.clauses.push(Clause { mode: None, sig: format!("behaviour marks differ [{}]", plan_modes(&case.plan)), detail: format!("input ({},{}): marks {:?} vs {:?}", a, b, m1, m2) });
            continue;
        }
        for (gi, (e, ac)) in g1.iter().zip(g2.iter()).enumerate() {
            let ids: HashSet<i32> = e.keys().chain(ac.keys()).copied().collect();
            for id in ids {
                let ne = e.get(&id).copied().unwrap_or(0);
                let na = ac.get(&id).copied().unwrap_or(0);
                if ne != na {
                    if let Some(p) = by_id.get(&id) {
                        // fewer firings than the fall-through executions alone account for: the copy
                        // behind the branch is lost, which no label-side defect explains
                        let nt = nt_gaps.get(gi).and_then(|g| g.get(&id)).copied().unwrap_or(0);
                        // a branch probe that stays silent while ANOTHER branch probe fires too often in the
                        // same gap: two flagged bodies that meet at one `end` are lowered as `if f1 {..} else
                        // {if f2 ..}`, so a stale flag f1 (listed finding) both repeats its own body and
                        // shadows the other one - one defect, two symptoms; named apart so that a silent
                        // probe WITHOUT such a neighbour stays a violation
                        let is_branch_sem = |q: &Probe| q.mode == Mode::SemanticAfter && matches!(em.roles[q.func as usize].get(q.at), Some(Role::Br) | Some(Role::BrIf) | Some(Role::BrTable));
                        let other_extra = is_branch_sem(p)
                            && ac.iter().any(|(id2, n2)| *id2 != id && *n2 > e.get(id2).copied().unwrap_or(0) && by_id.get(id2).map(|q| is_branch_sem(q)).unwrap_or(false));
                        let site_has_fn_label = site_desc(&full, &em.roles, p).contains("fn-label");
                        let single_label_table = match full.funcs.get(p.func as usize).and_then(|f| f.ops.get(p.at)) {
                            Some(Operator::BrTable { targets }) => {
                                let mut ls: Vec<u32> = targets.targets().map(|t| t.unwrap_or(0)).collect();
                                ls.push(targets.default());
                                ls.sort();
                                ls.dedup();
                                ls.len() == 1
                            }
                            _ => false,
                        };
                        let dir = if na < nt {
                            "missing-on-fall-through"
                        } else if na < ne && other_extra {
                            "missing-beside-extra-firing-of-another-branch-probe"
                        } else if na < ne && site_has_fn_label && ne - na > fnl_gaps.get(gi).and_then(|g| g.get(&id)).copied().unwrap_or(0) {
                            // a branch with several targets, one of them the function label (listed finding:
                            // that arrival never fires): more firings are missing than arrivals at the
                            // function label account for
                            "missing-at-a-construct-target"
                        } else if na < ne {
                            "missing"
                        } else if single_label_table && !site_desc(&full, &em.roles, p).contains(" in-loop") {
                            // the listed stale flag repeats a br_table's body at a SECOND target or on a later
                            // loop iteration; with one target label and no loop around it nothing explains it
                            "extra-at-its-only-target"
                        } else {
                            "extra"
                        };
                        // (the marker goes behind the target kinds, in front of ` in-loop`)
                        let mut site = site_desc(&full, &em.roles, p);
                        if case.removed.is_some() {
                            site = match site.strip_suffix(" in-loop") {
                                Some(head) => format!("{} beside-removed-construct in-loop", head),
                                None => format!("{} beside-removed-construct", site),
                            };
                        }
                        j.clauses.push(Clause {
                            mode: Some(p.mode),
                            sig: format!("event {} {} {}", p.mode.name(), site, dir),
                            detail: format!("input ({},{}) gap {} probe {}: expected {} firings, instrumented module fired {}", a, b, gi, id, ne, na),
                        });
                    } else {
                        j.clauses.push(Clause { mode: None, sig: "unknown probe id in log".into(), detail: format!("{}", id) });
                    }
                }
            }
        }
    }
    if keep_modules {
        j.modules = Some((ref_bytes, inst_bytes));
    }
    Ok(j)
}

fn plan_modes(plan: &[Probe]) -> String {
    plan_modes_inner(plan)
}
fn plan_modes_inner(plan: &[Probe]) -> String {
    let mut v: Vec<&str> = plan.iter().map(|p| p.mode.name()).collect();
    v.sort();
    v.dedup();
    v.join(",")
}

// ---------------------------------------------------------------------------------------------
// plan enumeration
// ---------------------------------------------------------------------------------------------
/// all (site, mode) pairs of a program that `modes` allows
pub fn sites(prog: &Program, modes: &[Mode]) -> Vec<(u8, usize, Mode)> {
    let em = emit(prog);
    let m = match load(&em.bytes) {
        Ok(m) => m,
        Err(_) => return vec![],
    };
    let mut out = vec![];
    for func in 0..2u8 {
        let roles = &em.roles[func as usize];
        let f = &m.funcs[func as usize];
        if func == 1 && prog.callee.is_empty() && !program_calls(prog) {
            continue;
        }
        for mode in modes {
            match mode {
                Mode::FuncEntry | Mode::FuncExit => out.push((func, 0, *mode)),
                _ => {}
            }
        }
        for (i, r) in roles.iter().enumerate() {
            for mode in modes {
                let ok = match mode {
                    Mode::Before => !matches!(r, Role::Aux),
                    Mode::After => !matches!(r, Role::Aux | Role::EndBlock | Role::EndLoop | Role::EndIf | Role::FinalEnd | Role::Loop),
                    Mode::BlockEntry | Mode::BlockExit => matches!(r, Role::Block | Role::Loop | Role::If | Role::Else),
                    Mode::SemanticAfter => match r {
                        Role::Block | Role::If | Role::Else => true,
                        Role::Br | Role::BrIf | Role::BrTable => !branch_targets_loop(f, i),
                        _ => false,
                    },
                    Mode::FuncEntry | Mode::FuncExit => false,
                };
                if ok {
                    out.push((func, i, *mode));
                }
            }
        }
    }
    out
}

fn program_calls(p: &Program) -> bool {
    fn has(ss: &[Stmt]) -> bool {
        ss.iter().any(|s| match s {
            Stmt::Call | Stmt::RetCall | Stmt::RetCallInd => true,
            Stmt::Block(b) | Stmt::Loop(b) => has(b),
            Stmt::If(_, t, e) => has(t) || e.as_ref().map(|e| has(e)).unwrap_or(false),
            _ => false,
        })
    }
    has(&p.main)
}

pub fn branch_targets_loop_pub(f: &IFunc, pc: usize) -> bool {
    branch_targets_loop(f, pc)
}

fn branch_targets_loop(f: &IFunc, pc: usize) -> bool {
    let mut stack: Vec<usize> = vec![];
    for (i, op) in f.ops.iter().enumerate().take(pc) {
        match op {
            Operator::Block { .. } | Operator::Loop { .. } | Operator::If { .. } => stack.push(i),
            Operator::End => {
                stack.pop();
            }
            _ => {}
        }
    }
    let is_loop = |d: u32| -> bool {
        let d = d as usize;
        d < stack.len() && matches!(f.ops[stack[stack.len() - 1 - d]], Operator::Loop { .. })
    };
    match &f.ops[pc] {
        Operator::Br { relative_depth } | Operator::BrIf { relative_depth } => is_loop(*relative_depth),
        Operator::BrTable { targets } => targets.targets().any(|t| is_loop(t.unwrap_or(0))) || is_loop(targets.default()),
        _ => false,
    }
}

/// all plans with 1..=p probes over the site list (each probe gets a distinct id)
pub fn plans(sites: &[(u8, usize, Mode)], p: usize, same_site_twice: bool) -> Vec<Vec<Probe>> {
    let mut out: Vec<Vec<Probe>> = vec![];
    let mk = |k: usize, s: &(u8, usize, Mode)| Probe { func: s.0, at: s.1, mode: s.2, id: 1000 + k as i32 };
    for (i, a) in sites.iter().enumerate() {
        out.push(vec![mk(0, a)]);
        if p >= 2 {
            let start = if same_site_twice { i } else { i + 1 };
            for (jx, b) in sites.iter().enumerate().skip(start) {
                out.push(vec![mk(0, a), mk(1, b)]);
                if p >= 3 {
                    for c in sites.iter().skip(jx + 1) {
                        out.push(vec![mk(0, a), mk(1, b), mk(2, c)]);
                    }
                }
            }
        }
    }
    out
}

// ---------------------------------------------------------------------------------------------
// the checks
// ---------------------------------------------------------------------------------------------
pub struct Family {
    pub name: &'static str,
    pub programs: Vec<Program>,
    pub modes: Vec<Mode>,
    pub probes: usize,
    pub same_site_twice: bool,
    /// every plan additionally with one ordinary `before` probe on the first mark of main, injected
    /// after the plan's probes and, separately, before them (order of API calls on one function)
    pub with_ordinary: bool,
    /// every single-probe plan additionally with one probe of each of these (special) modes at every
    /// applicable site of main, injected after it and, separately, before it; only the family's own
    /// modes are judged (the companion's events belong to its own property)
    pub companions: Vec<Mode>,
    /// every single-probe plan (probe in main) additionally with every void block / loop of main that does
    /// not contain the probe REMOVED through an empty block alternate (`Case::removed`)
    pub removals: bool,
}

fn g(max_nodes: usize, max_depth: usize, leaves: &[Leaf], blocks: bool, loops: bool, ifs: bool, else_arms: bool, conds: &[Cond], results: u8) -> Grammar {
    Grammar { max_nodes, max_depth, leaves: leaves.to_vec(), blocks, loops, ifs, else_arms, conds: conds.to_vec(), results }
}

pub fn programs(gr: &Grammar, callees: &[Vec<Stmt>]) -> Vec<Program> {
    let mut out = vec![];
    for body in enumerate(gr) {
        let calls = program_calls(&Program { results: gr.results, main: body.clone(), callee: vec![] });
        if calls {
            for c in callees {
                out.push(Program { results: gr.results, main: body.clone(), callee: c.clone() });
            }
        } else {
            out.push(Program { results: gr.results, main: body, callee: vec![] });
        }
    }
    out
}

fn run_families(run: &mut Run, fams: &[Family], judged_modes: &[Mode], judge_behaviour: bool, tier: Tier) {
    let mut total_exec = 0u64;
    let mut total_steps = 0u64;
    let mut node_batch: Vec<(Vec<u8>, Vec<u8>)> = vec![];
    // wall-clock budget of the whole check (the thorough bounds of these families are chosen as the
    // next size above quick; where that does not fit, the run says what it completed - a cap, never a
    // verdict). Programs are enumerated smallest first, so what is completed is a prefix by size.
    let started = std::time::Instant::now();
    let budget = std::time::Duration::from_secs(std::env::var("ORCA_MC_BUDGET_S").ok().and_then(|s| s.parse().ok()).unwrap_or(tier.pick(240, 780)));
    for (fam_no, fam) in fams.iter().enumerate() {
      let mut fam_n = 0u64;
      let mut done_programs = 0usize;
      // every family gets an equal share of the budget; what one leaves unused goes to the next
      let deadline = budget.mul_f64((fam_no + 1) as f64 / fams.len() as f64);
      for (chunk_no, chunk) in fam.programs.chunks(4096).enumerate() {
        if started.elapsed() > deadline {
            run.cap(format!("family `{}`: its share of the wall-clock budget ({} s for {} families) was used up after {} of {} programs (smallest first); its remaining programs were not run", fam.name, budget.as_secs(), fams.len(), done_programs, fam.programs.len()));
            break;
        }
        // cases are generated per program (smallest programs first) and judged in parallel
        let results: Vec<(usize, Vec<(Case, Result<Judged, String>)>)> = chunk
            .par_iter()
            .enumerate()
            .map(|(pi, prog)| {
                let pi = pi + chunk_no * 4096;
                let ss = sites(prog, &fam.modes);
                let mut v = vec![];
                let mut all_plans: Vec<(Vec<Probe>, Option<u8>)> = plans(&ss, fam.probes, fam.same_site_twice).into_iter().map(|p| (p, None)).collect();
                if fam.with_ordinary {
                    let em = emit(prog);
                    if let Some(at) = em.roles[0].iter().position(|r| matches!(r, Role::MarkConst)) {
                        let ord = Probe { func: 0, at, mode: Mode::Before, id: 1900 };
                        let base: Vec<Vec<Probe>> = all_plans.iter().map(|(p, _)| p.clone()).collect();
                        for pl in base {
                            let mut last = pl.clone();
                            last.push(ord.clone());
                            let mut first = vec![ord.clone()];
                            first.extend(pl.iter().cloned());
                            // through both API kinds, the modifier strictly in plan order
                            all_plans.push((last.clone(), Some(0)));
                            all_plans.push((last, Some(2)));
                            all_plans.push((first.clone(), Some(0)));
                            all_plans.push((first, Some(2)));
                        }
                        // an ordinary `after` probe with the SAME body on the same construct, injected first:
                        // the body then runs twice per entry (arm entry for block / if / else openers)
                        let singles: Vec<Probe> = all_plans.iter().filter(|(p, a)| p.len() == 1 && a.is_none()).map(|(p, _)| p[0].clone()).collect();
                        for sp in singles {
                            if sp.func != 0 || matches!(sp.mode, Mode::FuncEntry | Mode::FuncExit | Mode::Before | Mode::After) {
                                continue;
                            }
                            if !matches!(em.roles[0].get(sp.at), Some(Role::Block) | Some(Role::If) | Some(Role::Else)) {
                                continue;
                            }
                            let twin = Probe { func: 0, at: sp.at, mode: Mode::After, id: sp.id };
                            all_plans.push((vec![twin.clone(), sp.clone()], Some(0)));
                            all_plans.push((vec![twin, sp], Some(2)));
                        }
                    }
                }
                if !fam.companions.is_empty() {
                    let singles: Vec<Vec<Probe>> = all_plans.iter().filter(|(p, a)| p.len() == 1 && a.is_none()).map(|(p, _)| p.clone()).collect();
                    let others = sites(prog, &fam.companions);
                    for pl in singles {
                        for (func, at, mode) in others.iter() {
                            if *func != 0 {
                                continue;
                            }
                            let comp = Probe { func: 0, at: *at, mode: *mode, id: 1901 };
                            let mut last = pl.clone();
                            last.push(comp.clone());
                            let mut first = vec![comp];
                            first.extend(pl.iter().cloned());
                            all_plans.push((last, None));
                            all_plans.push((first, Some(2)));
                        }
                    }
                }
                let mut removal_cases: Vec<(Vec<Probe>, usize)> = vec![];
                if fam.removals {
                    let em = emit(prog);
                    if let Ok(full) = load(&em.bytes) {
                        let f0 = &full.funcs[0];
                        let singles: Vec<Probe> = all_plans.iter().filter(|(p, a)| p.len() == 1 && a.is_none()).map(|(p, _)| p[0].clone()).collect();
                        for (at, r) in em.roles[0].iter().enumerate() {
                            if !matches!(r, Role::Block | Role::Loop) {
                                continue;
                            }
                            let end = f0.end_of[at];
                            // the program without the construct must be a program
                            match cut_main(&em.bytes, at, end) {
                                Ok(cut) if validate(&cut, features_core()).is_ok() => {}
                                _ => continue,
                            }
                            for sp in singles.iter() {
                                let func_level = matches!(sp.mode, Mode::FuncEntry | Mode::FuncExit);
                                if sp.func == 0 && !func_level && sp.at >= at && sp.at <= end {
                                    // inside: only special-mode probes on constructs strictly inside (they
                                    // must vanish with the region); nothing on the removed opener itself
                                    let on_construct = matches!(em.roles[0].get(sp.at), Some(Role::Block) | Some(Role::Loop) | Some(Role::If) | Some(Role::Else));
                                    if !(sp.at > at && on_construct && matches!(sp.mode, Mode::BlockEntry | Mode::BlockExit | Mode::SemanticAfter)) {
                                        continue;
                                    }
                                }
                                removal_cases.push((vec![sp.clone()], at));
                            }
                        }
                    }
                }
                for (k, (plan, at)) in removal_cases.into_iter().enumerate() {
                    let case = Case { program: prog.clone(), plan, api: [0u8, 1, 2, 3, 4, 5][(pi + k) % 6], removed: Some(at) };
                    let r = match catch(|| judge(&case, false)) {
                        Ok(r) => r,
                        Err(p) => Err(format!("harness panic: {} at {}:{}", p.msg, p.file, p.line)),
                    };
                    v.push((case, r));
                }
                for (k, (plan, forced_api)) in all_plans.into_iter().enumerate() {
                    let api = forced_api.unwrap_or([0u8, 1, 3, 4, 5][(pi + k) % 5]);
                    let case = Case { program: prog.clone(), plan, api, removed: None };
                    let keep = tier == Tier::Thorough || (pi + k) % 97 == 0;
                    let r = match catch(|| judge(&case, keep)) {
                        Ok(r) => r,
                        Err(p) => Err(format!("harness panic: {} at {}:{}", p.msg, p.file, p.line)),
                    };
                    v.push((case, r));
                }
                (pi, v)
            })
            .collect();
        let mut n = 0u64;
        for (_pi, v) in results {
            for (case, r) in v {
                n += 1;
                match r {
                    Err(e) => run.machinery_error(format!("family {}: {} (case {})", fam.name, e, serde_json::to_string(&case).unwrap_or_default().chars().take(300).collect::<String>())),
                    Ok(jd) => {
                        total_exec += jd.executions;
                        total_steps += jd.steps;
                        run.add_observed(jd.observed);
                        let em = emit(&case.program);
                        let mut class: Vec<String> = case.plan.iter().map(|p| format!("{}@{}", p.mode.name(), if matches!(p.mode, Mode::FuncEntry | Mode::FuncExit) { "fn".to_string() } else { em.roles[p.func as usize].get(p.at).map(|r| r.name()).unwrap_or("?").to_string() })).collect();
                        class.sort();
                        if case.removed.is_some() {
                            class.push("removed-construct".into());
                        }
                        run.add_class(fam.name, &class.join("+"));
                        for c in jd.clauses {
                            let relevant = match c.mode {
                                None => judge_behaviour,
                                Some(m) => judged_modes.contains(&m),
                            };
                            if relevant {
                                run.add_mismatch(fam.name, json!(case), c.sig, c.detail, 1);
                            }
                        }
                        if let Some(mods) = jd.modules {
                            if node_batch.len() < 4000 {
                                node_batch.push(mods);
                            }
                        }
                    }
                }
            }
        }
        fam_n += n;
        done_programs += chunk.len();
      }
        let n = fam_n;
        run.add_evaluations(fam.name, n);
        if let Some(p) = fam.programs.get(fam.programs.len() / 2) {
            run.add_sample(json!({"family": fam.name, "program": p, "sites": sites(p, &fam.modes).len()}));
        }
    }
    run.add_counter("executions", total_exec);
    run.add_counter("interpreter_steps", total_steps);
    crate::nodebridge::cross_validate(run, &node_batch);
}

/// two sibling constructs of main, each holding one nested construct (so that a construct inside the
/// first and one inside the second sit at the same nesting depth), in both orders
fn sibling_nests() -> Vec<Program> {
    let inner = || vec![Stmt::If(Cond::A, vec![Stmt::Mark], Some(vec![Stmt::Mark])), Stmt::If(Cond::A, vec![Stmt::Mark], None), Stmt::Block(vec![Stmt::Mark]), Stmt::Loop(vec![Stmt::Mark])];
    let mut out = vec![];
    for k1 in inner() {
        for o1 in 0..2 {
            let first = if o1 == 0 { Stmt::Block(vec![k1.clone()]) } else { Stmt::Loop(vec![k1.clone()]) };
            for k2 in inner() {
                for o2 in 0..2 {
                    let second = if o2 == 0 { Stmt::Block(vec![k2.clone()]) } else { Stmt::If(Cond::B, vec![k2.clone()], None) };
                    out.push(Program { results: 0, main: vec![first.clone(), second.clone()], callee: vec![] });
                    out.push(Program { results: 0, main: vec![second, first.clone()], callee: vec![] });
                }
            }
        }
    }
    out
}

const CONDS: &[Cond] = &[Cond::A, Cond::B, Cond::Ctr];

fn callee_variants() -> Vec<Vec<Stmt>> {
    vec![vec![Stmt::Mark], vec![Stmt::If(Cond::A, vec![Stmt::Ret], None), Stmt::Mark], vec![Stmt::Block(vec![Stmt::BrIf(Cond::B, 1), Stmt::Mark]), Stmt::GSet]]
}

pub fn check(id: &'static str, tier: Tier) -> i32 {
    let mut run = Run::new(id, tier, "model_checking");
    let callees = callee_variants();
    use Leaf::*;
    let (fams, judged, behaviour): (Vec<Family>, Vec<Mode>, bool) = match id {
        "C16" => {
            let n = tier.pick(3, 4);
            let all = vec![Mode::Before, Mode::After, Mode::SemanticAfter, Mode::BlockEntry, Mode::BlockExit, Mode::FuncEntry, Mode::FuncExit];
            let mut fams = vec![];
            for results in 0..3u8 {
                let gr = g(if results == 0 { n } else { n - 1 }, 2, &[Mark, Br, BrIf, Ret, Unr, Call, GSet, Store, Div, RetCall, Throw], true, true, true, true, if tier == Tier::Quick { &[Cond::A, Cond::Ctr] } else { CONDS }, results);
                fams.push(Family { name: ["results=[]", "results=[i32]", "results=[i32,i64]"][results as usize], programs: programs(&gr, &callees), modes: all.clone(), probes: 1, same_site_twice: true, with_ordinary: false, companions: vec![], removals: false });
            }
            // two probes on small programs (one node more in the thorough tier)
            let gr = g(tier.pick(2, 3), 2, &[Mark, Br, BrIf, Ret, Call, GSet], true, true, true, true, if tier == Tier::Quick { CONDS } else { &[Cond::A, Cond::Ctr] }, 0);
            fams.push(Family { name: "two probes, small programs", programs: programs(&gr, &callees), modes: all.clone(), probes: 2, same_site_twice: true, with_ordinary: false, companions: vec![], removals: false });
            let gr = g(tier.pick(2, 3), 2, &[Mark, BrTable], true, false, true, false, &[Cond::A], 0);
            fams.push(Family { name: "br_table programs", programs: programs(&gr, &callees), modes: all, probes: tier.pick(1, 2), same_site_twice: false, with_ordinary: false, companions: vec![], removals: false });
            (fams, vec![Mode::Before, Mode::After], true)
        }
        "C17" => {
            let modes = vec![Mode::FuncEntry, Mode::FuncExit];
            let mut fams = vec![];
            for results in 0..3u8 {
                let gr = g(if results == 0 { tier.pick(3, 4) } else { tier.pick(2, 3) }, 3, &[Mark, Br, BrIf, Ret, Unr, Throw, Call, RetCall, Div], true, results == 0, true, true, if tier == Tier::Quick { &[Cond::A, Cond::Ctr] } else { CONDS }, results);
                fams.push(Family { name: ["exits results=[]", "exits results=[i32]", "exits results=[i32,i64]"][results as usize], programs: programs(&gr, &callees), modes: modes.clone(), probes: tier.pick(2, 4), same_site_twice: true, with_ordinary: false, companions: vec![], removals: false });
            }
            // one node more, over the exit-relevant statements only (no loops, one condition): reaches
            // `if c {transfer} else {exit}` and exits behind dead code, which the lowering has to treat
            // per arm (seeded change C17b)
            let gr = g(tier.pick(4, 5), 3, &[Mark, Br, Ret, Unr, RetCall, RetCallInd, Throw], true, false, true, true, &[Cond::A], 0);
            fams.push(Family { name: "exits in both arms and behind dead code", programs: programs(&gr, &callees), modes: modes.clone(), probes: tier.pick(1, 2), same_site_twice: false, with_ordinary: false, companions: vec![], removals: false });
            let gr = g(tier.pick(3, 4), 3, &[Mark, Br, Ret, Unr], true, false, true, true, &[Cond::A], 0);
            fams.push(Family { name: "entry/exit probes with an ordinary probe on the same function", programs: programs(&gr, &callees), modes: modes.clone(), probes: 2, same_site_twice: false, with_ordinary: true, companions: vec![], removals: false });
            let gr = g(tier.pick(3, 4), 3, &[Mark, Br, Ret], true, true, true, true, &[Cond::A], 0);
            fams.push(Family { name: "entry/exit probe with a probe of another special mode on the same function", programs: programs(&gr, &callees), modes: modes.clone(), probes: 1, same_site_twice: false, with_ordinary: false, companions: vec![Mode::BlockEntry, Mode::BlockExit, Mode::SemanticAfter], removals: false });
            let gr = g(tier.pick(2, 3), 3, &[Mark, BrTable, Ret], true, false, true, false, &[Cond::A, Cond::B], 0);
            fams.push(Family { name: "br_table to function label", programs: programs(&gr, &callees), modes: modes.clone(), probes: 2, same_site_twice: false, with_ordinary: false, companions: vec![], removals: false });
            let gr = g(tier.pick(3, 4), 3, &[Mark, Br, Ret], true, true, true, true, &[Cond::A], 0);
            fams.push(Family { name: "entry/exit probe beside a construct removed through an empty block alternate", programs: programs(&gr, &callees), modes: modes.clone(), probes: 1, same_site_twice: false, with_ordinary: false, companions: vec![], removals: true });
            (fams, modes, true)
        }
        "C18" => {
            let modes = vec![Mode::BlockEntry];
            let gr = if tier == Tier::Quick { g(4, 3, &[Mark, Br, BrIf], true, true, true, true, &[Cond::A, Cond::Ctr], 0) } else { g(5, 3, &[Mark, Br, BrIf, Ret], true, true, true, true, CONDS, 0) };
            let mut fams = vec![Family { name: "nested blocks/loops/ifs", programs: programs(&gr, &callees), modes: modes.clone(), probes: tier.pick(2, 3), same_site_twice: true, with_ordinary: false, companions: vec![], removals: false }];
            let gr = g(tier.pick(3, 4), 3, &[Mark, BrIf], true, true, true, true, &[Cond::A, Cond::Ctr], 0);
            fams.push(Family { name: "block-entry probes with an ordinary probe on the same function", programs: programs(&gr, &callees), modes: modes.clone(), probes: 2, same_site_twice: false, with_ordinary: true, companions: vec![], removals: false });
            let gr = g(tier.pick(3, 4), 3, &[Mark, Br, BrIf], true, true, true, true, &[Cond::A], 0);
            fams.push(Family { name: "block-entry probe with a probe of another special mode on the same function", programs: programs(&gr, &callees), modes: modes.clone(), probes: 1, same_site_twice: false, with_ordinary: false, companions: vec![Mode::BlockExit, Mode::SemanticAfter, Mode::FuncEntry, Mode::FuncExit], removals: false });
            let gr = g(tier.pick(3, 4), 3, &[Mark, Br, BrIf], true, true, true, true, &[Cond::A], 0);
            fams.push(Family { name: "block-entry probe beside a construct removed through an empty block alternate", programs: programs(&gr, &callees), modes: modes.clone(), probes: 1, same_site_twice: false, with_ordinary: false, companions: vec![], removals: true });
            fams.push(Family { name: "block-entry probe in or beside a removed construct, sibling nests of equal depth", programs: sibling_nests(), modes: modes.clone(), probes: 1, same_site_twice: false, with_ordinary: false, companions: vec![], removals: true });
            (fams, modes, true)
        }
        "C19" => {
            let modes = vec![Mode::BlockExit];
            let gr = if tier == Tier::Quick { g(4, 3, &[Mark, Br, BrIf], true, true, true, true, &[Cond::A, Cond::Ctr], 0) } else { g(5, 3, &[Mark, Br, BrIf, Ret], true, true, true, true, CONDS, 0) };
            let mut fams = vec![Family { name: "nested constructs inside if-arms", programs: programs(&gr, &callees), modes: modes.clone(), probes: tier.pick(2, 3), same_site_twice: true, with_ordinary: false, companions: vec![], removals: false }];
            let gr = g(tier.pick(3, 4), 3, &[Mark, BrIf], true, true, true, true, &[Cond::A, Cond::Ctr], 0);
            fams.push(Family { name: "block-exit probes with an ordinary probe on the same function", programs: programs(&gr, &callees), modes: modes.clone(), probes: 2, same_site_twice: false, with_ordinary: true, companions: vec![], removals: false });
            let gr = g(tier.pick(3, 4), 3, &[Mark, Br, BrIf], true, true, true, true, &[Cond::A], 0);
            fams.push(Family { name: "block-exit probe with a probe of another special mode on the same function", programs: programs(&gr, &callees), modes: modes.clone(), probes: 1, same_site_twice: false, with_ordinary: false, companions: vec![Mode::BlockEntry, Mode::SemanticAfter, Mode::FuncEntry, Mode::FuncExit], removals: false });
            let gr = g(tier.pick(3, 4), 3, &[Mark, Br, BrIf], true, true, true, true, &[Cond::A], 0);
            fams.push(Family { name: "block-exit probe beside a construct removed through an empty block alternate", programs: programs(&gr, &callees), modes: modes.clone(), probes: 1, same_site_twice: false, with_ordinary: false, companions: vec![], removals: true });
            fams.push(Family { name: "block-exit probe in or beside a removed construct, sibling nests of equal depth", programs: sibling_nests(), modes: modes.clone(), probes: 1, same_site_twice: false, with_ordinary: false, companions: vec![], removals: true });
            (fams, modes, true)
        }
        "C20" => {
            let modes = vec![Mode::SemanticAfter];
            let mut fams = vec![];
            let gr = if tier == Tier::Quick { g(4, 3, &[Mark, Br, BrIf], true, true, true, true, &[Cond::A, Cond::Ctr], 0) } else { g(5, 3, &[Mark, Br, BrIf, Ret], true, true, true, true, CONDS, 0) };
            fams.push(Family { name: "branches inside loops and blocks", programs: programs(&gr, &callees), modes: modes.clone(), probes: tier.pick(2, 3), same_site_twice: true, with_ordinary: false, companions: vec![], removals: false });
            let gr = g(tier.pick(3, 4), 3, &[Mark, BrTable, BrIf], true, true, true, false, &[Cond::A, Cond::Ctr], 0);
            fams.push(Family { name: "br_table across depths and the function label", programs: programs(&gr, &callees), modes: modes.clone(), probes: tier.pick(2, 3), same_site_twice: false, with_ordinary: false, companions: vec![], removals: false });
            let gr = g(tier.pick(3, 4), 3, &[Mark, Br, BrIf], true, false, true, true, &[Cond::A], 0);
            fams.push(Family { name: "semantic-after probes with an ordinary probe on the same function", programs: programs(&gr, &callees), modes: modes.clone(), probes: 2, same_site_twice: false, with_ordinary: true, companions: vec![], removals: false });
            let gr = g(tier.pick(3, 4), 3, &[Mark, Br, BrIf], true, false, true, true, &[Cond::A], 0);
            fams.push(Family { name: "semantic-after probe with a probe of another special mode on the same function", programs: programs(&gr, &callees), modes: modes.clone(), probes: 1, same_site_twice: false, with_ordinary: false, companions: vec![Mode::BlockEntry, Mode::BlockExit, Mode::FuncEntry, Mode::FuncExit], removals: false });
            // two probed branches in sibling constructs (the first target closes before the second branch)
            let gr = g(5, 2, &[Mark, Br], true, false, true, false, &[Cond::A], 0);
            fams.push(Family { name: "branches in sibling blocks", programs: programs(&gr, &callees).into_iter().filter(|p| p.main.len() == 2 && p.main.iter().all(|s| matches!(s, Stmt::Block(_)))).collect(), modes: modes.clone(), probes: 2, same_site_twice: false, with_ordinary: false, companions: vec![], removals: false });
            for results in 1..3u8 {
                let gr = g(3, 2, &[Mark, Br, BrIf], true, false, true, true, &[Cond::A, Cond::B], results);
                fams.push(Family { name: ["", "results=[i32]", "results=[i32,i64]"][results as usize], programs: programs(&gr, &callees), modes: modes.clone(), probes: 2, same_site_twice: false, with_ordinary: false, companions: vec![], removals: false });
            }
            let gr = g(tier.pick(3, 4), 3, &[Mark, Br, BrIf], true, true, true, true, &[Cond::A], 0);
            fams.push(Family { name: "semantic-after probe beside a construct removed through an empty block alternate", programs: programs(&gr, &callees), modes: modes.clone(), probes: 1, same_site_twice: false, with_ordinary: false, companions: vec![], removals: true });
            fams.push(Family { name: "semantic-after probe in or beside a removed construct, sibling nests of equal depth", programs: sibling_nests(), modes: modes.clone(), probes: 1, same_site_twice: false, with_ordinary: false, companions: vec![], removals: true });
            (fams, modes, true)
        }
        _ => unreachable!(),
    };
    let nprog: usize = fams.iter().map(|f| f.programs.len()).sum();
    run.rule = format!(
        "programs = ALL function bodies of the statement grammar (mark, nop, block, counted loop, if/else, br, br_if, br_table, return, unreachable, throw, call, return_call, global.set, store, trapping div; conditions over param a, param b, innermost loop counter) within the node/nesting bounds of each family ({} programs in {} families), smallest first; plans = ALL sets of <= p probes (`i32.const id; call $probe`) over the applicable (instruction, mode) pairs of the family's modes, applied through the module iterator and the function modifier alternately (rotating over: iterator, modifier, iterator with finish_instr(), iterator with the module encoded twice - the second encoding is judged -, modifier with pull_side_effects() before the encoding); every (program, plan) is instrumented by the real library, validated, and executed on all 9 inputs (a,b) in {{0,1,2}}^2 by the reference interpreter: results/trap, globals, memory and the mark sequence must equal the original's, and in every gap between marks the multiset of probe firings must equal what the monitor (DESIGN.md appendix A) derives from the original's execution. Families 'beside a construct removed': one probe plus one void block / loop of main removed (the probe anywhere outside it, or - block-entry / block-exit / semantic-after on a construct strictly inside it - expected never to fire) through an empty block alternate (every such pair, four call orders / API kinds rotated); the reference is then the program WITHOUT that construct (cut out of the body bytes, wirm not involved), probed at the corresponding place. Non-trivial class = multiset of (mode, instruction role) of the plan.",
        nprog,
        fams.len()
    );
    run.extra.insert("families".into(), json!(fams.iter().map(|f| json!({"name": f.name, "programs": f.programs.len(), "modes": f.modes.iter().map(|m| m.name()).collect::<Vec<_>>(), "max_probes": f.probes})).collect::<Vec<_>>()));
    run_families(&mut run, &fams, &judged, behaviour, tier);
    // states = (program, plan) pairs explored; transitions = interpreter steps executed
    run.states = Some(fams.iter().map(|_| 0u64).sum::<u64>());
    run.states = None;
    run.assumptions.push("the reference interpreter implements the used subset of WebAssembly correctly (cross-validated against node/V8 where available, see traces_validated_against_impl)".into());
    run.assumptions.push("raw `after` probes are not placed on `end` and `loop` (their event placement is not fixed by the property); relative order of different probes in one gap is not compared".into());
    run.finish()
}

pub fn replay(case: &serde_json::Value) -> Vec<Mismatch> {
    let c: Case = match serde_json::from_value(case.clone()) {
        Ok(c) => c,
        Err(e) => return vec![Mismatch::new("replay-case-unreadable", e.to_string())],
    };
    match judge(&c, false) {
        Ok(j) => j.clauses.into_iter().map(|c| Mismatch::new(c.sig, c.detail)).collect(),
        Err(e) => vec![Mismatch::new("machinery", e)],
    }
}
