//! E3: independent validation / decoding helpers (wasmparser + wasmprinter only, never wirm).

use std::collections::BTreeMap;
use wasmparser::{
    BinaryReader, KnownCustom, Name, NameSectionReader, Parser, Payload, Validator, WasmFeatures,
};

/// Feature set for the profiles the IR models.
pub fn features_core() -> WasmFeatures {
    let mut f = WasmFeatures::default();
    f |= WasmFeatures::MUTABLE_GLOBAL
        | WasmFeatures::SATURATING_FLOAT_TO_INT
        | WasmFeatures::SIGN_EXTENSION
        | WasmFeatures::REFERENCE_TYPES
        | WasmFeatures::MULTI_VALUE
        | WasmFeatures::BULK_MEMORY
        | WasmFeatures::SIMD
        | WasmFeatures::THREADS
        | WasmFeatures::TAIL_CALL
        | WasmFeatures::FLOATS
        | WasmFeatures::MULTI_MEMORY
        | WasmFeatures::EXCEPTIONS
        | WasmFeatures::MEMORY64
        | WasmFeatures::FUNCTION_REFERENCES
        | WasmFeatures::GC
        | WasmFeatures::GC_TYPES;
    f.remove(WasmFeatures::EXTENDED_CONST);
    f.remove(WasmFeatures::COMPONENT_MODEL);
    f
}

pub fn features_with_shared_everything() -> WasmFeatures {
    features_core() | WasmFeatures::SHARED_EVERYTHING_THREADS
}

pub fn features_all() -> WasmFeatures {
    WasmFeatures::all()
}

pub fn features_component() -> WasmFeatures {
    let mut f = features_core();
    f |= WasmFeatures::COMPONENT_MODEL | WasmFeatures::EXTENDED_CONST;
    f
}

pub fn validate(bytes: &[u8], features: WasmFeatures) -> Result<(), String> {
    let mut v = Validator::new_with_features(features);
    v.validate_all(bytes).map(|_| ()).map_err(|e| e.to_string())
}

/// wasmprinter text with custom-section annotation lines removed.
pub fn print_text(bytes: &[u8]) -> Result<String, String> {
    let mut out = String::new();
    let mut cfg = wasmprinter::Config::new();
    cfg.name_unnamed(false);
    cfg.print(bytes, &mut wasmprinter::PrintFmtWrite(&mut out))
        .map_err(|e| e.to_string())?;
    Ok(out)
}

/// wasmprinter text without names (pure index form): names are ignored entirely so that
/// renaming does not show up; used where structure, not names, is compared.
pub fn print_text_no_names(bytes: &[u8]) -> Result<String, String> {
    let stripped = strip_custom_sections(bytes, |_| true)?;
    print_text(&stripped)
}

/// Re-emit a core module without the custom sections selected by `drop` (top-level module only).
pub fn strip_custom_sections(bytes: &[u8], drop: impl Fn(&str) -> bool) -> Result<Vec<u8>, String> {
    let mut out: Vec<u8> = bytes[..8.min(bytes.len())].to_vec();
    let mut depth = 0usize;
    for p in Parser::new(0).parse_all(bytes) {
        let p = p.map_err(|e| e.to_string())?;
        match &p {
            Payload::Version { .. } => {
                depth += 1;
                continue;
            }
            Payload::End(_) => {
                depth = depth.saturating_sub(1);
                continue;
            }
            _ => {}
        }
        if depth != 1 {
            continue;
        }
        if let Some((id, range)) = p.as_section() {
            if let Payload::CustomSection(c) = &p {
                if drop(c.name()) {
                    continue;
                }
            }
            out.push(id);
            leb_u32(&mut out, (range.end - range.start) as u32);
            out.extend_from_slice(&bytes[range]);
        }
    }
    Ok(out)
}

pub fn leb_u32(out: &mut Vec<u8>, mut v: u32) {
    loop {
        let b = (v & 0x7f) as u8;
        v >>= 7;
        if v == 0 {
            out.push(b);
            break;
        }
        out.push(b | 0x80);
    }
}

/// Ordered list of non-name custom sections (name, payload) of a top-level module.
pub fn custom_sections(bytes: &[u8]) -> Result<Vec<(String, Vec<u8>)>, String> {
    let mut v = vec![];
    let mut depth = 0usize;
    for p in Parser::new(0).parse_all(bytes) {
        match p.map_err(|e| e.to_string())? {
            Payload::Version { .. } => depth += 1,
            Payload::End(_) => depth = depth.saturating_sub(1),
            Payload::CustomSection(c) if depth == 1 => {
                if c.name() != "name" {
                    v.push((c.name().to_string(), c.data().to_vec()));
                }
            }
            _ => {}
        }
    }
    Ok(v)
}

/// Decoded name section: subsection -> (index | (outer,inner)) -> name.
#[derive(Clone, Debug, Default, PartialEq, Eq)]
pub struct Names {
    pub module: Option<String>,
    pub flat: BTreeMap<&'static str, BTreeMap<u32, String>>,
    pub indirect: BTreeMap<&'static str, BTreeMap<(u32, u32), String>>,
}

impl Names {
    pub fn is_empty(&self) -> bool {
        self.module.is_none()
            && self.flat.values().all(|m| m.is_empty())
            && self.indirect.values().all(|m| m.is_empty())
    }
    pub fn funcs(&self) -> BTreeMap<u32, String> {
        self.flat.get("function").cloned().unwrap_or_default()
    }
    pub fn globals(&self) -> BTreeMap<u32, String> {
        self.flat.get("global").cloned().unwrap_or_default()
    }
    pub fn locals(&self) -> BTreeMap<(u32, u32), String> {
        self.indirect.get("local").cloned().unwrap_or_default()
    }
}

pub fn decode_names(bytes: &[u8]) -> Result<Names, String> {
    let mut names = Names::default();
    let mut depth = 0usize;
    for p in Parser::new(0).parse_all(bytes) {
        match p.map_err(|e| e.to_string())? {
            Payload::Version { .. } => depth += 1,
            Payload::End(_) => depth = depth.saturating_sub(1),
            Payload::CustomSection(c) if depth == 1 => {
                if let KnownCustom::Name(r) = c.as_known() {
                    read_names(r, &mut names)?;
                }
            }
            _ => {}
        }
    }
    // an empty subsection is the same as an absent one
    names.flat.retain(|_, m| !m.is_empty());
    names.indirect.retain(|_, m| !m.is_empty());
    Ok(names)
}

fn read_names(r: NameSectionReader, out: &mut Names) -> Result<(), String> {
    fn flat(
        out: &mut Names,
        key: &'static str,
        m: wasmparser::NameMap,
    ) -> Result<(), String> {
        let e = out.flat.entry(key).or_default();
        for n in m {
            let n = n.map_err(|e| e.to_string())?;
            e.insert(n.index, n.name.to_string());
        }
        Ok(())
    }
    fn ind(
        out: &mut Names,
        key: &'static str,
        m: wasmparser::IndirectNameMap,
    ) -> Result<(), String> {
        let e = out.indirect.entry(key).or_default();
        for n in m {
            let n = n.map_err(|e| e.to_string())?;
            for i in n.names {
                let i = i.map_err(|e| e.to_string())?;
                e.insert((n.index, i.index), i.name.to_string());
            }
        }
        Ok(())
    }
    for sub in r {
        match sub.map_err(|e| e.to_string())? {
            Name::Module { name, .. } => out.module = Some(name.to_string()),
            Name::Function(m) => flat(out, "function", m)?,
            Name::Local(m) => ind(out, "local", m)?,
            Name::Label(m) => ind(out, "label", m)?,
            Name::Type(m) => flat(out, "type", m)?,
            Name::Table(m) => flat(out, "table", m)?,
            Name::Memory(m) => flat(out, "memory", m)?,
            Name::Global(m) => flat(out, "global", m)?,
            Name::Element(m) => flat(out, "elem", m)?,
            Name::Data(m) => flat(out, "data", m)?,
            Name::Field(m) => ind(out, "field", m)?,
            Name::Tag(m) => flat(out, "tag", m)?,
            Name::Unknown { .. } => {}
        }
    }
    Ok(())
}

/// Operators of every local function body, rendered with `Debug` (stable, immediates included).
pub fn function_bodies(bytes: &[u8]) -> Result<Vec<FuncBody>, String> {
    let mut v = vec![];
    for p in Parser::new(0).parse_all(bytes) {
        if let Payload::CodeSectionEntry(body) = p.map_err(|e| e.to_string())? {
            let mut locals = vec![];
            for l in body.get_locals_reader().map_err(|e| e.to_string())? {
                let (n, t) = l.map_err(|e| e.to_string())?;
                for _ in 0..n {
                    locals.push(format!("{}", t));
                }
            }
            let mut ops = vec![];
            for op in body.get_operators_reader().map_err(|e| e.to_string())? {
                ops.push(format!("{:?}", op.map_err(|e| e.to_string())?));
            }
            v.push(FuncBody { locals, ops });
        }
    }
    Ok(v)
}

#[derive(Clone, Debug, PartialEq, Eq)]
pub struct FuncBody {
    pub locals: Vec<String>,
    pub ops: Vec<String>,
}

#[allow(dead_code)]
pub fn reader(bytes: &[u8]) -> BinaryReader<'_> {
    BinaryReader::new(bytes, 0)
}
