//! E2 "Programs": terminating function bodies from a statement grammar, enumerated exhaustively
//! up to a node / nesting bound, emitted with wasm-encoder (never through wirm).

use serde::{Deserialize, Serialize};
use wasm_encoder as we;

#[derive(Clone, Copy, Debug, PartialEq, Eq, Hash, Serialize, Deserialize)]
pub enum Cond {
    /// parameter a (local 0)
    A,
    /// parameter b (local 1)
    B,
    /// counter of the innermost enclosing loop (parameter a outside loops)
    Ctr,
}

#[derive(Clone, Debug, PartialEq, Eq, Hash, Serialize, Deserialize)]
pub enum Stmt {
    Mark,
    Nop,
    Block(Vec<Stmt>),
    /// counted loop (3 iterations at most): the counter is decremented at the loop header
    Loop(Vec<Stmt>),
    If(Cond, Vec<Stmt>, Option<Vec<Stmt>>),
    /// unconditional branch; never targets a loop label
    Br(u32),
    /// conditional branch; may target a loop label only with `Cond::Ctr` (continue while counter != 0)
    BrIf(Cond, u32),
    BrTable(Cond, Vec<u32>, u32),
    Ret,
    Unr,
    Call,
    RetCall,
    /// `return_call_indirect` through table 0, whose only entry is the callee
    RetCallInd,
    Throw,
    GSet,
    Store,
    /// i32.const 6 / cond: traps when the condition value is 0
    Div(Cond),
}

#[derive(Clone, Debug, PartialEq, Eq, Hash, Serialize, Deserialize)]
pub struct Program {
    /// 0: [] ; 1: [i32] ; 2: [i32, i64]
    pub results: u8,
    pub main: Vec<Stmt>,
    pub callee: Vec<Stmt>,
}

/// role of every emitted instruction (for choosing probe sites and for signatures)
#[derive(Clone, Copy, Debug, PartialEq, Eq, Hash, Serialize, Deserialize)]
pub enum Role {
    MarkConst,
    MarkCall,
    Nop,
    Block,
    Loop,
    If,
    Else,
    /// end of a block / loop / if(-else)
    EndBlock,
    EndLoop,
    EndIf,
    FinalEnd,
    Br,
    BrIf,
    BrTable,
    Return,
    Unreachable,
    Call,
    ReturnCall,
    Throw,
    /// operand-producing or bookkeeping instruction (constants, local.get, loop counter updates, ...)
    Aux,
    GlobalSet,
    Store,
    Div,
}

impl Role {
    pub fn name(self) -> &'static str {
        match self {
            Role::MarkConst => "mark.const",
            Role::MarkCall => "mark.call",
            Role::Nop => "nop",
            Role::Block => "block",
            Role::Loop => "loop",
            Role::If => "if",
            Role::Else => "else",
            Role::EndBlock => "end.block",
            Role::EndLoop => "end.loop",
            Role::EndIf => "end.if",
            Role::FinalEnd => "end.function",
            Role::Br => "br",
            Role::BrIf => "br_if",
            Role::BrTable => "br_table",
            Role::Return => "return",
            Role::Unreachable => "unreachable",
            Role::Call => "call",
            Role::ReturnCall => "return_call",
            Role::Throw => "throw",
            Role::Aux => "aux",
            Role::GlobalSet => "global.set",
            Role::Store => "store",
            Role::Div => "div",
        }
    }
}

pub const F_PROBE: u32 = 0;
pub const F_MARK: u32 = 1;
pub const F_MAIN: u32 = 2;
pub const F_CALLEE: u32 = 3;
/// locals: 0 a, 1 b, 2.. loop counters (one per loop occurrence)
const FIRST_CTR: u32 = 2;

#[derive(Clone, Copy, PartialEq, Eq)]
enum Frame {
    Block,
    Loop(u32),
    If,
}

struct Emitter {
    ins: Vec<we::Instruction<'static>>,
    roles: Vec<Role>,
    frames: Vec<Frame>,
    next_mark: i32,
    next_ctr: u32,
    results: u8,
    is_main: bool,
}

impl Emitter {
    fn push(&mut self, i: we::Instruction<'static>, r: Role) {
        self.ins.push(i);
        self.roles.push(r);
    }
    fn cond(&mut self, c: Cond) {
        let idx = match c {
            Cond::A => 0,
            Cond::B => 1,
            Cond::Ctr => self
                .frames
                .iter()
                .rev()
                .find_map(|f| if let Frame::Loop(c) = f { Some(*c) } else { None })
                .unwrap_or(0),
        };
        self.push(we::Instruction::LocalGet(idx), Role::Aux);
    }
    fn result_values(&mut self) {
        if self.results >= 1 {
            self.push(we::Instruction::I32Const(7), Role::Aux);
        }
        if self.results >= 2 {
            self.push(we::Instruction::I64Const(9), Role::Aux);
        }
    }
    /// does relative depth d designate the function label?
    fn is_fn_label(&self, d: u32) -> bool {
        d as usize == self.frames.len()
    }
    fn stmts(&mut self, ss: &[Stmt]) {
        for s in ss {
            self.stmt(s);
        }
    }
    fn stmt(&mut self, s: &Stmt) {
        use we::Instruction as I;
        match s {
            Stmt::Mark => {
                let k = self.next_mark;
                self.next_mark += 1;
                self.push(I::I32Const(k), Role::MarkConst);
                self.push(I::Call(F_MARK), Role::MarkCall);
            }
            Stmt::Nop => self.push(I::Nop, Role::Nop),
            Stmt::Block(b) => {
                self.push(I::Block(we::BlockType::Empty), Role::Block);
                self.frames.push(Frame::Block);
                self.stmts(b);
                self.frames.pop();
                self.push(I::End, Role::EndBlock);
            }
            Stmt::Loop(b) => {
                let c = self.next_ctr;
                self.next_ctr += 1;
                self.push(I::I32Const(3), Role::Aux);
                self.push(I::LocalSet(c), Role::Aux);
                self.push(I::Loop(we::BlockType::Empty), Role::Loop);
                self.frames.push(Frame::Loop(c));
                self.push(I::LocalGet(c), Role::Aux);
                self.push(I::I32Const(1), Role::Aux);
                self.push(I::I32Sub, Role::Aux);
                self.push(I::LocalSet(c), Role::Aux);
                self.stmts(b);
                self.push(I::LocalGet(c), Role::Aux);
                self.push(I::BrIf(0), Role::Aux);
                self.frames.pop();
                self.push(I::End, Role::EndLoop);
            }
            Stmt::If(c, t, e) => {
                self.cond(*c);
                self.push(I::If(we::BlockType::Empty), Role::If);
                self.frames.push(Frame::If);
                self.stmts(t);
                if let Some(e) = e {
                    self.push(I::Else, Role::Else);
                    self.stmts(e);
                }
                self.frames.pop();
                self.push(I::End, Role::EndIf);
            }
            Stmt::Br(d) => {
                if self.is_fn_label(*d) {
                    self.result_values();
                }
                self.push(I::Br(*d), Role::Br);
            }
            Stmt::BrIf(c, d) => {
                if self.is_fn_label(*d) {
                    self.result_values();
                }
                self.cond(*c);
                self.push(I::BrIf(*d), Role::BrIf);
                if self.is_fn_label(*d) {
                    // not taken: remove the result values again
                    for _ in 0..self.results {
                        self.push(I::Drop, Role::Aux);
                    }
                }
            }
            Stmt::BrTable(c, ts, d) => {
                // all targets of a br_table must have the same label arity: the generator only
                // mixes the function label with block labels when the function has no results
                if ts.iter().chain(std::iter::once(d)).any(|x| self.is_fn_label(*x)) {
                    self.result_values();
                }
                self.cond(*c);
                self.push(I::BrTable(std::borrow::Cow::Owned(ts.clone()), *d), Role::BrTable);
            }
            Stmt::Ret => {
                self.result_values();
                self.push(I::Return, Role::Return);
            }
            Stmt::Unr => self.push(I::Unreachable, Role::Unreachable),
            Stmt::Call => {
                self.push(I::LocalGet(0), Role::Aux);
                self.push(I::LocalGet(1), Role::Aux);
                self.push(I::Call(F_CALLEE), Role::Call);
                for _ in 0..self.results {
                    self.push(I::Drop, Role::Aux);
                }
            }
            Stmt::RetCall => {
                self.push(I::LocalGet(1), Role::Aux);
                self.push(I::LocalGet(0), Role::Aux);
                self.push(I::ReturnCall(F_CALLEE), Role::ReturnCall);
            }
            Stmt::RetCallInd => {
                self.push(I::LocalGet(1), Role::Aux);
                self.push(I::LocalGet(0), Role::Aux);
                self.push(I::I32Const(0), Role::Aux);
                self.push(I::ReturnCallIndirect { type_index: 1, table_index: 0 }, Role::ReturnCall);
            }
            Stmt::Throw => self.push(I::Throw(0), Role::Throw),
            Stmt::GSet => {
                self.push(I::GlobalGet(0), Role::Aux);
                self.push(I::I32Const(1), Role::Aux);
                self.push(I::I32Add, Role::Aux);
                self.push(I::GlobalSet(0), Role::GlobalSet);
            }
            Stmt::Store => {
                self.push(I::I32Const(8), Role::Aux);
                self.push(I::GlobalGet(0), Role::Aux);
                self.push(I::I32Store(we::MemArg { offset: 0, align: 2, memory_index: 0 }), Role::Store);
            }
            Stmt::Div(c) => {
                self.push(I::I32Const(6), Role::Aux);
                self.cond(*c);
                self.push(I::I32DivS, Role::Div);
                self.push(I::Drop, Role::Aux);
            }
        }
    }
}

fn count_loops(ss: &[Stmt]) -> u32 {
    ss.iter()
        .map(|s| match s {
            Stmt::Loop(b) => 1 + count_loops(b),
            Stmt::Block(b) => count_loops(b),
            Stmt::If(_, t, e) => count_loops(t) + e.as_ref().map(|e| count_loops(e)).unwrap_or(0),
            _ => 0,
        })
        .sum()
}

pub struct Emitted {
    pub bytes: Vec<u8>,
    /// roles of the instructions of main (function 2) and callee (function 3)
    pub roles: [Vec<Role>; 2],
}

/// Does the statement list always end in an instruction after which control does not continue?
/// (used only to decide whether fall-through result values are still needed: they are always
/// emitted; dead code is valid wasm)
fn uses_indirect(ss: &[Stmt]) -> bool {
    ss.iter().any(|s| match s {
        Stmt::RetCallInd => true,
        Stmt::Block(b) | Stmt::Loop(b) => uses_indirect(b),
        Stmt::If(_, t, e) => uses_indirect(t) || e.as_ref().map(|e| uses_indirect(e)).unwrap_or(false),
        _ => false,
    })
}

pub fn emit(p: &Program) -> Emitted {
    use we::*;
    let res: Vec<ValType> = match p.results {
        0 => vec![],
        1 => vec![ValType::I32],
        _ => vec![ValType::I32, ValType::I64],
    };
    let mut m = Module::new();
    let mut types = TypeSection::new();
    types.ty().function([ValType::I32], []); // 0 probe / mark
    types.ty().function([ValType::I32, ValType::I32], res.clone()); // 1 main / callee
    types.ty().function([], []); // 2 tag
    m.section(&types);
    let mut imports = ImportSection::new();
    imports.import("env", "probe", EntityType::Function(0));
    imports.import("env", "mark", EntityType::Function(0));
    m.section(&imports);
    let mut funcs = FunctionSection::new();
    funcs.function(1);
    funcs.function(1);
    m.section(&funcs);
    let indirect = uses_indirect(&p.main) || uses_indirect(&p.callee);
    if indirect {
        let mut tables = TableSection::new();
        tables.table(TableType { element_type: RefType::FUNCREF, table64: false, minimum: 1, maximum: Some(1), shared: false });
        m.section(&tables);
    }
    let mut mems = MemorySection::new();
    mems.memory(MemoryType { minimum: 1, maximum: None, memory64: false, shared: false, page_size_log2: None });
    m.section(&mems);
    let mut tags = TagSection::new();
    tags.tag(TagType { kind: TagKind::Exception, func_type_idx: 2 });
    m.section(&tags);
    let mut globals = GlobalSection::new();
    globals.global(GlobalType { val_type: ValType::I32, mutable: true, shared: false }, &ConstExpr::i32_const(0));
    m.section(&globals);
    let mut exports = ExportSection::new();
    exports.export("main", ExportKind::Func, F_MAIN);
    m.section(&exports);
    if indirect {
        let mut elems = ElementSection::new();
        elems.active(Some(0), &ConstExpr::i32_const(0), Elements::Functions(std::borrow::Cow::Borrowed(&[F_CALLEE][..])));
        m.section(&elems);
    }
    let mut code = CodeSection::new();
    let mut roles_out: [Vec<Role>; 2] = [vec![], vec![]];
    let mut next_mark = 1;
    for (fi, body) in [&p.main, &p.callee].into_iter().enumerate() {
        let nctr = count_loops(body);
        let mut e = Emitter { ins: vec![], roles: vec![], frames: vec![], next_mark, next_ctr: FIRST_CTR, results: p.results, is_main: fi == 0 };
        e.stmts(body);
        e.result_values();
        e.push(Instruction::End, Role::FinalEnd);
        next_mark = e.next_mark;
        let _ = e.is_main;
        let mut f = Function::new(if nctr > 0 { vec![(nctr, ValType::I32)] } else { vec![] });
        for i in e.ins.iter() {
            f.instruction(i);
        }
        code.function(&f);
        roles_out[fi] = e.roles;
    }
    m.section(&code);
    Emitted { bytes: m.finish(), roles: roles_out }
}

// ---------------------------------------------------------------------------------------------
// exhaustive enumeration of statement lists
// ---------------------------------------------------------------------------------------------
#[derive(Clone, Debug)]
pub struct Grammar {
    pub max_nodes: usize,
    pub max_depth: usize,
    /// leaf statement kinds allowed
    pub leaves: Vec<Leaf>,
    pub blocks: bool,
    pub loops: bool,
    pub ifs: bool,
    pub else_arms: bool,
    pub conds: Vec<Cond>,
    /// function has results: br_table must not mix the function label with inner labels
    pub results: u8,
}

#[derive(Clone, Copy, Debug, PartialEq, Eq)]
pub enum Leaf {
    Mark,
    Nop,
    Br,
    BrIf,
    BrTable,
    Ret,
    Unr,
    Call,
    RetCall,
    /// `return_call_indirect` through table 0, whose only entry is the callee
    RetCallInd,
    Throw,
    GSet,
    Store,
    Div,
}

#[derive(Clone, Copy, PartialEq, Eq)]
enum Ctx {
    Block,
    Loop,
    If,
}

/// all statement lists with exactly `n` nodes in context `ctx` (innermost last)
fn lists(g: &Grammar, n: usize, ctx: &mut Vec<Ctx>, memo: &mut std::collections::HashMap<(usize, Vec<u8>), Vec<Vec<Stmt>>>) -> Vec<Vec<Stmt>> {
    let key = (n, ctx.iter().map(|c| *c as u8).collect::<Vec<u8>>());
    if let Some(v) = memo.get(&key) {
        return v.clone();
    }
    let mut out: Vec<Vec<Stmt>> = vec![];
    if n == 0 {
        out.push(vec![]);
    } else {
        // first statement takes k nodes, the rest n-k
        for k in 1..=n {
            let firsts = single(g, k, ctx, memo);
            if firsts.is_empty() {
                continue;
            }
            let rests = lists(g, n - k, ctx, memo);
            for f in firsts.iter() {
                for r in rests.iter() {
                    let mut v = Vec::with_capacity(1 + r.len());
                    v.push(f.clone());
                    v.extend(r.iter().cloned());
                    out.push(v);
                }
            }
        }
    }
    memo.insert(key, out.clone());
    out
}

/// all single statements with exactly `n` nodes
fn single(g: &Grammar, n: usize, ctx: &mut Vec<Ctx>, memo: &mut std::collections::HashMap<(usize, Vec<u8>), Vec<Vec<Stmt>>>) -> Vec<Stmt> {
    let mut out = vec![];
    let depth = ctx.len() as u32;
    let in_loop = ctx.iter().any(|c| *c == Ctx::Loop);
    let conds: Vec<Cond> = g.conds.iter().copied().filter(|c| *c != Cond::Ctr || in_loop).collect();
    let is_loop_label = |d: u32| -> bool { d < depth && ctx[(depth - 1 - d) as usize] == Ctx::Loop };
    if n == 1 {
        for l in g.leaves.iter() {
            match l {
                Leaf::Mark => out.push(Stmt::Mark),
                Leaf::Nop => out.push(Stmt::Nop),
                Leaf::Br => {
                    for d in 0..=depth {
                        if !is_loop_label(d) {
                            out.push(Stmt::Br(d));
                        }
                    }
                }
                Leaf::BrIf => {
                    for d in 0..=depth {
                        if is_loop_label(d) {
                            // continue only while the loop's own counter is non-zero and only for the innermost loop
                            let innermost_loop = (0..depth).find(|x| is_loop_label(*x)) == Some(d);
                            if innermost_loop {
                                out.push(Stmt::BrIf(Cond::Ctr, d));
                            }
                        } else {
                            for c in conds.iter() {
                                out.push(Stmt::BrIf(*c, d));
                            }
                        }
                    }
                }
                Leaf::BrTable => {
                    let valid: Vec<u32> = (0..=depth).filter(|d| !is_loop_label(*d)).filter(|d| g.results == 0 || *d != depth).collect();
                    let fnl: Vec<u32> = if g.results != 0 { vec![depth] } else { vec![] };
                    for c in conds.iter() {
                        // single-target tables and two-target tables over the valid labels
                        for d in valid.iter() {
                            out.push(Stmt::BrTable(*c, vec![], *d));
                        }
                        for a in valid.iter() {
                            for b in valid.iter() {
                                if a != b {
                                    out.push(Stmt::BrTable(*c, vec![*a], *b));
                                    out.push(Stmt::BrTable(*c, vec![*a, *b], *a));
                                }
                            }
                        }
                        for d in fnl.iter() {
                            out.push(Stmt::BrTable(*c, vec![*d], *d));
                        }
                    }
                }
                Leaf::Ret => out.push(Stmt::Ret),
                Leaf::Unr => out.push(Stmt::Unr),
                Leaf::Call => out.push(Stmt::Call),
                Leaf::RetCall => out.push(Stmt::RetCall),
                Leaf::RetCallInd => out.push(Stmt::RetCallInd),
                Leaf::Throw => out.push(Stmt::Throw),
                Leaf::GSet => out.push(Stmt::GSet),
                Leaf::Store => out.push(Stmt::Store),
                Leaf::Div => {
                    for c in conds.iter() {
                        out.push(Stmt::Div(*c));
                    }
                }
            }
        }
    }
    if n >= 1 && (ctx.len() < g.max_depth) {
        // compound statements: 1 node for the construct + n-1 for the bodies
        if g.blocks {
            ctx.push(Ctx::Block);
            for b in lists(g, n - 1, ctx, memo) {
                out.push(Stmt::Block(b));
            }
            ctx.pop();
        }
        if g.loops && !in_loop {
            ctx.push(Ctx::Loop);
            for b in lists(g, n - 1, ctx, memo) {
                out.push(Stmt::Loop(b));
            }
            ctx.pop();
        }
        if g.ifs {
            ctx.push(Ctx::If);
            for c in conds.iter() {
                for t in lists(g, n - 1, ctx, memo) {
                    out.push(Stmt::If(*c, t, None));
                }
                if g.else_arms && n >= 2 {
                    // else costs one node
                    for kt in 0..=(n - 2) {
                        let ts = lists(g, kt, ctx, memo);
                        let es = lists(g, n - 2 - kt, ctx, memo);
                        for t in ts.iter() {
                            for e in es.iter() {
                                out.push(Stmt::If(*c, t.clone(), Some(e.clone())));
                            }
                        }
                    }
                }
            }
            ctx.pop();
        }
    }
    out
}

/// all statement lists with 0..=max_nodes nodes, smallest first
pub fn enumerate(g: &Grammar) -> Vec<Vec<Stmt>> {
    let mut memo = std::collections::HashMap::new();
    let mut out = vec![];
    for n in 0..=g.max_nodes {
        let mut ctx = vec![];
        out.extend(lists(g, n, &mut ctx, &mut memo));
    }
    out
}
