//! E4: the entity/handle reference model, the history alphabet, and the lock-step application of
//! every operation to the real `wirm::Module` and to the model.

use crate::view::*;
use serde::{Deserialize, Serialize};
use std::collections::BTreeMap;
use wasmparser::{MemArg, Operator};
use wirm::ir::function::FunctionBuilder;
use wirm::ir::id::{FunctionID, GlobalID, MemoryID};
use wirm::ir::module::module_globals::{Global, GlobalKind, LocalGlobal};
use wirm::ir::types::{InitExpr, InitInstr, Location, Value};
use wirm::iterator::iterator_trait::{IteratingInstrumenter, Iterator as WIterator};
use wirm::iterator::module_iterator::ModuleIterator;
use wirm::opcode::{Inject, Instrumenter, Opcode};
use wirm::{DataSegment, DataSegmentKind, DataType, Module};

#[derive(Clone, Debug, PartialEq, Eq, Hash, Serialize, Deserialize)]
pub enum MExpr {
    GlobalGet(u32),
    RefFunc(u32),
    Other(String),
}

#[derive(Clone, Debug, PartialEq, Eq, Hash, Serialize, Deserialize)]
pub struct MSite {
    pub id: u32,
    pub op: String,
    pub refs: Vec<(Kind, u32)>,
}

#[derive(Clone, Debug, PartialEq, Eq, Hash, Serialize, Deserialize)]
pub struct MFunc {
    pub handle: u32,
    pub live: bool,
    pub import: Option<(String, String)>,
    pub marker: Option<u32>,
    pub sites: Vec<MSite>,
    pub name: Option<String>,
    pub local_names: BTreeMap<u32, String>,
    /// declared in an element segment of the base (ref.func to it is valid in code)
    pub declared: bool,
    /// converted between local and import: whether/which debug name it carries is unspecified
    pub name_any: bool,
}

#[derive(Clone, Debug, PartialEq, Eq, Hash, Serialize, Deserialize)]
pub struct MGlobal {
    pub handle: u32,
    pub live: bool,
    pub import: Option<(String, String)>,
    pub ty: String,
    pub mutable: bool,
    pub init: Vec<MExpr>,
    pub name: Option<String>,
}

#[derive(Clone, Debug, PartialEq, Eq, Hash, Serialize, Deserialize)]
pub struct MMem {
    pub handle: u32,
    pub live: bool,
    pub import: Option<(String, String)>,
    pub min: u64,
}

#[derive(Clone, Debug, PartialEq, Eq, Hash, Serialize, Deserialize)]
pub struct MExport {
    pub name: String,
    pub kind: String,
    /// handle for func/global/memory exports, raw index otherwise
    pub target: u32,
    pub live: bool,
}

#[derive(Clone, Debug, Default, PartialEq, Eq, Hash, Serialize, Deserialize)]
pub struct Model {
    pub funcs: Vec<MFunc>,
    pub globals: Vec<MGlobal>,
    pub mems: Vec<MMem>,
    pub exports: Vec<MExport>,
    pub start: Option<u32>,
    pub elems: Vec<(Vec<MExpr>, Vec<Vec<MExpr>>, bool)>,
    pub data: Vec<(Option<u32>, Vec<MExpr>, Vec<u8>)>,
    pub table_inits: Vec<Option<Vec<MExpr>>>,
    pub next_marker: u32,
    pub next_site: u32,
    pub next_const: u32,
    pub next_name: u32,
    /// an API call returned an ID that is already held for another live entity
    pub duplicate_ids: Vec<String>,
    /// number of `EncodeNow` operations so far (an encoding in the middle of a history)
    pub encodes: u32,
    /// (module, field, type index) of imports that were requested with an explicit type
    pub import_types: Vec<(String, String, u32)>,
    /// the base's types 0 and 1 are both `(func)`
    pub twin_type: bool,
}

fn mx(e: &[RawExpr]) -> Vec<MExpr> {
    e.iter()
        .map(|x| match x {
            RawExpr::GlobalGet(g) => MExpr::GlobalGet(*g),
            RawExpr::RefFunc(f) => MExpr::RefFunc(*f),
            RawExpr::Other(s) => MExpr::Other(s.clone()),
        })
        .collect()
}

impl Model {
    /// The initial model is the decoded base itself: handles are the base's indices.
    pub fn from_base(v: &RawView) -> Model {
        let mut m = Model::default();
        m.twin_type = v.twin_types01;
        let declared: Vec<u32> = v
            .elems
            .iter()
            .flat_map(|e| e.items.iter().flatten())
            .filter_map(|x| if let RawExpr::RefFunc(f) = x { Some(*f) } else { None })
            .collect();
        let fnames = v.names.funcs();
        let lnames = v.names.locals();
        let mut h = 0u32;
        for (mo, n) in v.func_imports.iter() {
            m.funcs.push(MFunc { handle: h, live: true, import: Some((mo.clone(), n.clone())), marker: None, sites: vec![], name: fnames.get(&h).cloned(), local_names: BTreeMap::new(), declared: declared.contains(&h), name_any: false });
            h += 1;
        }
        for f in v.local_funcs.iter() {
            let sites = f.sites.iter().map(|s| MSite { id: s.id, op: s.op.clone(), refs: s.refs.clone() }).collect();
            let ln: BTreeMap<u32, String> = lnames.iter().filter(|((fi, _), _)| *fi == h).map(|((_, l), n)| (*l, n.clone())).collect();
            m.funcs.push(MFunc { handle: h, live: true, import: None, marker: f.marker, sites, name: fnames.get(&h).cloned(), local_names: ln, declared: declared.contains(&h), name_any: false });
            if let Some(k) = f.marker {
                m.next_marker = m.next_marker.max(k + 1);
            }
            for s in f.sites.iter() {
                m.next_site = m.next_site.max(s.id + 1);
            }
            h += 1;
        }
        let gnames = v.names.globals();
        let mut h = 0u32;
        for (i, (mo, n)) in v.global_imports.iter().enumerate() {
            let (ty, mutable) = v.global_import_types.get(i).cloned().unwrap_or_default();
            m.globals.push(MGlobal { handle: h, live: true, import: Some((mo.clone(), n.clone())), ty, mutable, init: vec![], name: gnames.get(&h).cloned() });
            h += 1;
        }
        for g in v.local_globals.iter() {
            m.globals.push(MGlobal { handle: h, live: true, import: None, ty: g.ty.clone(), mutable: g.mutable, init: mx(&g.init), name: gnames.get(&h).cloned() });
            h += 1;
        }
        let mut h = 0u32;
        for (mo, n) in v.mem_imports.iter() {
            m.mems.push(MMem { handle: h, live: true, import: Some((mo.clone(), n.clone())), min: 0 });
            h += 1;
        }
        for mm in v.local_mems.iter() {
            m.mems.push(MMem { handle: h, live: true, import: None, min: *mm });
            h += 1;
        }
        for (name, kind, idx) in v.exports.iter() {
            m.exports.push(MExport { name: name.clone(), kind: kind.to_string(), target: *idx, live: true });
        }
        m.start = v.start;
        for e in v.elems.iter() {
            m.elems.push((mx(&e.offset), e.items.iter().map(|i| mx(i)).collect(), e.index_form));
        }
        for d in v.data.iter() {
            m.data.push((d.mem, mx(&d.offset), d.bytes.clone()));
        }
        for t in v.table_inits.iter() {
            m.table_inits.push(t.as_ref().map(|e| mx(e)));
        }
        m.next_const = 0x100;
        m
    }

    pub fn func(&self, h: u32) -> Option<&MFunc> {
        self.funcs.iter().rev().find(|f| f.handle == h)
    }
    pub fn func_mut(&mut self, h: u32) -> Option<&mut MFunc> {
        self.funcs.iter_mut().rev().find(|f| f.handle == h)
    }
    pub fn global(&self, h: u32) -> Option<&MGlobal> {
        self.globals.iter().rev().find(|f| f.handle == h)
    }
    pub fn global_mut(&mut self, h: u32) -> Option<&mut MGlobal> {
        self.globals.iter_mut().rev().find(|f| f.handle == h)
    }
    pub fn mem(&self, h: u32) -> Option<&MMem> {
        self.mems.iter().rev().find(|f| f.handle == h)
    }
    pub fn mem_mut(&mut self, h: u32) -> Option<&mut MMem> {
        self.mems.iter_mut().rev().find(|f| f.handle == h)
    }
    fn is_live(&self, k: Kind, h: u32) -> bool {
        match k {
            Kind::Func => self.func(h).map(|f| f.live).unwrap_or(false),
            Kind::Global => self.global(h).map(|f| f.live).unwrap_or(false),
            Kind::Mem => self.mem(h).map(|f| f.live).unwrap_or(false),
        }
    }

    /// Is entity (k, h) referenced from any live site of the model?
    pub fn referenced(&self, k: Kind, h: u32) -> bool {
        let in_expr = |e: &Vec<MExpr>| {
            e.iter().any(|x| match x {
                MExpr::GlobalGet(g) => k == Kind::Global && *g == h,
                MExpr::RefFunc(f) => k == Kind::Func && *f == h,
                _ => false,
            })
        };
        self.funcs.iter().filter(|f| f.live && f.import.is_none()).any(|f| f.sites.iter().any(|s| s.refs.contains(&(k, h))))
            || self.exports.iter().any(|e| e.live && e.target == h && e.kind == k.name())
            || (k == Kind::Func && self.start == Some(h))
            || self.elems.iter().any(|(o, items, _)| in_expr(o) || items.iter().any(|i| in_expr(i)))
            || self.globals.iter().any(|g| g.live && in_expr(&g.init))
            || self.data.iter().any(|(m, o, _)| (k == Kind::Mem && *m == Some(h)) || in_expr(o))
            || self.table_inits.iter().any(|t| t.as_ref().map(|e| in_expr(e)).unwrap_or(false))
    }

    fn note_new_handle(&mut self, k: Kind, h: u32) {
        let dup = match k {
            Kind::Func => self.funcs.iter().any(|f| f.live && f.handle == h),
            Kind::Global => self.globals.iter().any(|f| f.live && f.handle == h),
            Kind::Mem => self.mems.iter().any(|f| f.live && f.handle == h),
        };
        if dup {
            self.duplicate_ids.push(k.name().to_string());
        }
    }

    // ---- tokens --------------------------------------------------------------------------
    fn global_shapes(&self) -> BTreeMap<u32, Tok> {
        // local globals in model (= insertion) order; imports by name
        let mut out = BTreeMap::new();
        let locals: Vec<&MGlobal> = self.globals.iter().filter(|g| g.live && g.import.is_none()).collect();
        let shapes: Vec<String> = locals
            .iter()
            .map(|g| {
                let plain = if g.init.len() == 1 {
                    if let MExpr::Other(s) = &g.init[0] {
                        Some(s.clone())
                    } else {
                        None
                    }
                } else {
                    None
                };
                global_shape(&g.ty, g.mutable, &g.init, plain)
            })
            .collect();
        for (g, s) in locals.iter().zip(number_occurrences(shapes)) {
            out.insert(g.handle, s);
        }
        for g in self.globals.iter().filter(|g| g.live) {
            if let Some((m, n)) = &g.import {
                out.insert(g.handle, imp_tok(Kind::Global, m, n));
            }
        }
        out
    }
    fn mem_toks(&self) -> BTreeMap<u32, Tok> {
        let mut out = BTreeMap::new();
        let locals: Vec<&MMem> = self.mems.iter().filter(|g| g.live && g.import.is_none()).collect();
        let shapes: Vec<String> = locals.iter().map(|m| format!("mem:min={}", m.min)).collect();
        for (g, s) in locals.iter().zip(number_occurrences(shapes)) {
            out.insert(g.handle, s);
        }
        for g in self.mems.iter().filter(|g| g.live) {
            if let Some((m, n)) = &g.import {
                out.insert(g.handle, imp_tok(Kind::Mem, m, n));
            }
        }
        out
    }
    fn func_toks(&self) -> BTreeMap<u32, Tok> {
        let mut out = BTreeMap::new();
        for f in self.funcs.iter().filter(|f| f.live) {
            let t = match (&f.import, f.marker) {
                (Some((m, n)), _) => imp_tok(Kind::Func, m, n),
                (None, Some(k)) => format!("fn:{}", k),
                (None, None) => "fn:unmarked".to_string(),
            };
            out.insert(f.handle, t);
        }
        out
    }

    /// The view the encoded module must have, or the list of dangling references.
    pub fn expected(&self) -> (RView, Vec<String>) {
        let ft = self.func_toks();
        let gt = self.global_shapes();
        let mt = self.mem_toks();
        let mut dangling: Vec<String> = vec![];
        let mut tok = |k: Kind, h: u32, site: &str| -> Tok {
            let t = match k {
                Kind::Func => ft.get(&h),
                Kind::Global => gt.get(&h),
                Kind::Mem => mt.get(&h),
            };
            match t {
                Some(t) if self.is_live(k, h) => t.clone(),
                _ => {
                    dangling.push(site.to_string());
                    format!("dead:{}:{}", k.name(), h)
                }
            }
        };
        let mut r = RView::default();
        r.funcs = ft.values().cloned().collect();
        r.globals = gt.values().cloned().collect();
        r.mems = mt.values().cloned().collect();
        for f in self.funcs.iter().filter(|f| f.live && f.import.is_none()) {
            for s in f.sites.iter() {
                let toks = s.refs.iter().map(|(k, h)| (*k, tok(*k, *h, &format!("code.{}", s.op)))).collect();
                r.code_sites.insert(s.id, (s.op.clone(), toks));
            }
        }
        for e in self.exports.iter().filter(|e| e.live) {
            let t = match e.kind.as_str() {
                "func" => tok(Kind::Func, e.target, "export.func"),
                "global" => tok(Kind::Global, e.target, "export.global"),
                "memory" => tok(Kind::Mem, e.target, "export.memory"),
                other => format!("{}:{}", other, e.target),
            };
            r.exports.insert(e.name.clone(), (e.kind.clone(), t));
        }
        if let Some(s) = self.start {
            r.start = Some(tok(Kind::Func, s, "start"));
        }
        let mut tx = |e: &Vec<MExpr>, site: &str, tok: &mut dyn FnMut(Kind, u32, &str) -> Tok| -> Vec<TExpr> {
            e.iter()
                .map(|x| match x {
                    MExpr::GlobalGet(g) => TExpr::GlobalGet(tok(Kind::Global, *g, &format!("{}.global.get", site))),
                    MExpr::RefFunc(f) => TExpr::RefFunc(tok(Kind::Func, *f, &format!("{}.ref.func", site))),
                    MExpr::Other(s) => TExpr::Other(s.clone()),
                })
                .collect()
        };
        for (off, items, idx_form) in self.elems.iter() {
            let o = tx(off, "elem.offset", &mut tok);
            let site = if *idx_form { "elem.items.index" } else { "elem.items.expr" };
            let it = items.iter().map(|i| tx(i, site, &mut tok)).collect();
            r.elems.push((o, it, *idx_form));
        }
        for g in self.globals.iter().filter(|g| g.live && g.import.is_none()) {
            let init = tx(&g.init, "global.init", &mut tok);
            r.global_inits.insert(gt[&g.handle].clone(), init);
        }
        for (mem, off, bytes) in self.data.iter() {
            let m = mem.map(|m| tok(Kind::Mem, m, "data.memory"));
            let o = tx(off, "data.offset", &mut tok);
            r.data.push((m, o, bytes.clone()));
        }
        for t in self.table_inits.iter() {
            r.table_inits.push(t.as_ref().map(|e| tx(e, "table.init", &mut tok)));
        }
        for f in self.funcs.iter().filter(|f| f.live) {
            if let Some(n) = &f.name {
                r.fn_names.insert(ft[&f.handle].clone(), n.clone());
            }
            if f.import.is_none() {
                for (l, n) in f.local_names.iter() {
                    r.local_names.insert((ft[&f.handle].clone(), *l), n.clone());
                }
            }
        }
        for g in self.globals.iter().filter(|g| g.live) {
            if let Some(n) = &g.name {
                r.global_names.insert(gt[&g.handle].clone(), n.clone());
            }
        }
        (r, dangling)
    }
}

// ---------------------------------------------------------------------------------------------
// operations
// ---------------------------------------------------------------------------------------------
#[derive(Clone, Debug, PartialEq, Eq, Hash, Serialize, Deserialize)]
pub enum GInit {
    Const,
    Alias(u32),
    RefFunc(u32),
}

#[derive(Clone, Debug, PartialEq, Eq, Hash, Serialize, Deserialize)]
pub enum Op {
    AddLocalFunc { calls: Option<u32> },
    AddImportFunc,
    DeleteFunc(u32),
    LocalToImport(u32),
    /// like LocalToImport, but the import is requested with type index 1, a structurally identical twin
    /// of the function's own type 0 (bases whose types 0 and 1 are both `(func)`)
    LocalToImportTwin(u32),
    ImportToLocal(u32),
    /// kind: 0 call, 1 return_call, 2 ref.func; api: see `INJECT_APIS`
    InjectFn { owner: u32, kind: u8, target: u32, api: u8 },
    AddExportFunc(u32),
    DeleteExport(String),
    /// api: 0 Module::set_fn_name, 1 imports.set_name/functions.set_local_fn_name
    SetFnName { h: u32, api: u8 },
    /// api: 0 Module::add_global, 1 ModuleIterator::add_global
    AddGlobal { init: GInit, mutable: bool, api: u8 },
    AddImportedGlobal,
    DeleteGlobal(u32),
    ModInit { h: u32, init: GInit },
    InjectGlobal { owner: u32, set: bool, target: u32, api: u8 },
    AddLocalMem,
    AddImportMem,
    DeleteMem(u32),
    /// opclass: see `mem_probe`; `other` is the second memory of two-memory operators (class 8);
    /// api: see `INJECT_APIS`
    InjectMem {
        owner: u32,
        opclass: u8,
        target: u32,
        #[serde(default)]
        other: u32,
        #[serde(default = "one")]
        api: u8,
    },
    AddExportMem(u32),
    AddData { mem: Option<u32> },
    /// `module.encode()` in the middle of the history, output discarded: encoding must not change what
    /// the IDs the caller holds mean, nor what later edits do
    EncodeNow,
    /// `module.pull_side_effects()` in the middle of the history, report discarded: like an encoding, it
    /// must not change what later edits and the final encoding do
    PullNow,
}

fn one() -> u8 {
    1
}

/// The ways injected code reaches a function. 0/1 are the plain "before instruction 2" paths; the
/// others put the same code at the same place through the after and alternate lists and through the
/// function-entry special mode, which the encoder remaps and emits separately. 7/8 attach the code as
/// `after` code (modifier / iterator) to the first ORIGINAL instruction of the function that itself
/// carries a function / global / memory index: an instruction with instrumentation is emitted on
/// another path than one without.
pub const INJECT_APIS: &[&str] = &["iter", "modifier", "modifier-after", "modifier-alt", "iter-alt", "modifier-fn-entry", "iter-after", "modifier-after-ref-op", "iter-after-ref-op"];

impl Op {
    pub fn kind_name(&self) -> String {
        match self {
            Op::AddLocalFunc { calls } => format!("AddLocalFunc{}", if calls.is_some() { "+call" } else { "" }),
            Op::AddImportFunc => "AddImportFunc".into(),
            Op::DeleteFunc(_) => "DeleteFunc".into(),
            Op::LocalToImport(_) => "LocalToImport".into(),
            Op::LocalToImportTwin(_) => "LocalToImport.twin-type".into(),
            Op::ImportToLocal(_) => "ImportToLocal".into(),
            Op::InjectFn { kind, api, .. } => format!("InjectFn.{}.{}", ["call", "return_call", "ref.func"][*kind as usize], INJECT_APIS[*api as usize]),
            Op::AddExportFunc(_) => "AddExportFunc".into(),
            Op::DeleteExport(_) => "DeleteExport".into(),
            Op::SetFnName { api, .. } => format!("SetFnName.{}", api),
            Op::AddGlobal { init, api, .. } => format!(
                "AddGlobal.{}.{}",
                match init {
                    GInit::Const => "const",
                    GInit::Alias(_) => "global.get",
                    GInit::RefFunc(_) => "ref.func",
                },
                ["module", "iter"][*api as usize]
            ),
            Op::AddImportedGlobal => "AddImportedGlobal".into(),
            Op::DeleteGlobal(_) => "DeleteGlobal".into(),
            Op::ModInit { init, .. } => format!(
                "ModInit.{}",
                match init {
                    GInit::Const => "const",
                    GInit::Alias(_) => "global.get",
                    GInit::RefFunc(_) => "ref.func",
                }
            ),
            Op::InjectGlobal { set, api, .. } => format!("InjectGlobal.{}.{}", if *set { "set" } else { "get" }, INJECT_APIS[*api as usize]),
            Op::AddLocalMem => "AddLocalMem".into(),
            Op::AddImportMem => "AddImportMem".into(),
            Op::DeleteMem(_) => "DeleteMem".into(),
            Op::InjectMem { opclass, api, .. } => {
                if *api == 1 {
                    format!("InjectMem.{}", MEM_PROBES[*opclass as usize])
                } else {
                    format!("InjectMem.{}.{}", MEM_PROBES[*opclass as usize], INJECT_APIS[*api as usize])
                }
            }
            Op::AddExportMem(_) => "AddExportMem".into(),
            Op::AddData { mem } => format!("AddData.{}", if mem.is_some() { "active" } else { "passive" }),
            Op::EncodeNow => "EncodeNow".into(),
            Op::PullNow => "PullNow".into(),
        }
    }
}

pub const MEM_PROBES: &[&str] = &["i32.load", "memory.size", "memory.copy", "i32.atomic.rmw.add", "v128.load", "i64.atomic.load", "memory.fill", "i32.store8", "memory.copy.cross"];

fn memarg(mem: u32, align: u8) -> MemArg {
    MemArg { align, max_align: align, offset: 0, memory: mem }
}

/// Self-contained, stack-neutral instruction sequence that references memory `h` once:
/// (operands, the memory instruction, clean-up).
fn mem_probe<'a>(opclass: u8, h: u32, other: u32) -> (Vec<Operator<'a>>, Operator<'a>, Vec<Operator<'a>>) {
    use Operator::*;
    let c = |v: i32| I32Const { value: v };
    match opclass {
        0 => (vec![c(0)], I32Load { memarg: memarg(h, 2) }, vec![Drop]),
        1 => (vec![], MemorySize { mem: h }, vec![Drop]),
        2 => (vec![c(0), c(0), c(0)], MemoryCopy { dst_mem: h, src_mem: h }, vec![]),
        3 => (vec![c(0), c(1)], I32AtomicRmwAdd { memarg: memarg(h, 2) }, vec![Drop]),
        4 => (vec![c(0)], V128Load { memarg: memarg(h, 4) }, vec![Drop]),
        5 => (vec![c(0)], I64AtomicLoad { memarg: memarg(h, 3) }, vec![Drop]),
        6 => (vec![c(0), c(0), c(0)], MemoryFill { mem: h }, vec![]),
        7 => (vec![c(0), c(0)], I32Store8 { memarg: memarg(h, 0) }, vec![]),
        _ => (vec![c(0), c(0), c(0)], MemoryCopy { dst_mem: h, src_mem: other }, vec![]),
    }
}

/// Inject `ops` into function `owner` right after its identity marker (instructions 0,1), through the
/// API path `api` (see `INJECT_APIS`). Every path puts the code at the same place of the encoded
/// function (between the marker and instruction 2) - except the function-entry mode, which puts it in
/// front of the marker; the decoder finds markers and sites wherever they are.
fn inject_before<'a>(module: &mut Module<'a>, owner: u32, api: u8, ops: Vec<Operator<'a>>) {
    let at = |i: usize| Location::Module { func_idx: FunctionID(owner), instr_idx: i };
    let walk_to = |it: &mut ModuleIterator, idx: usize| loop {
        if let (Location::Module { func_idx, instr_idx }, _) = it.curr_loc() {
            if *func_idx == owner && instr_idx == idx {
                break;
            }
        }
        if it.next().is_none() {
            panic!("library: the module iterator never reached function {} instruction {}", owner, idx);
        }
    };
    // the alternate of the marker's `drop` starts with that `drop` - once
    let alt_started = module.functions.get(FunctionID(owner)).unwrap_local().body.instructions[1].instr_flag.alternate.is_some();
    match api {
        0 => {
            let mut it = ModuleIterator::new(module, &vec![]);
            walk_to(&mut it, 2);
            it.before();
            for op in ops {
                it.inject(op);
            }
        }
        1 => {
            let mut fm = module.functions.get_fn_modifier(FunctionID(owner)).expect("library: get_fn_modifier refuses a function the model holds as local");
            fm.before_at(at(2));
            for op in ops {
                fm.inject(op);
            }
        }
        2 => {
            // after the marker's `drop`
            let mut fm = module.functions.get_fn_modifier(FunctionID(owner)).expect("library: get_fn_modifier refuses a function the model holds as local");
            fm.after_at(at(1));
            for op in ops {
                fm.inject(op);
            }
        }
        3 => {
            // replace the marker's `drop` by `drop; ops`
            let mut fm = module.functions.get_fn_modifier(FunctionID(owner)).expect("library: get_fn_modifier refuses a function the model holds as local");
            fm.alternate_at(at(1));
            if !alt_started {
                fm.inject(Operator::Drop);
            }
            for op in ops {
                fm.inject(op);
            }
        }
        4 => {
            let mut it = ModuleIterator::new(module, &vec![]);
            walk_to(&mut it, 1);
            it.alternate();
            if !alt_started {
                it.inject(Operator::Drop);
            }
            for op in ops {
                it.inject(op);
            }
        }
        7 | 8 => {
            // the first original instruction that refers to an entity (`after` code: `before` code would
            // separate it from its site marker)
            let body = &module.functions.get(FunctionID(owner)).unwrap_local().body;
            let ref_idx = (2..body.instructions.len()).find(|i| !op_refs(&body.instructions[*i].op).1.is_empty());
            match ref_idx {
                Some(ri) if api == 7 => {
                    let mut fm = module.functions.get_fn_modifier(FunctionID(owner)).expect("library: get_fn_modifier refuses a function the model holds as local");
                    fm.after_at(at(ri));
                    for op in ops {
                        fm.inject(op);
                    }
                }
                Some(ri) => {
                    let mut it = ModuleIterator::new(module, &vec![]);
                    walk_to(&mut it, ri);
                    it.after();
                    for op in ops {
                        it.inject(op);
                    }
                }
                None => {
                    let mut fm = module.functions.get_fn_modifier(FunctionID(owner)).expect("library: get_fn_modifier refuses a function the model holds as local");
                    fm.before_at(at(2));
                    for op in ops {
                        fm.inject(op);
                    }
                }
            }
        }
        5 => {
            let mut fm = module.functions.get_fn_modifier(FunctionID(owner)).expect("library: get_fn_modifier refuses a function the model holds as local");
            fm.func_entry();
            for op in ops {
                fm.inject(op);
            }
            fm.finish_instr();
        }
        _ => {
            let mut it = ModuleIterator::new(module, &vec![]);
            walk_to(&mut it, 1);
            it.after();
            for op in ops {
                it.inject(op);
            }
        }
    }
}

fn ginit_real(init: &GInit, c: i32) -> (InitExpr, DataType) {
    match init {
        GInit::Const => (InitExpr::new(vec![InitInstr::Value(Value::I32(c))]), DataType::I32),
        GInit::Alias(h) => (InitExpr::new(vec![InitInstr::Global(GlobalID(*h))]), DataType::I32),
        GInit::RefFunc(f) => (InitExpr::new(vec![InitInstr::RefFunc(FunctionID(*f))]), DataType::FuncRefNull),
    }
}
fn ginit_model(init: &GInit, c: i32) -> (Vec<MExpr>, String) {
    match init {
        GInit::Const => (vec![MExpr::Other(format!("I32Const {{ value: {} }}", c))], "i32".into()),
        GInit::Alias(h) => (vec![MExpr::GlobalGet(*h)], "i32".into()),
        GInit::RefFunc(f) => (vec![MExpr::RefFunc(*f)], "funcref".into()),
    }
}

/// Apply one operation to the real module and to the model, in lock step.
pub fn apply<'a>(op: &Op, module: &mut Module<'a>, model: &mut Model) {
    match op {
        Op::AddLocalFunc { calls } => {
            let k = model.next_marker;
            model.next_marker += 1;
            let mut b = FunctionBuilder::new(&[], &[]);
            b.i32_const(FN_MARK + k as i32);
            b.drop();
            let mut sites = vec![];
            if let Some(h) = calls {
                let s = model.next_site;
                model.next_site += 1;
                b.i32_const(SITE_MARK + s as i32);
                b.drop();
                b.call(FunctionID(*h));
                sites.push(MSite { id: s, op: "Call".into(), refs: vec![(Kind::Func, *h)] });
            }
            let id = b.finish_module(module);
            model.note_new_handle(Kind::Func, *id);
            model.funcs.push(MFunc { handle: *id, live: true, import: None, marker: Some(k), sites, name: None, local_names: BTreeMap::new(), declared: false, name_any: false });
        }
        Op::AddImportFunc => {
            let n = model.next_name;
            model.next_name += 1;
            let ty = module.types.add_func_type(&[], &[], None);
            let (fid, _) = module.add_import_func("added".to_string(), format!("f{}", n), ty);
            model.note_new_handle(Kind::Func, *fid);
            // the library records the import's field name as the function's debug name
            model.funcs.push(MFunc { handle: *fid, live: true, import: Some(("added".into(), format!("f{}", n))), marker: None, sites: vec![], name: None, local_names: BTreeMap::new(), declared: false, name_any: false });
        }
        Op::DeleteFunc(h) => {
            module.delete_func(FunctionID(*h));
            if let Some(f) = model.func_mut(*h) {
                f.live = false;
            }
        }
        Op::LocalToImport(h) | Op::LocalToImportTwin(h) => {
            let n = model.next_name;
            model.next_name += 1;
            let mut ty = module.functions.get_type_id(FunctionID(*h));
            if matches!(op, Op::LocalToImportTwin(_)) {
                ty = wirm::ir::id::TypeID(1);
                model.import_types.push(("conv".into(), format!("c{}", n), 1));
            }
            let ok = module.convert_local_fn_to_import(FunctionID(*h), "conv".to_string(), format!("c{}", n), ty);
            assert!(ok, "library: convert_local_fn_to_import refused a function the model holds as local");
            if let Some(f) = model.func_mut(*h) {
                f.import = Some(("conv".into(), format!("c{}", n)));
                f.marker = None;
                f.sites.clear();
                f.local_names.clear();
                f.name = None;
                f.name_any = true;
            }
        }
        Op::ImportToLocal(h) => {
            let (m, n) = model.func(*h).and_then(|f| f.import.clone()).expect("harness: ImportToLocal on an import");
            let imp_id = module.imports.find(m, n).expect("library: imports.find does not find a live import");
            let k = model.next_marker;
            model.next_marker += 1;
            let mut b = FunctionBuilder::new(&[], &[]);
            b.i32_const(FN_MARK + k as i32);
            b.drop();
            b.replace_import_in_module(module, imp_id);
            if let Some(f) = model.func_mut(*h) {
                f.import = None;
                f.marker = Some(k);
                f.sites.clear();
                f.name = None;
                f.name_any = true;
            }
        }
        Op::InjectFn { owner, kind, target, api } => {
            let s = model.next_site;
            model.next_site += 1;
            let mut ops = vec![Operator::I32Const { value: SITE_MARK + s as i32 }, Operator::Drop];
            let name = match kind {
                0 => {
                    ops.push(Operator::Call { function_index: *target });
                    "Call"
                }
                1 => {
                    ops.push(Operator::ReturnCall { function_index: *target });
                    "ReturnCall"
                }
                _ => {
                    ops.push(Operator::RefFunc { function_index: *target });
                    ops.push(Operator::Drop);
                    "RefFunc"
                }
            };
            inject_before(module, *owner, *api, ops);
            if let Some(f) = model.func_mut(*owner) {
                f.sites.push(MSite { id: s, op: name.into(), refs: vec![(Kind::Func, *target)] });
            }
        }
        Op::AddExportFunc(h) => {
            let n = model.next_name;
            model.next_name += 1;
            module.exports.add_export_func(format!("x{}", n), *h, None);
            model.exports.push(MExport { name: format!("x{}", n), kind: "func".into(), target: *h, live: true });
        }
        Op::DeleteExport(name) => {
            let id = module.exports.get_export_id_by_name(name.clone()).expect("library: get_export_id_by_name does not find a live export");
            module.exports.delete(id);
            if let Some(e) = model.exports.iter_mut().find(|e| e.live && &e.name == name) {
                e.live = false;
            }
        }
        Op::SetFnName { h, api } => {
            let n = model.next_name;
            model.next_name += 1;
            let name = format!("nm{}", n);
            let is_import = model.func(*h).map(|f| f.import.is_some()).unwrap_or(false);
            if *api == 0 {
                module.set_fn_name(FunctionID(*h), name.clone());
            } else if is_import {
                let (m, nn) = model.func(*h).and_then(|f| f.import.clone()).unwrap();
                let imp_id = module.imports.find(m, nn).expect("library: imports.find does not find a live import");
                module.imports.set_name(name.clone(), imp_id);
            } else {
                assert!(module.functions.set_local_fn_name(FunctionID(*h), name.clone()));
            }
            if let Some(f) = model.func_mut(*h) {
                f.name = Some(name);
            }
        }
        Op::AddGlobal { init, mutable, api } => {
            let c = G_MARK + model.next_const as i32;
            model.next_const += 1;
            let (expr, ty) = ginit_real(init, c);
            let id = if *api == 0 {
                module.add_global(expr, ty, *mutable, false)
            } else {
                let g = Global::new(
                    GlobalKind::Local(LocalGlobal {
                        global_id: GlobalID(0),
                        ty: wasmparser::GlobalType { content_type: wasmparser::ValType::from(&ty), mutable: *mutable, shared: false },
                        init_expr: expr,
                    }),
                    None,
                );
                let mut it = ModuleIterator::new(module, &vec![]);
                it.add_global(g)
            };
            let (mi, mty) = ginit_model(init, c);
            model.note_new_handle(Kind::Global, *id);
            model.globals.push(MGlobal { handle: *id, live: true, import: None, ty: mty, mutable: *mutable, init: mi, name: None });
        }
        Op::AddImportedGlobal => {
            let n = model.next_name;
            model.next_name += 1;
            let (gid, _) = module.add_imported_global("added".to_string(), format!("g{}", n), DataType::I32, false, false);
            model.note_new_handle(Kind::Global, *gid);
            model.globals.push(MGlobal { handle: *gid, live: true, import: Some(("added".into(), format!("g{}", n))), ty: "i32".into(), mutable: false, init: vec![], name: None });
        }
        Op::DeleteGlobal(h) => {
            module.delete_global(GlobalID(*h));
            if let Some(g) = model.global_mut(*h) {
                g.live = false;
            }
        }
        Op::ModInit { h, init } => {
            let c = G_MARK + model.next_const as i32;
            model.next_const += 1;
            let (expr, _) = ginit_real(init, c);
            module.mod_global_init_expr(GlobalID(*h), expr);
            let (mi, _) = ginit_model(init, c);
            if let Some(g) = model.global_mut(*h) {
                g.init = mi;
            }
        }
        Op::InjectGlobal { owner, set, target, api } => {
            let s = model.next_site;
            model.next_site += 1;
            let mut ops = vec![];
            let name;
            if *set {
                ops.push(Operator::I32Const { value: 0 });
                ops.push(Operator::I32Const { value: SITE_MARK + s as i32 });
                ops.push(Operator::Drop);
                ops.push(Operator::GlobalSet { global_index: *target });
                name = "GlobalSet";
            } else {
                ops.push(Operator::I32Const { value: SITE_MARK + s as i32 });
                ops.push(Operator::Drop);
                ops.push(Operator::GlobalGet { global_index: *target });
                ops.push(Operator::Drop);
                name = "GlobalGet";
            }
            inject_before(module, *owner, *api, ops);
            if let Some(f) = model.func_mut(*owner) {
                f.sites.push(MSite { id: s, op: name.into(), refs: vec![(Kind::Global, *target)] });
            }
        }
        Op::AddLocalMem => {
            let k = model.next_const;
            model.next_const += 1;
            let min = 0x200 + (k as u64 & 0xff);
            let id = module.add_local_memory(wasmparser::MemoryType { memory64: false, shared: false, initial: min, maximum: None, page_size_log2: None });
            model.note_new_handle(Kind::Mem, *id);
            model.mems.push(MMem { handle: *id, live: true, import: None, min });
        }
        Op::AddImportMem => {
            let n = model.next_name;
            model.next_name += 1;
            let (id, _) = module.add_import_memory(
                "added".to_string(),
                format!("m{}", n),
                wasmparser::MemoryType { memory64: false, shared: false, initial: 1, maximum: None, page_size_log2: None },
            );
            model.note_new_handle(Kind::Mem, *id);
            model.mems.push(MMem { handle: *id, live: true, import: Some(("added".into(), format!("m{}", n))), min: 1 });
        }
        Op::DeleteMem(h) => {
            module.delete_memory(MemoryID(*h));
            if let Some(m) = model.mem_mut(*h) {
                m.live = false;
            }
        }
        Op::InjectMem { owner, opclass, target, other, api } => {
            let s = model.next_site;
            model.next_site += 1;
            let (pre, mem_op, post) = mem_probe(*opclass, *target, *other);
            let mut ops = pre;
            ops.push(Operator::I32Const { value: SITE_MARK + s as i32 });
            ops.push(Operator::Drop);
            ops.push(mem_op.clone());
            ops.extend(post);
            inject_before(module, *owner, *api, ops);
            let (name, refs) = op_refs(&mem_op);
            if let Some(f) = model.func_mut(*owner) {
                f.sites.push(MSite { id: s, op: name, refs });
            }
        }
        Op::AddExportMem(h) => {
            let n = model.next_name;
            model.next_name += 1;
            module.exports.add_export_mem(format!("xm{}", n), *h, None);
            model.exports.push(MExport { name: format!("xm{}", n), kind: "memory".into(), target: *h, live: true });
        }
        Op::EncodeNow => {
            let _ = module.encode();
            model.encodes += 1;
        }
        Op::PullNow => {
            let _ = module.pull_side_effects();
            model.encodes += 1;
        }
        Op::AddData { mem } => {
            let k = model.next_const;
            model.next_const += 1;
            let bytes = vec![0xD0, (k & 0xff) as u8, 0x0D];
            match mem {
                Some(h) => {
                    module.add_data(DataSegment {
                        kind: DataSegmentKind::Active { memory_index: *h, offset_expr: InitExpr::new(vec![InitInstr::Value(Value::I32(k as i32))]) },
                        data: bytes.clone(),
                        tag: None,
                    });
                    model.data.push((Some(*h), vec![MExpr::Other(format!("I32Const {{ value: {} }}", k as i32))], bytes));
                }
                None => {
                    module.add_data(DataSegment { kind: DataSegmentKind::Passive, data: bytes.clone(), tag: None });
                    model.data.push((None, vec![], bytes));
                }
            }
        }
    }
}
