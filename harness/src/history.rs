//! E1: explicit-state search over edit histories on the real API. A state is the history reaching
//! it: the `Module` is rebuilt by parsing the base and replaying the real calls in lock step with
//! the reference model; the invariant is evaluated in every state (after every prefix).

use crate::engine::*;
use crate::view::*;
use crate::wasmutil::*;
use crate::world::*;
use rayon::prelude::*;
use serde::{Deserialize, Serialize};
use serde_json::json;
use std::collections::{BTreeMap, BTreeSet, HashSet};
use wasmparser::WasmFeatures;
use wirm::Module;

#[derive(Clone, Debug)]
pub struct Base {
    pub name: String,
    pub bytes: Vec<u8>,
    pub multi_memory: bool,
    pub features: WasmFeatures,
}

impl Base {
    pub fn from_wat(name: &str, wat: &str, multi_memory: bool) -> Base {
        let bytes = wat::parse_str(wat).unwrap_or_else(|e| panic!("base {} does not assemble: {}", name, e));
        let features = features_core();
        if let Err(e) = validate(&bytes, features) {
            panic!("base {} is not valid: {}", name, e);
        }
        Base { name: name.to_string(), bytes, multi_memory, features }
    }
}

#[derive(Clone, Copy, Debug, PartialEq, Eq, PartialOrd, Ord, Hash, Serialize, Deserialize)]
pub enum ClauseKind {
    Func,
    Global,
    Mem,
    Names,
    Content,
    Generic,
    Dangling,
    DupId,
    Reencode,
}

#[derive(Clone, Debug)]
pub struct Clause {
    pub kind: ClauseKind,
    pub sig: String,
    pub detail: String,
}

fn kind_of(k: Kind) -> ClauseKind {
    match k {
        Kind::Func => ClauseKind::Func,
        Kind::Global => ClauseKind::Global,
        Kind::Mem => ClauseKind::Mem,
    }
}

fn multiset_diff(a: &[Tok], b: &[Tok]) -> (Vec<Tok>, Vec<Tok>) {
    let mut missing = vec![];
    let mut rest: Vec<Tok> = b.to_vec();
    for t in a {
        if let Some(p) = rest.iter().position(|x| x == t) {
            rest.remove(p);
        } else {
            missing.push(t.clone());
        }
    }
    (missing, rest)
}

fn is_dead(t: &str) -> bool {
    t.starts_with("dead:")
}

fn cmp_expr(site: &str, exp: &[TExpr], act: &[TExpr], out: &mut Vec<Clause>) {
    if exp.len() != act.len() {
        out.push(Clause { kind: ClauseKind::Content, sig: format!("site {} expression-shape", site), detail: format!("expected {:?} got {:?}", exp, act) });
        return;
    }
    for (e, a) in exp.iter().zip(act.iter()) {
        match (e, a) {
            (TExpr::GlobalGet(x), TExpr::GlobalGet(y)) => {
                if is_dead(x) {
                    out.push(Clause { kind: ClauseKind::Dangling, sig: format!("dangling-emitted {}.global.get", site), detail: format!("refers to deleted {} but was emitted as {}", x, y) });
                } else if x != y {
                    out.push(Clause { kind: ClauseKind::Global, sig: format!("site {}.global.get wrong-entity", site), detail: format!("expected {} got {}", x, y) });
                }
            }
            (TExpr::RefFunc(x), TExpr::RefFunc(y)) => {
                if is_dead(x) {
                    out.push(Clause { kind: ClauseKind::Dangling, sig: format!("dangling-emitted {}.ref.func", site), detail: format!("refers to deleted {} but was emitted as {}", x, y) });
                } else if x != y {
                    out.push(Clause { kind: ClauseKind::Func, sig: format!("site {}.ref.func wrong-entity", site), detail: format!("expected {} got {}", x, y) });
                }
            }
            (TExpr::Other(x), TExpr::Other(y)) => {
                if x != y {
                    out.push(Clause { kind: ClauseKind::Content, sig: format!("site {} constant-differs", site), detail: format!("expected {} got {}", x, y) });
                }
            }
            _ => out.push(Clause { kind: ClauseKind::Content, sig: format!("site {} expression-kind", site), detail: format!("expected {:?} got {:?}", e, a) }),
        }
    }
}

/// Compare the expected with the actual resolved view, one clause per individual mismatch.
pub fn compare(exp: &RView, act: &RView) -> Vec<Clause> {
    let mut out = vec![];
    for (kind, e, a) in [(Kind::Func, &exp.funcs, &act.funcs), (Kind::Global, &exp.globals, &act.globals), (Kind::Mem, &exp.mems, &act.mems)] {
        let (missing, extra) = multiset_diff(e, a);
        for m in missing {
            let class = if m.starts_with("imp:") { "import" } else { "local" };
            out.push(Clause { kind: kind_of(kind), sig: format!("entities {} {} missing", kind.name(), class), detail: format!("{} not in output {:?}", m, a) });
        }
        for x in extra {
            let class = if x.starts_with("imp:") { "import" } else { "local" };
            out.push(Clause { kind: kind_of(kind), sig: format!("entities {} {} extra", kind.name(), class), detail: format!("{} in output but not expected {:?}", x, e) });
        }
    }
    for (id, (op, toks)) in exp.code_sites.iter() {
        let any_dead = toks.iter().any(|(_, t)| is_dead(t));
        match act.code_sites.get(id) {
            None => {
                if !any_dead {
                    let k = toks.first().map(|(k, _)| kind_of(*k)).unwrap_or(ClauseKind::Generic);
                    out.push(Clause { kind: k, sig: format!("site code.{} missing", op), detail: format!("site {} not found in output", id) });
                }
            }
            Some((aop, atoks)) => {
                if aop != op || atoks.len() != toks.len() {
                    out.push(Clause { kind: ClauseKind::Generic, sig: format!("site code.{} operator-changed", op), detail: format!("site {}: expected {} got {}", id, op, aop) });
                    continue;
                }
                for ((k, t), (_, at)) in toks.iter().zip(atoks.iter()) {
                    if is_dead(t) {
                        out.push(Clause { kind: ClauseKind::Dangling, sig: format!("dangling-emitted code.{}", op), detail: format!("site {} refers to deleted {} but was emitted as {}", id, t, at) });
                    } else if t != at {
                        out.push(Clause { kind: kind_of(*k), sig: format!("site code.{} wrong-entity", op), detail: format!("site {}: expected {} got {}", id, t, at) });
                    }
                }
            }
        }
    }
    for (id, (op, toks)) in act.code_sites.iter() {
        if !exp.code_sites.contains_key(id) {
            let k = toks.first().map(|(k, _)| kind_of(*k)).unwrap_or(ClauseKind::Generic);
            out.push(Clause { kind: k, sig: format!("site code.{} extra", op), detail: format!("site {} present in output but its owner should be gone", id) });
        }
    }
    for (name, (kind, t)) in exp.exports.iter() {
        let ck = match kind.as_str() {
            "func" => ClauseKind::Func,
            "global" => ClauseKind::Global,
            "memory" => ClauseKind::Mem,
            _ => ClauseKind::Generic,
        };
        match act.exports.get(name) {
            None => {
                if !is_dead(t) {
                    out.push(Clause { kind: ck, sig: format!("site export.{} missing", kind), detail: format!("export {:?} not in output", name) });
                }
            }
            Some((ak, at)) => {
                if is_dead(t) {
                    out.push(Clause { kind: ClauseKind::Dangling, sig: format!("dangling-emitted export.{}", kind), detail: format!("export {:?} of deleted {} emitted as {}", name, t, at) });
                } else if ak != kind || at != t {
                    out.push(Clause { kind: ck, sig: format!("site export.{} wrong-entity", kind), detail: format!("export {:?}: expected {} got {} {}", name, t, ak, at) });
                }
            }
        }
    }
    for (name, (kind, _)) in act.exports.iter() {
        if !exp.exports.contains_key(name) {
            out.push(Clause { kind: ClauseKind::Content, sig: format!("site export.{} extra", kind), detail: format!("export {:?} should not be in output", name) });
        }
    }
    match (&exp.start, &act.start) {
        (Some(e), Some(a)) => {
            if is_dead(e) {
                out.push(Clause { kind: ClauseKind::Dangling, sig: "dangling-emitted start".into(), detail: format!("start function {} was deleted but start was emitted as {}", e, a) });
            } else if e != a {
                out.push(Clause { kind: ClauseKind::Func, sig: "site start wrong-entity".into(), detail: format!("expected {} got {}", e, a) });
            }
        }
        (Some(e), None) => {
            if !is_dead(e) {
                out.push(Clause { kind: ClauseKind::Func, sig: "site start missing".into(), detail: format!("expected {}", e) });
            }
        }
        (None, Some(a)) => out.push(Clause { kind: ClauseKind::Func, sig: "site start extra".into(), detail: format!("got {}", a) }),
        (None, None) => {}
    }
    if exp.elems.len() != act.elems.len() {
        out.push(Clause { kind: ClauseKind::Content, sig: "elements count".into(), detail: format!("expected {} got {}", exp.elems.len(), act.elems.len()) });
    } else {
        for ((eo, ei, eform), (ao, ai, _)) in exp.elems.iter().zip(act.elems.iter()) {
            cmp_expr("elem.offset", eo, ao, &mut out);
            let site = if *eform { "elem.items.index" } else { "elem.items.expr" };
            if ei.len() != ai.len() {
                out.push(Clause { kind: ClauseKind::Content, sig: format!("site {} item-count", site), detail: format!("expected {} got {}", ei.len(), ai.len()) });
            } else {
                for (x, y) in ei.iter().zip(ai.iter()) {
                    cmp_expr(site, x, y, &mut out);
                }
            }
        }
    }
    for (g, init) in exp.global_inits.iter() {
        if let Some(ainit) = act.global_inits.get(g) {
            cmp_expr("global.init", init, ainit, &mut out);
        }
    }
    if exp.data.len() != act.data.len() {
        out.push(Clause { kind: ClauseKind::Content, sig: "data count".into(), detail: format!("expected {} got {}", exp.data.len(), act.data.len()) });
    } else {
        for ((em, eo, eb), (am, ao, ab)) in exp.data.iter().zip(act.data.iter()) {
            match (em, am) {
                (Some(e), Some(a)) => {
                    if is_dead(e) {
                        out.push(Clause { kind: ClauseKind::Dangling, sig: "dangling-emitted data.memory".into(), detail: format!("{} emitted as {}", e, a) });
                    } else if e != a {
                        out.push(Clause { kind: ClauseKind::Mem, sig: "site data.memory wrong-entity".into(), detail: format!("expected {} got {}", e, a) });
                    }
                }
                (None, None) => {}
                _ => out.push(Clause { kind: ClauseKind::Content, sig: "data segment kind".into(), detail: format!("expected {:?} got {:?}", em, am) }),
            }
            cmp_expr("data.offset", eo, ao, &mut out);
            if eb != ab {
                out.push(Clause { kind: ClauseKind::Content, sig: "data bytes".into(), detail: format!("expected {:?} got {:?}", eb, ab) });
            }
        }
    }
    if exp.table_inits.len() == act.table_inits.len() {
        for (e, a) in exp.table_inits.iter().zip(act.table_inits.iter()) {
            match (e, a) {
                (Some(e), Some(a)) => cmp_expr("table.init", e, a, &mut out),
                (None, None) => {}
                _ => out.push(Clause { kind: ClauseKind::Content, sig: "table init presence".into(), detail: String::new() }),
            }
        }
    }
    out
}

/// Names clauses (C29): a name must sit on the entity it was attached to.
pub fn compare_names(exp: &RView, act: &RView, name_any: &BTreeSet<Tok>) -> Vec<Clause> {
    let mut out = vec![];
    for (t, n) in exp.fn_names.iter() {
        match act.fn_names.get(t) {
            Some(a) if a == n => {}
            Some(a) => out.push(Clause { kind: ClauseKind::Names, sig: "name function wrong-name".into(), detail: format!("{}: expected {:?} got {:?}", t, n, a) }),
            None => {
                // where did the name go?
                let elsewhere: Vec<&Tok> = act.fn_names.iter().filter(|(_, v)| *v == n).map(|(k, _)| k).collect();
                if elsewhere.is_empty() {
                    out.push(Clause { kind: ClauseKind::Names, sig: "name function lost".into(), detail: format!("{}: name {:?} is nowhere in the output", t, n) });
                } else {
                    out.push(Clause { kind: ClauseKind::Names, sig: "name function wrong-entity".into(), detail: format!("name {:?} expected on {} found on {:?}", n, t, elsewhere) });
                }
            }
        }
    }
    for (t, n) in act.fn_names.iter() {
        if !exp.fn_names.contains_key(t) && !name_any.contains(t) {
            out.push(Clause { kind: ClauseKind::Names, sig: "name function on-unnamed-entity".into(), detail: format!("{} carries name {:?} although it was never named", t, n) });
        }
    }
    for (t, n) in exp.global_names.iter() {
        match act.global_names.get(t) {
            Some(a) if a == n => {}
            _ => {
                let elsewhere: Vec<&Tok> = act.global_names.iter().filter(|(_, v)| *v == n).map(|(k, _)| k).collect();
                let sig = if elsewhere.is_empty() { "name global lost" } else { "name global wrong-entity" };
                out.push(Clause { kind: ClauseKind::Names, sig: sig.into(), detail: format!("name {:?} expected on {} found on {:?}", n, t, elsewhere) });
            }
        }
    }
    for (t, n) in act.global_names.iter() {
        if !exp.global_names.contains_key(t) {
            out.push(Clause { kind: ClauseKind::Names, sig: "name global on-unnamed-entity".into(), detail: format!("{} carries name {:?}", t, n) });
        }
    }
    for ((t, l), n) in exp.local_names.iter() {
        match act.local_names.get(&(t.clone(), *l)) {
            Some(a) if a == n => {}
            _ => {
                let elsewhere: Vec<&(Tok, u32)> = act.local_names.iter().filter(|(_, v)| *v == n).map(|(k, _)| k).collect();
                let sig = if elsewhere.is_empty() { "name local lost" } else { "name local wrong-entity" };
                out.push(Clause { kind: ClauseKind::Names, sig: sig.into(), detail: format!("local name {:?} expected on ({}, {}) found on {:?}", n, t, l, elsewhere) });
            }
        }
    }
    for ((t, l), n) in act.local_names.iter() {
        if !exp.local_names.contains_key(&(t.clone(), *l)) {
            out.push(Clause { kind: ClauseKind::Names, sig: "name local on-unnamed-entity".into(), detail: format!("({}, {}) carries local name {:?}", t, l, n) });
        }
    }
    out
}

#[derive(Clone, Debug, Default)]
pub struct Eval {
    pub key: u64,
    pub enabled: Vec<Op>,
    pub clauses: Vec<Clause>,
    pub observed: u64,
    pub dangling: bool,
    pub op_panicked: bool,
    pub output: Option<Vec<u8>>,
}

#[derive(Clone, Copy, Debug)]
pub struct EvalCfg {
    /// number of consecutive encodings (C05 uses 3)
    pub encodes: usize,
    pub names: bool,
}

fn panic_clause(what: &str, p: &PanicInfo) -> Clause {
    Clause { kind: ClauseKind::Generic, sig: format!("panic-{} {}", what, p.site()), detail: format!("{} at {}:{}", p.msg, p.file, p.line) }
}

/// Rebuild the state reached by `hist` from `base` on the real code and judge it.
pub fn eval_history(base: &Base, hist: &[Op], cfg: EvalCfg, enabled: &dyn Fn(&Model) -> Vec<Op>) -> Eval {
    let mut ev = Eval::default();
    let base_view = match decode(&base.bytes) {
        Ok(v) => v,
        Err(e) => panic!("harness: base {} undecodable: {}", base.name, e),
    };
    let mut model = Model::from_base(&base_view);
    let mut module = match catch(|| Module::parse(&base.bytes, base.multi_memory)) {
        Ok(Ok(m)) => m,
        Ok(Err(e)) => {
            ev.clauses.push(Clause { kind: ClauseKind::Generic, sig: "base-parse-error".into(), detail: format!("{}", e) });
            return ev;
        }
        Err(p) => {
            ev.clauses.push(panic_clause("parse", &p));
            return ev;
        }
    };
    for op in hist.iter() {
        // an encoding in the middle of a history that has a dangling reference is expected to fail
        // loudly (C09): the history ends there, nothing is judged
        let dangling_now = matches!(op, Op::EncodeNow | Op::PullNow) && !model.expected().1.is_empty();
        let r = catch(|| apply(op, &mut module, &mut model));
        if r.is_err() && dangling_now {
            ev.op_panicked = true;
            ev.key = hash_of(&(format!("{:?}", hist), 2u8));
            return ev;
        }
        if let Err(p) = r {
            if p.msg.starts_with("harness:") {
                panic!("{}", p.msg);
            }
            if let Some(what) = p.msg.strip_prefix("library: ") {
                // the library answered a query about an entity the reference model holds in a way that
                // contradicts the model (refused a conversion, cannot find a live import / export / function)
                let short: String = what.chars().map(|c| if c.is_ascii_digit() { '#' } else { c }).take(70).collect();
                ev.clauses.push(Clause { kind: ClauseKind::Generic, sig: format!("op-refused {} {}", op.kind_name(), short), detail: format!("{:?}: {}", op, what) });
                ev.op_panicked = true;
                ev.key = hash_of(&(format!("{:?}", hist), 1u8));
                return ev;
            }
            ev.clauses.push(Clause { kind: ClauseKind::Generic, sig: format!("panic-op {} {}", op.kind_name(), p.site()), detail: format!("{:?}: {} at {}:{}", op, p.msg, p.file, p.line) });
            ev.op_panicked = true;
            ev.key = hash_of(&(format!("{:?}", hist), 1u8));
            return ev;
        }
    }
    for d in model.duplicate_ids.iter() {
        ev.clauses.push(Clause { kind: ClauseKind::DupId, sig: format!("duplicate-id {}", d), detail: "an add call returned an ID that another live entity already holds".into() });
    }
    ev.key = hash_of(&(format!("{:?}", module), &model));
    ev.enabled = if model.duplicate_ids.is_empty() { enabled(&model) } else { vec![] };
    let (exp, dangling) = model.expected();
    ev.dangling = !dangling.is_empty();
    let first = catch(|| module.encode());
    let bytes = match first {
        Err(p) => {
            if !ev.dangling {
                ev.clauses.push(panic_clause("encode", &p));
            }
            ev.observed = hash_of(&("panic", p.site()));
            return ev;
        }
        Ok(b) => b,
    };
    ev.observed = hash_of(&bytes);
    // consecutive encodings without edits
    let mut prev = bytes.clone();
    for n in 1..cfg.encodes {
        match catch(|| module.encode()) {
            Err(p) => {
                ev.clauses.push(Clause { kind: ClauseKind::Reencode, sig: format!("reencode panic {}", p.site()), detail: format!("encoding #{} panicked: {} at {}:{}", n + 1, p.msg, p.file, p.line) });
                break;
            }
            Ok(b) => {
                if b != prev {
                    let what = match (decode(&prev), decode(&b)) {
                        (Ok(v1), Ok(v2)) => diff_class(&v1, &v2),
                        _ => "undecodable".to_string(),
                    };
                    ev.clauses.push(Clause { kind: ClauseKind::Reencode, sig: format!("reencode differs {}", what), detail: format!("encoding #{} differs from encoding #{} ({} vs {} bytes)", n + 1, n, b.len(), prev.len()) });
                    break;
                }
                prev = b;
            }
        }
    }
    let act_raw = match decode(&bytes) {
        Ok(v) => v,
        Err(e) => {
            ev.clauses.push(Clause { kind: ClauseKind::Generic, sig: "output-undecodable".into(), detail: e });
            return ev;
        }
    };
    let act = act_raw.resolve();
    let mut clauses = compare(&exp, &act);
    // imports requested with an explicit type index carry exactly that index
    for (m, n, ty) in model.import_types.iter() {
        if let Some(pos) = act_raw.func_imports.iter().position(|(am, an)| am == m && an == n) {
            let got = act_raw.func_import_types.get(pos).copied().unwrap_or(u32::MAX);
            if got != *ty {
                clauses.push(Clause { kind: ClauseKind::Func, sig: "import type-index differs".into(), detail: format!("import {}.{} was requested with type {}, the import section declares type {}", m, n, ty, got) });
            }
        }
    }
    if cfg.names {
        let name_any: BTreeSet<Tok> = {
            let ft = exp.funcs.clone();
            let _ = ft;
            model
                .funcs
                .iter()
                .filter(|f| f.live && f.name_any)
                .map(|f| match (&f.import, f.marker) {
                    (Some((m, n)), _) => imp_tok(Kind::Func, m, n),
                    (None, Some(k)) => format!("fn:{}", k),
                    _ => "fn:unmarked".into(),
                })
                .collect()
        };
        clauses.extend(compare_names(&exp, &act, &name_any));
    }
    if !ev.dangling && !clauses.iter().any(|c| matches!(c.kind, ClauseKind::Func | ClauseKind::Global | ClauseKind::Mem)) {
        if let Err(e) = validate(&bytes, base.features) {
            let msg = match e.find(" (at offset") {
                Some(i) => e[..i].to_string(),
                None => e.clone(),
            };
            let masked: String = msg.chars().map(|c| if c.is_ascii_digit() { '#' } else { c }).take(60).collect();
            clauses.push(Clause { kind: ClauseKind::Generic, sig: format!("invalid-output {}", masked), detail: e });
        }
    }
    ev.clauses.extend(clauses);
    ev.output = Some(bytes);
    ev
}

/// which part of two decodable outputs differs (for the C05 signature)
fn diff_class(a: &RawView, b: &RawView) -> String {
    let mut v = vec![];
    if a.start != b.start {
        v.push("start");
    }
    if a.exports != b.exports {
        v.push("exports");
    }
    if a.import_order != b.import_order {
        v.push("imports");
    }
    let sites = |r: &RawView| -> Vec<(u32, String, Vec<(Kind, u32)>)> { r.local_funcs.iter().flat_map(|f| f.sites.iter().map(|s| (s.id, s.op.clone(), s.refs.clone()))).collect() };
    if sites(a) != sites(b) {
        v.push("code-references");
    }
    let el = |r: &RawView| format!("{:?}", r.elems);
    if el(a) != el(b) {
        v.push("elements");
    }
    let gl = |r: &RawView| format!("{:?}", r.local_globals);
    if gl(a) != gl(b) {
        v.push("global-inits");
    }
    let da = |r: &RawView| format!("{:?}", r.data);
    if da(a) != da(b) {
        v.push("data");
    }
    if a.local_funcs.len() != b.local_funcs.len() || a.func_types != b.func_types {
        v.push("functions");
    }
    if v.is_empty() {
        v.push("other");
    }
    v.join("+")
}

// ---------------------------------------------------------------------------------------------
// the search
// ---------------------------------------------------------------------------------------------
#[derive(Clone, Debug, Serialize, Deserialize)]
pub struct HistCase {
    pub base: String,
    pub history: Vec<Op>,
}

pub struct Search<'a> {
    pub bases: &'a [Base],
    pub depth: usize,
    pub cfg: EvalCfg,
    pub enabled: &'a (dyn Fn(&Model) -> Vec<Op> + Sync),
    /// which clauses this property judges
    pub judge: &'a (dyn Fn(&Clause, &[Op]) -> bool + Sync),
    /// only histories satisfying this are judged (all are explored)
    pub relevant: &'a (dyn Fn(&[Op]) -> bool + Sync),
    pub max_states: usize,
}

fn kinds_multiset(h: &[Op]) -> Vec<String> {
    let mut v: Vec<String> = h.iter().map(|o| o.kind_name()).collect();
    v.sort();
    v
}

fn is_submultiset(a: &[String], b: &[String]) -> bool {
    // a ⊆ b (both sorted)
    let mut j = 0;
    for x in a {
        while j < b.len() && &b[j] < x {
            j += 1;
        }
        if j >= b.len() || &b[j] != x {
            return false;
        }
        j += 1;
    }
    true
}

pub fn run_search(run: &mut Run, s: &Search) {
    let mut states: u64 = 0;
    let mut transitions: u64 = 0;
    let mut evaluated: u64 = 0;
    // clause sig -> list of (kinds multiset, base, history, detail)
    let mut failing: BTreeMap<String, Vec<(Vec<String>, String, Vec<Op>, String)>> = BTreeMap::new();
    let mut classes: HashSet<Vec<String>> = HashSet::new();
    let mut observed: HashSet<u64> = HashSet::new();
    let mut dangling_states = 0u64;
    let mut loud = 0u64;
    for base in s.bases.iter() {
        let mut seen: HashSet<u64> = HashSet::new();
        let mut frontier: Vec<Vec<Op>> = vec![vec![]];
        for depth in 0..=s.depth {
            if frontier.is_empty() {
                break;
            }
            let results: Vec<(Vec<Op>, Result<Eval, PanicInfo>)> = frontier
                .par_iter()
                .map(|h| (h.clone(), catch(|| eval_history(base, h, s.cfg, s.enabled))))
                .collect();
            let mut next: Vec<Vec<Op>> = vec![];
            for (h, r) in results {
                transitions += if h.is_empty() { 0 } else { 1 };
                let ev = match r {
                    Ok(ev) => ev,
                    Err(p) => {
                        run.machinery_error(format!("harness panic on base {} history {:?}: {} at {}:{}", base.name, h, p.msg, p.file, p.line));
                        continue;
                    }
                };
                evaluated += 1;
                observed.insert(ev.observed);
                if ev.dangling {
                    dangling_states += 1;
                    if ev.output.is_none() && !ev.op_panicked {
                        loud += 1;
                    }
                }
                let ks = kinds_multiset(&h);
                if (s.relevant)(&h) {
                    classes.insert(ks.clone());
                    for c in ev.clauses.iter() {
                        if (s.judge)(c, &h) {
                            // minimality is computed per (clause, base): base variants are separate axes
                            failing.entry(format!("{}\u{1}{}", c.sig, base.name)).or_default().push((ks.clone(), base.name.clone(), h.clone(), c.detail.clone()));
                        }
                    }
                }
                if seen.insert(ev.key) {
                    states += 1;
                    if depth < s.depth && !ev.op_panicked {
                        for op in ev.enabled.iter() {
                            let mut h2 = h.clone();
                            h2.push(op.clone());
                            next.push(h2);
                        }
                    }
                }
            }
            if states as usize + next.len() > s.max_states {
                run.cap(format!("base {}: state cap {} reached at depth {} (depth {} fully explored)", base.name, s.max_states, depth + 1, depth));
                break;
            }
            frontier = next;
        }
    }
    // reduce: keep, per clause, the failing histories whose op-kind multiset is minimal
    for (sig, list) in failing.iter() {
        let mut minimal: Vec<&(Vec<String>, String, Vec<Op>, String)> = vec![];
        let mut sets: Vec<&Vec<String>> = list.iter().map(|x| &x.0).collect();
        sets.sort();
        sets.dedup();
        let minimal_sets: Vec<&Vec<String>> = sets.iter().filter(|a| !sets.iter().any(|b| b != *a && is_submultiset(b, a))).cloned().collect();
        for ms in minimal_sets {
            // smallest witness for this set
            let w = list.iter().filter(|x| &x.0 == ms).min_by_key(|x| (x.2.len(), format!("{:?}", x.2))).unwrap();
            minimal.push(w);
        }
        for w in minimal {
            let count = list.iter().filter(|x| is_submultiset(&w.0, &x.0)).count();
            let clause_sig = sig.split('\u{1}').next().unwrap_or(sig);
            let full_sig = format!("{} | after {{{}}} @{}", clause_sig, w.0.join(", "), w.1);
            run.add_mismatch(
                "history",
                json!(HistCase { base: w.1.clone(), history: w.2.clone() }),
                full_sig,
                format!("{} [base {}, history {:?}; {} histories of this run contain these operations and fail this clause]", w.3, w.1, w.2, count),
                count as u64,
            );
        }
    }
    run.add_evaluations("histories (every prefix state judged)", evaluated);
    for o in observed.iter() {
        run.add_observed(*o);
    }
    run.states = Some(run.states.unwrap_or(0) + states);
    run.transitions = Some(run.transitions.unwrap_or(0) + transitions);
    run.traces_validated = Some(run.traces_validated.unwrap_or(0) + evaluated);
    run.add_counter("histories_evaluated", evaluated);
    run.add_counter("histories_with_dangling_reference", dangling_states);
    run.add_counter("dangling_histories_failing_loudly", loud);
    run.add_counter("distinct_encoded_outputs", observed.len() as u64);
    // non-trivial classes = distinct operation multisets among the judged histories
    let mut sorted: Vec<&Vec<String>> = classes.iter().collect();
    sorted.sort();
    for (i, c) in sorted.iter().enumerate() {
        run.add_class("history", &c.join(","));
        if i % (sorted.len() / 4 + 1) == 0 {
            run.add_sample(json!({ "history_class": c }));
        }
    }
}

pub fn replay_history(bases: &[Base], case: &serde_json::Value, cfg: EvalCfg, judge: &dyn Fn(&Clause, &[Op]) -> bool) -> Vec<Mismatch> {
    let c: HistCase = match serde_json::from_value(case.clone()) {
        Ok(c) => c,
        Err(e) => return vec![Mismatch::new("replay-case-unreadable", e.to_string())],
    };
    let base = match bases.iter().find(|b| b.name == c.base) {
        Some(b) => b,
        None => return vec![Mismatch::new("replay-unknown-base", c.base)],
    };
    let ev = eval_history(base, &c.history, cfg, &|_| vec![]);
    ev.clauses.iter().filter(|cl| judge(cl, &c.history)).map(|cl| Mismatch::new(cl.sig.clone(), cl.detail.clone())).collect()
}
