//! E3: independent decoding of an encoded module into a view whose references are resolved to
//! identity tokens that survive renumbering (never uses wirm).

use crate::wasmutil::{decode_names, Names};
use serde::{Deserialize, Serialize};
use std::collections::BTreeMap;
use wasmparser::{ElementItems, ElementKind, ExternalKind, Operator, Parser, Payload, TypeRef};

pub const FN_MARK: i32 = 0x5F00_0000;
pub const SITE_MARK: i32 = 0x5100_0000;
pub const G_MARK: i32 = 0x6000_0000;
pub const MARK_SPAN: i32 = 0x00FF_FFFF;

#[derive(Clone, Copy, Debug, PartialEq, Eq, Hash, PartialOrd, Ord, Serialize, Deserialize)]
pub enum Kind {
    Func,
    Global,
    Mem,
}
impl Kind {
    pub fn name(self) -> &'static str {
        match self {
            Kind::Func => "func",
            Kind::Global => "global",
            Kind::Mem => "memory",
        }
    }
}

#[derive(Clone, Debug, PartialEq, Eq)]
pub enum RawExpr {
    GlobalGet(u32),
    RefFunc(u32),
    Other(String),
}

#[derive(Clone, Debug)]
pub struct RawSite {
    pub id: u32,
    pub op: String,
    pub refs: Vec<(Kind, u32)>,
}

#[derive(Clone, Debug)]
pub struct RawFunc {
    pub type_idx: u32,
    pub marker: Option<u32>,
    pub sites: Vec<RawSite>,
    pub n_ops: usize,
    pub locals: Vec<String>,
}

#[derive(Clone, Debug)]
pub struct RawGlobal {
    pub ty: String,
    pub mutable: bool,
    pub init: Vec<RawExpr>,
}

#[derive(Clone, Debug)]
pub struct RawElem {
    pub kind: &'static str,
    pub offset: Vec<RawExpr>,
    /// one expression list per item (function-index items are a single RefFunc)
    pub items: Vec<Vec<RawExpr>>,
    pub index_form: bool,
}

#[derive(Clone, Debug)]
pub struct RawData {
    pub mem: Option<u32>,
    pub offset: Vec<RawExpr>,
    pub bytes: Vec<u8>,
}

#[derive(Clone, Debug, Default)]
pub struct RawView {
    pub func_imports: Vec<(String, String)>,
    /// declared type index of each imported function, parallel to `func_imports`
    pub func_import_types: Vec<u32>,
    /// types 0 and 1 exist and are both `(func)` (no params, no results)
    pub twin_types01: bool,
    pub global_imports: Vec<(String, String)>,
    /// (content type, mutable) of each imported global, parallel to `global_imports`
    pub global_import_types: Vec<(String, bool)>,
    pub mem_imports: Vec<(String, String)>,
    pub import_order: Vec<(String, String, &'static str)>,
    pub func_types: Vec<u32>,
    pub local_funcs: Vec<RawFunc>,
    pub local_globals: Vec<RawGlobal>,
    pub local_mems: Vec<u64>,
    pub exports: Vec<(String, &'static str, u32)>,
    pub start: Option<u32>,
    pub elems: Vec<RawElem>,
    pub data: Vec<RawData>,
    pub table_inits: Vec<Option<Vec<RawExpr>>>,
    pub names: Names,
}

fn const_expr(e: &wasmparser::ConstExpr) -> Vec<RawExpr> {
    let mut v = vec![];
    let mut r = e.get_operators_reader();
    while let Ok(op) = r.read() {
        match op {
            Operator::End => break,
            Operator::GlobalGet { global_index } => v.push(RawExpr::GlobalGet(global_index)),
            Operator::RefFunc { function_index } => v.push(RawExpr::RefFunc(function_index)),
            other => v.push(RawExpr::Other(format!("{:?}", other))),
        }
    }
    v
}

/// Every index an operator carries into the function / global / memory index spaces, taken
/// mechanically from the operator's `Debug` form (so that no operator can be forgotten).
pub fn op_refs(op: &Operator) -> (String, Vec<(Kind, u32)>) {
    let s = format!("{:?}", op);
    let name: String = s.chars().take_while(|c| c.is_ascii_alphanumeric()).collect();
    let mut refs = vec![];
    let fields: &[(&str, Kind)] = &[
        ("function_index: ", Kind::Func),
        ("global_index: ", Kind::Global),
        ("memory: ", Kind::Mem),
        (" mem: ", Kind::Mem),
        ("src_mem: ", Kind::Mem),
        ("dst_mem: ", Kind::Mem),
    ];
    // order of appearance
    let mut found: Vec<(usize, Kind, u32)> = vec![];
    for (key, kind) in fields {
        let mut from = 0;
        while let Some(i) = s[from..].find(key) {
            let start = from + i + key.len();
            let num: String = s[start..].chars().take_while(|c| c.is_ascii_digit()).collect();
            if let Ok(n) = num.parse::<u32>() {
                found.push((start, *kind, n));
            }
            from = start;
        }
    }
    found.sort();
    found.dedup();
    for (_, k, n) in found {
        refs.push((k, n));
    }
    (name, refs)
}

pub fn decode(bytes: &[u8]) -> Result<RawView, String> {
    let mut v = RawView::default();
    let mut depth = 0;
    for p in Parser::new(0).parse_all(bytes) {
        let p = p.map_err(|e| e.to_string())?;
        match p {
            Payload::Version { .. } => depth += 1,
            Payload::End(_) => depth -= 1,
            _ if depth != 1 => {}
            Payload::TypeSection(r) => {
                let mut flat: Vec<bool> = vec![];
                for rg in r {
                    for st in rg.map_err(|e| e.to_string())?.into_types() {
                        flat.push(matches!(&st.composite_type.inner, wasmparser::CompositeInnerType::Func(f) if f.params().is_empty() && f.results().is_empty()));
                    }
                }
                v.twin_types01 = flat.len() >= 2 && flat[0] && flat[1];
            }
            Payload::ImportSection(r) => {
                for i in r {
                    let i = i.map_err(|e| e.to_string())?;
                    let key = (i.module.to_string(), i.name.to_string());
                    let k = match i.ty {
                        TypeRef::Func(ty_idx) => {
                            v.func_import_types.push(ty_idx);
                            v.func_imports.push(key.clone());
                            "func"
                        }
                        TypeRef::Global(gt) => {
                            v.global_imports.push(key.clone());
                            v.global_import_types.push((format!("{}", gt.content_type), gt.mutable));
                            "global"
                        }
                        TypeRef::Memory(_) => {
                            v.mem_imports.push(key.clone());
                            "memory"
                        }
                        TypeRef::Table(_) => "table",
                        TypeRef::Tag(_) => "tag",
                    };
                    v.import_order.push((key.0, key.1, k));
                }
            }
            Payload::FunctionSection(r) => {
                for t in r {
                    v.func_types.push(t.map_err(|e| e.to_string())?);
                }
            }
            Payload::GlobalSection(r) => {
                for g in r {
                    let g = g.map_err(|e| e.to_string())?;
                    v.local_globals.push(RawGlobal {
                        ty: format!("{}", g.ty.content_type),
                        mutable: g.ty.mutable,
                        init: const_expr(&g.init_expr),
                    });
                }
            }
            Payload::MemorySection(r) => {
                for m in r {
                    v.local_mems.push(m.map_err(|e| e.to_string())?.initial);
                }
            }
            Payload::TableSection(r) => {
                for t in r {
                    let t = t.map_err(|e| e.to_string())?;
                    v.table_inits.push(match t.init {
                        wasmparser::TableInit::RefNull => None,
                        wasmparser::TableInit::Expr(e) => Some(const_expr(&e)),
                    });
                }
            }
            Payload::ExportSection(r) => {
                for e in r {
                    let e = e.map_err(|e| e.to_string())?;
                    let k = match e.kind {
                        ExternalKind::Func => "func",
                        ExternalKind::Global => "global",
                        ExternalKind::Memory => "memory",
                        ExternalKind::Table => "table",
                        ExternalKind::Tag => "tag",
                    };
                    v.exports.push((e.name.to_string(), k, e.index));
                }
            }
            Payload::StartSection { func, .. } => v.start = Some(func),
            Payload::ElementSection(r) => {
                for e in r {
                    let e = e.map_err(|e| e.to_string())?;
                    let (kind, offset) = match e.kind {
                        ElementKind::Passive => ("passive", vec![]),
                        ElementKind::Declared => ("declared", vec![]),
                        ElementKind::Active { offset_expr, .. } => ("active", const_expr(&offset_expr)),
                    };
                    let (items, index_form) = match e.items {
                        ElementItems::Functions(fr) => {
                            let mut it = vec![];
                            for f in fr {
                                it.push(vec![RawExpr::RefFunc(f.map_err(|e| e.to_string())?)]);
                            }
                            (it, true)
                        }
                        ElementItems::Expressions(_, er) => {
                            let mut it = vec![];
                            for x in er {
                                it.push(const_expr(&x.map_err(|e| e.to_string())?));
                            }
                            (it, false)
                        }
                    };
                    v.elems.push(RawElem { kind, offset, items, index_form });
                }
            }
            Payload::DataSection(r) => {
                for d in r {
                    let d = d.map_err(|e| e.to_string())?;
                    match d.kind {
                        wasmparser::DataKind::Passive => v.data.push(RawData { mem: None, offset: vec![], bytes: d.data.to_vec() }),
                        wasmparser::DataKind::Active { memory_index, offset_expr } => v.data.push(RawData {
                            mem: Some(memory_index),
                            offset: const_expr(&offset_expr),
                            bytes: d.data.to_vec(),
                        }),
                    }
                }
            }
            Payload::CodeSectionEntry(body) => {
                let mut locals = vec![];
                for l in body.get_locals_reader().map_err(|e| e.to_string())? {
                    let (n, t) = l.map_err(|e| e.to_string())?;
                    for _ in 0..n {
                        locals.push(format!("{}", t));
                    }
                }
                let mut ops: Vec<Operator> = vec![];
                let mut r = body.get_operators_reader().map_err(|e| e.to_string())?;
                while !r.eof() {
                    ops.push(r.read().map_err(|e| e.to_string())?);
                }
                let mut f = RawFunc { type_idx: 0, marker: None, sites: vec![], n_ops: ops.len(), locals };
                // the identity marker: normally the first two instructions; code injected at function
                // entry may sit in front of it, so the first marker anywhere in the body counts
                for w in ops.windows(2) {
                    if let (Operator::I32Const { value }, Operator::Drop) = (&w[0], &w[1]) {
                        if *value >= FN_MARK && *value <= FN_MARK + MARK_SPAN {
                            f.marker = Some((*value - FN_MARK) as u32);
                            break;
                        }
                    }
                }
                let mut i = 0;
                while i + 2 < ops.len() {
                    if let (Operator::I32Const { value }, Operator::Drop) = (&ops[i], &ops[i + 1]) {
                        if *value >= SITE_MARK && *value <= SITE_MARK + MARK_SPAN {
                            let (name, refs) = op_refs(&ops[i + 2]);
                            f.sites.push(RawSite { id: (*value - SITE_MARK) as u32, op: name, refs });
                            i += 3;
                            continue;
                        }
                    }
                    i += 1;
                }
                v.local_funcs.push(f);
            }
            _ => {}
        }
    }
    for (i, f) in v.local_funcs.iter_mut().enumerate() {
        f.type_idx = v.func_types.get(i).copied().unwrap_or(u32::MAX);
    }
    v.names = decode_names(bytes).unwrap_or_default();
    Ok(v)
}

// ---------------------------------------------------------------------------------------------
// resolved view: every reference is a token
// ---------------------------------------------------------------------------------------------
pub type Tok = String;

#[derive(Clone, Debug, PartialEq, Eq)]
pub enum TExpr {
    GlobalGet(Tok),
    RefFunc(Tok),
    Other(String),
}

#[derive(Clone, Debug, Default, PartialEq, Eq)]
pub struct RView {
    pub funcs: Vec<Tok>,
    pub globals: Vec<Tok>,
    pub mems: Vec<Tok>,
    /// site id -> (operator, referenced tokens)
    pub code_sites: BTreeMap<u32, (String, Vec<(Kind, Tok)>)>,
    pub exports: BTreeMap<String, (String, Tok)>,
    pub start: Option<Tok>,
    pub elems: Vec<(Vec<TExpr>, Vec<Vec<TExpr>>, bool)>,
    /// global token -> init
    pub global_inits: BTreeMap<Tok, Vec<TExpr>>,
    pub data: Vec<(Option<Tok>, Vec<TExpr>, Vec<u8>)>,
    pub table_inits: Vec<Option<Vec<TExpr>>>,
    /// function token -> name, global token -> name, (function token, local idx) -> name
    pub fn_names: BTreeMap<Tok, String>,
    pub global_names: BTreeMap<Tok, String>,
    pub local_names: BTreeMap<(Tok, u32), String>,
}

pub fn imp_tok(kind: Kind, m: &str, n: &str) -> Tok {
    format!("imp:{}:{}.{}", kind.name(), m, n)
}

/// token of a local global that is independent of what its initialiser refers to
pub fn global_shape(ty: &str, mutable: bool, init: &[impl std::fmt::Debug], is_plain_const: Option<String>) -> String {
    let _ = init;
    match is_plain_const {
        Some(c) => format!("glob:{}:{}:{}", ty, if mutable { "mut" } else { "const" }, c),
        None => format!("glob:{}:{}:expr", ty, if mutable { "mut" } else { "const" }),
    }
}

fn plain_const(init: &[RawExpr]) -> Option<String> {
    if init.len() == 1 {
        if let RawExpr::Other(s) = &init[0] {
            return Some(s.clone());
        }
    }
    None
}

/// add "#occurrence" suffixes so that equal shapes stay distinguishable by relative order
pub fn number_occurrences(shapes: Vec<String>) -> Vec<String> {
    let mut seen: BTreeMap<String, usize> = BTreeMap::new();
    shapes
        .into_iter()
        .map(|s| {
            let n = seen.entry(s.clone()).or_insert(0);
            let out = format!("{}#{}", s, *n);
            *n += 1;
            out
        })
        .collect()
}

impl RawView {
    pub fn func_toks(&self) -> Vec<Tok> {
        let mut v: Vec<Tok> = self.func_imports.iter().map(|(m, n)| imp_tok(Kind::Func, m, n)).collect();
        let locals: Vec<String> = self
            .local_funcs
            .iter()
            .map(|f| match f.marker {
                Some(k) => format!("fn:{}", k),
                None => "fn:unmarked".to_string(),
            })
            .collect();
        v.extend(number_occurrences(locals).into_iter().map(|s| s.trim_end_matches("#0").to_string()));
        v
    }
    pub fn global_toks(&self) -> Vec<Tok> {
        let mut v: Vec<Tok> = self.global_imports.iter().map(|(m, n)| imp_tok(Kind::Global, m, n)).collect();
        let shapes: Vec<String> = self.local_globals.iter().map(|g| global_shape(&g.ty, g.mutable, &g.init, plain_const(&g.init))).collect();
        v.extend(number_occurrences(shapes));
        v
    }
    pub fn mem_toks(&self) -> Vec<Tok> {
        let mut v: Vec<Tok> = self.mem_imports.iter().map(|(m, n)| imp_tok(Kind::Mem, m, n)).collect();
        let shapes: Vec<String> = self.local_mems.iter().map(|m| format!("mem:min={}", m)).collect();
        v.extend(number_occurrences(shapes));
        v
    }

    pub fn resolve(&self) -> RView {
        let ft = self.func_toks();
        let gt = self.global_toks();
        let mt = self.mem_toks();
        let tok = |k: Kind, i: u32| -> Tok {
            let v = match k {
                Kind::Func => &ft,
                Kind::Global => &gt,
                Kind::Mem => &mt,
            };
            v.get(i as usize).cloned().unwrap_or_else(|| format!("out-of-range:{}:{}", k.name(), i))
        };
        let tx = |e: &Vec<RawExpr>| -> Vec<TExpr> {
            e.iter()
                .map(|x| match x {
                    RawExpr::GlobalGet(g) => TExpr::GlobalGet(tok(Kind::Global, *g)),
                    RawExpr::RefFunc(f) => TExpr::RefFunc(tok(Kind::Func, *f)),
                    RawExpr::Other(s) => TExpr::Other(s.clone()),
                })
                .collect()
        };
        let mut r = RView::default();
        r.funcs = ft.clone();
        r.globals = gt.clone();
        r.mems = mt.clone();
        for f in self.local_funcs.iter() {
            for s in f.sites.iter() {
                r.code_sites.insert(s.id, (s.op.clone(), s.refs.iter().map(|(k, i)| (*k, tok(*k, *i))).collect()));
            }
        }
        for (name, kind, idx) in self.exports.iter() {
            let t = match *kind {
                "func" => tok(Kind::Func, *idx),
                "global" => tok(Kind::Global, *idx),
                "memory" => tok(Kind::Mem, *idx),
                other => format!("{}:{}", other, idx),
            };
            r.exports.insert(name.clone(), (kind.to_string(), t));
        }
        r.start = self.start.map(|s| tok(Kind::Func, s));
        for e in self.elems.iter() {
            r.elems.push((tx(&e.offset), e.items.iter().map(|i| tx(i)).collect(), e.index_form));
        }
        let nimp = self.global_imports.len();
        for (i, g) in self.local_globals.iter().enumerate() {
            r.global_inits.insert(gt[nimp + i].clone(), tx(&g.init));
        }
        for d in self.data.iter() {
            r.data.push((d.mem.map(|m| tok(Kind::Mem, m)), tx(&d.offset), d.bytes.clone()));
        }
        for t in self.table_inits.iter() {
            r.table_inits.push(t.as_ref().map(|e| tx(e)));
        }
        for (i, n) in self.names.funcs() {
            r.fn_names.insert(tok(Kind::Func, i), n);
        }
        for (i, n) in self.names.globals() {
            r.global_names.insert(tok(Kind::Global, i), n);
        }
        for ((f, l), n) in self.names.locals() {
            r.local_names.insert((tok(Kind::Func, f), l), n);
        }
        r
    }
}
