mod engine;
mod history;
mod interp;
mod nodebridge;
mod prog;
mod opgen;
mod view;
mod world;
mod props;
mod wasmutil;

use engine::*;

fn usage() -> ! {
    eprintln!("usage: orca-mc check <C01..C30> [--tier quick|thorough]\n       orca-mc replay <file>");
    std::process::exit(2)
}

fn dispatch(id: &str, tier: Tier) -> i32 {
    match id {
        "C01" => props::c01::check("C01", tier),
        "C02" => props::c01::check("C02", tier),
        "C04" => props::c04::check(tier),
        "C05" => props::hist2::check_c05(tier),
        "C09" => props::hist2::check_c09(tier),
        "C10" => props::hist2::check_c10(tier),
        "C11" => props::hist2::check_c11(tier),
        "C29" => props::hist2::check_c29(tier),
        "C06" => props::hist::check_c06(tier),
        "C07" => props::hist::check_c07(tier),
        "C08" => props::hist::check_c08(tier),
        "C03" => props::c03::check(tier),
        "C12" => props::c12::check(tier),
        "C13" => props::c13::check(tier),
        "C28" => props::c28::check(tier),
        "C14" => props::c14::check(tier),
        "C16" | "C17" | "C18" | "C19" | "C20" => props::instr::check(match id { "C16" => "C16", "C17" => "C17", "C18" => "C18", "C19" => "C19", _ => "C20" }, tier),
        "C15" => props::lowering::check_c15(tier),
        "C21" => props::lowering::check_c21(tier),
        "C22" => props::lowering::check_c22(tier),
        "C30" => props::c30::check(tier),
        "C23" => props::c23::check(tier),
        "C24" => props::c24::check(tier),
        "C25" => props::c25::check(tier),
        "C26" => props::c26::check(tier),
        "C27" => props::c27::check(tier),
        _ => {
            out(&format!("MACHINERY-ERROR: no check registered for {}", id));
            2
        }
    }
}

fn replay_dispatch(id: &str, family: &str, case: &serde_json::Value) -> Option<Vec<Mismatch>> {
    match id {
        "C01" | "C02" => Some(props::c01::replay(id, case)),
        "C06" | "C07" | "C08" => Some(props::hist::replay(id, case)),
        "C05" if family.starts_with("instrumentation plans") => Some(props::lowering::replay(id, family, case)),
        "C05" | "C09" | "C10" | "C11" | "C29" => Some(props::hist2::replay(id, case)),
        "C15" | "C21" | "C22" => Some(props::lowering::replay(id, family, case)),
        "C16" | "C17" | "C18" | "C19" | "C20" => Some(props::instr::replay(case)),
        "C04" => Some(props::c04::replay(case)),
        "C30" => Some(props::c30::replay(case)),
        "C23" => Some(props::c23::replay(case)),
        "C24" => Some(props::c24::replay(case)),
        "C03" => Some(props::c03::replay(family, case)),
        "C12" => Some(props::c12::replay(family, case)),
        "C13" => Some(props::c13::replay(family, case)),
        "C28" => Some(props::c28::replay(family, case)),
        "C14" => Some(props::c14::replay(family, case)),
        "C25" => Some(props::c25::replay(family, case)),
        "C26" => Some(props::c26::replay(family, case)),
        "C27" => Some(props::c27::replay(family, case)),
        _ => None,
    }
}

fn main() {
    let args: Vec<String> = std::env::args().collect();
    if args.len() < 3 {
        usage();
    }
    hijack_stdout();
    install_panic_hook();
    install_logger();
    if args[1] == "c03-worker" {
        props::c03::worker_main(&args[2..]);
    }
    let threads = std::env::var("VERIF_THREADS").ok().and_then(|s| s.parse().ok()).unwrap_or(16usize);
    rayon::ThreadPoolBuilder::new().num_threads(threads).stack_size(64 << 20).build_global().ok();
    match args[1].as_str() {
        "check" => {
            let id = args[2].to_uppercase();
            let mut tier = match std::env::var("VERIF_TIER").ok().as_deref() {
                Some("thorough") => Tier::Thorough,
                _ => Tier::Quick,
            };
            let mut i = 3;
            while i < args.len() {
                if args[i] == "--tier" && i + 1 < args.len() {
                    tier = if args[i + 1] == "thorough" { Tier::Thorough } else { Tier::Quick };
                    i += 1;
                }
                i += 1;
            }
            let code = match catch(|| dispatch(&id, tier)) {
                Ok(c) => c,
                Err(p) => {
                    out(&format!("MACHINERY-ERROR: harness panic: {} at {}:{}", p.msg, p.file, p.line));
                    2
                }
            };
            std::process::exit(code);
        }
        "replay" => {
            let text = std::fs::read_to_string(&args[2]).unwrap_or_else(|e| {
                out(&format!("cannot read {}: {}", args[2], e));
                std::process::exit(2)
            });
            let v: serde_json::Value = serde_json::from_str(&text).unwrap_or_else(|e| {
                out(&format!("cannot parse {}: {}", args[2], e));
                std::process::exit(2)
            });
            let id = v["property"].as_str().unwrap_or("").to_string();
            let family = v["witness"]["family"].as_str().unwrap_or("").to_string();
            let case = &v["witness"]["case"];
            // replay twice and require identical observations (own every source of nondeterminism)
            let a = replay_dispatch(&id, &family, case);
            let b = replay_dispatch(&id, &family, case);
            match (a, b) {
                (Some(a), Some(b)) => {
                    let fa: Vec<_> = a.iter().map(|m| (m.sig.clone(), m.detail.clone())).collect();
                    let fb: Vec<_> = b.iter().map(|m| (m.sig.clone(), m.detail.clone())).collect();
                    if fa != fb {
                        out("MACHINERY-ERROR: two replays of the same case differ (uncontrolled nondeterminism)");
                        std::process::exit(2);
                    }
                    for m in a.iter() {
                        out(&format!("mismatch [{}] {}", m.sig, m.detail));
                    }
                    if a.is_empty() {
                        out("replay: no mismatch (property holds on this case)");
                        std::process::exit(0);
                    }
                    out(&format!("VIOLATION property={} replay={}", id, args[2]));
                    std::process::exit(1);
                }
                _ => {
                    out(&format!("MACHINERY-ERROR: no replay support for {}", id));
                    std::process::exit(2);
                }
            }
        }
        "rt" => {
            // debugging aid: judge one file with the C01/C02 oracle
            set_verbose_panics(true);
            let bytes = if args[2].ends_with(".wat") { wat::parse_file(&args[2]).expect("wat") } else { std::fs::read(&args[2]).expect("read") };
            let multi = args.get(3).map(|s| s == "multi").unwrap_or(false);
            let j = props::c01::judge(&bytes, multi, false);
            out(&format!("skipped={:?}", j.skipped));
            for m in j.c01.iter() { out(&format!("C01 [{}] {}", m.sig, m.detail)); }
            for m in j.c02.iter() { out(&format!("C02 [{}] {}", m.sig, m.detail)); }
            std::process::exit(0);
        }
        _ => usage(),
    }
}
