//! E5: a small reference interpreter over wasmparser-decoded modules (never uses wirm) with an
//! event stream from which the monitor derives the probe events the properties demand.
//!
//! Supported subset: i32/i64 constants and arithmetic/comparison, locals, globals, one memory
//! (i32 load/store), block/loop/if/else/end with empty, value and function block types,
//! br/br_if/br_table/return/call/return_call, unreachable, throw (uncaught = abort), drop, select,
//! multi-value. Host imports `env.probe(i32)` and `env.mark(i32)` append to the log.
//! The module must validate (the caller checks); unsupported operators are a machinery error.

use wasmparser::{BlockType, Operator, Parser, Payload, TypeRef, ValType};

#[derive(Clone, Copy, Debug, PartialEq, Eq, Hash)]
pub enum Val {
    I32(i32),
    I64(i64),
    F32(u32),
    F64(u64),
    Ref,
}

#[derive(Clone, Debug, PartialEq, Eq, Hash)]
pub enum Trap {
    Unreachable,
    DivByZero,
    IntOverflow,
    OutOfBounds,
    Exception(u32),
    CallDepth,
}

#[derive(Clone, Debug, PartialEq, Eq, Hash)]
pub enum LogEntry {
    Mark(i32),
    Probe(i32),
}

#[derive(Clone, Debug)]
pub enum InterpError {
    Unsupported(String),
    Fuel,
    Malformed(String),
}

#[derive(Clone, Copy, Debug, PartialEq, Eq)]
pub enum ExitHow {
    FallOff,
    Return,
    BranchToFunctionLabel,
    ReturnCall,
}

/// Events produced while executing LOCAL functions (indices are function-index-space ids and
/// instruction indices in the decoded body).
#[derive(Clone, Debug, PartialEq, Eq)]
pub enum Event {
    /// an activation of function `f` starts
    Enter { f: u32 },
    /// `ops[pc]` is about to execute (also `else`/`end` reached sequentially)
    Exec { f: u32, pc: usize },
    /// `ops[pc]` completed and control continues at pc+1 (block/loop/if-taken: the body entry)
    Done { f: u32, pc: usize },
    /// the else-arm at `else_pc` is entered because the `if` condition was false
    ElseEntered { f: u32, if_pc: usize, else_pc: usize },
    /// a branch instruction at `pc` is taken; `target` = opener of the construct whose label is
    /// targeted (None = the function body label); `is_loop` = the label is a loop header
    BranchTaken { f: u32, pc: usize, target: Option<usize>, is_loop: bool },
    /// a conditional branch at `pc` was executed and NOT taken
    BranchNotTaken { f: u32, pc: usize },
    /// an `if` without else-arm whose condition was false: control continues after its `end`
    IfSkipped { f: u32, if_pc: usize },
    /// the activation of `f` ends normally
    Exit { f: u32, pc: usize, how: ExitHow },
    /// ops[pc] is an explicit `unreachable` or `throw` about to execute
    ExplicitTrap { f: u32, pc: usize },
}

#[derive(Clone, Debug)]
pub struct IFunc {
    pub type_idx: u32,
    pub locals: Vec<ValType>,
    pub ops: Vec<Operator<'static>>,
    /// for every block/loop/if: index of its matching end; for `if`: also else (if any)
    pub end_of: Vec<usize>,
    pub else_of: Vec<usize>,
    /// for every else/end: index of its opener
    pub opener_of: Vec<usize>,
}

#[derive(Clone, Debug, Default)]
pub struct IModule {
    pub types: Vec<(Vec<ValType>, Vec<ValType>)>,
    /// type index of every function (imports first)
    pub func_types: Vec<u32>,
    pub func_imports: Vec<(String, String)>,
    pub funcs: Vec<IFunc>,
    pub globals: Vec<Val>,
    pub mem_pages: u32,
    pub exports: Vec<(String, u32)>,
    pub tag_types: Vec<u32>,
    /// table 0 as function indices (only what active function-index element segments put there)
    pub table0: Vec<u32>,
}

const NONE: usize = usize::MAX;

fn control_maps(ops: &[Operator]) -> Result<(Vec<usize>, Vec<usize>, Vec<usize>), InterpError> {
    let n = ops.len();
    let mut end_of = vec![NONE; n];
    let mut else_of = vec![NONE; n];
    let mut opener_of = vec![NONE; n];
    let mut stack: Vec<usize> = vec![];
    for (i, op) in ops.iter().enumerate() {
        match op {
            Operator::Block { .. } | Operator::Loop { .. } | Operator::If { .. } => stack.push(i),
            Operator::Else => {
                let o = *stack.last().ok_or_else(|| InterpError::Malformed("else without if".into()))?;
                else_of[o] = i;
                opener_of[i] = o;
            }
            Operator::End => {
                if let Some(o) = stack.pop() {
                    end_of[o] = i;
                    opener_of[i] = o;
                    if else_of[o] != NONE {
                        end_of[else_of[o]] = i;
                    }
                } else if i != n - 1 {
                    return Err(InterpError::Malformed("unbalanced end".into()));
                }
            }
            Operator::TryTable { .. } | Operator::Try { .. } => return Err(InterpError::Unsupported("try".into())),
            _ => {}
        }
    }
    Ok((end_of, else_of, opener_of))
}

fn leak_ops(body: &wasmparser::FunctionBody) -> Result<Vec<Operator<'static>>, InterpError> {
    // operators that borrow (br_table) must outlive the input: re-read from a leaked copy
    let range = body.range();
    let _ = range;
    let mut out = vec![];
    let mut r = body.get_operators_reader().map_err(|e| InterpError::Malformed(e.to_string()))?;
    while !r.eof() {
        let op = r.read().map_err(|e| InterpError::Malformed(e.to_string()))?;
        out.push(op);
    }
    // SAFETY of lifetimes: the caller passes a leaked (`'static`) byte slice
    Ok(unsafe { std::mem::transmute::<Vec<Operator<'_>>, Vec<Operator<'static>>>(out) })
}

/// Decode a module. `bytes` are copied and leaked (operators borrow from them); modules are tiny
/// and the interpreter caches nothing else.
pub fn load(bytes: &[u8]) -> Result<IModule, InterpError> {
    let leaked: &'static [u8] = Box::leak(bytes.to_vec().into_boxed_slice());
    let mut m = IModule::default();
    let mut local_types: Vec<u32> = vec![];
    for p in Parser::new(0).parse_all(leaked) {
        let p = p.map_err(|e| InterpError::Malformed(e.to_string()))?;
        match p {
            Payload::TypeSection(r) => {
                for rg in r {
                    let rg = rg.map_err(|e| InterpError::Malformed(e.to_string()))?;
                    for st in rg.types() {
                        match &st.composite_type.inner {
                            wasmparser::CompositeInnerType::Func(f) => m.types.push((f.params().to_vec(), f.results().to_vec())),
                            _ => m.types.push((vec![], vec![])),
                        }
                    }
                }
            }
            Payload::ImportSection(r) => {
                for i in r {
                    let i = i.map_err(|e| InterpError::Malformed(e.to_string()))?;
                    match i.ty {
                        TypeRef::Func(t) => {
                            m.func_types.push(t);
                            m.func_imports.push((i.module.to_string(), i.name.to_string()));
                        }
                        TypeRef::Tag(t) => m.tag_types.push(t.func_type_idx),
                        other => return Err(InterpError::Unsupported(format!("import {:?}", other))),
                    }
                }
            }
            Payload::FunctionSection(r) => {
                for t in r {
                    local_types.push(t.map_err(|e| InterpError::Malformed(e.to_string()))?);
                }
            }
            Payload::TagSection(r) => {
                for t in r {
                    m.tag_types.push(t.map_err(|e| InterpError::Malformed(e.to_string()))?.func_type_idx);
                }
            }
            Payload::ElementSection(r) => {
                for e in r {
                    let e = e.map_err(|e| InterpError::Malformed(e.to_string()))?;
                    if let (wasmparser::ElementKind::Active { .. }, wasmparser::ElementItems::Functions(fs)) = (&e.kind, &e.items) {
                        for f in fs.clone() {
                            m.table0.push(f.map_err(|e| InterpError::Malformed(e.to_string()))?);
                        }
                    }
                }
            }
            Payload::MemorySection(r) => {
                for mem in r {
                    m.mem_pages = mem.map_err(|e| InterpError::Malformed(e.to_string()))?.initial as u32;
                }
            }
            Payload::GlobalSection(r) => {
                for g in r {
                    let g = g.map_err(|e| InterpError::Malformed(e.to_string()))?;
                    let mut rd = g.init_expr.get_operators_reader();
                    let v = match rd.read().map_err(|e| InterpError::Malformed(e.to_string()))? {
                        Operator::I32Const { value } => Val::I32(value),
                        Operator::I64Const { value } => Val::I64(value),
                        other => return Err(InterpError::Unsupported(format!("global init {:?}", other))),
                    };
                    m.globals.push(v);
                }
            }
            Payload::ExportSection(r) => {
                for e in r {
                    let e = e.map_err(|e| InterpError::Malformed(e.to_string()))?;
                    if e.kind == wasmparser::ExternalKind::Func {
                        m.exports.push((e.name.to_string(), e.index));
                    }
                }
            }
            Payload::CodeSectionEntry(body) => {
                let mut locals = vec![];
                for l in body.get_locals_reader().map_err(|e| InterpError::Malformed(e.to_string()))? {
                    let (n, t) = l.map_err(|e| InterpError::Malformed(e.to_string()))?;
                    for _ in 0..n {
                        locals.push(t);
                    }
                }
                let ops = leak_ops(&body)?;
                let (end_of, else_of, opener_of) = control_maps(&ops)?;
                m.funcs.push(IFunc { type_idx: 0, locals, ops, end_of, else_of, opener_of });
            }
            _ => {}
        }
    }
    for (i, f) in m.funcs.iter_mut().enumerate() {
        f.type_idx = *local_types.get(i).ok_or_else(|| InterpError::Malformed("code/function mismatch".into()))?;
    }
    m.func_types.extend(local_types);
    Ok(m)
}

#[derive(Clone, Debug)]
pub struct RunOutput {
    pub result: Result<Vec<Val>, Trap>,
    pub log: Vec<LogEntry>,
    pub globals: Vec<Val>,
    pub mem_hash: u64,
    pub steps: u64,
}

struct Label {
    /// opener pc (None = function body)
    opener: Option<usize>,
    is_loop: bool,
    /// operand stack height at entry (below the params of the block)
    height: usize,
    /// number of values a branch to this label carries
    arity: usize,
    /// pc to continue at when branched to
    cont: usize,
}

enum Flow {
    Normal(Vec<Val>),
    Trap(Trap),
    TailCall(u32, Vec<Val>),
}

pub struct Interp<'a> {
    pub m: &'a IModule,
    pub globals: Vec<Val>,
    pub mem: Vec<u8>,
    pub log: Vec<LogEntry>,
    pub fuel: u64,
    pub steps: u64,
    pub events: Option<&'a mut dyn FnMut(&Event, &mut Vec<LogEntry>)>,
}

fn default_val(t: ValType) -> Val {
    match t {
        ValType::I32 => Val::I32(0),
        ValType::I64 => Val::I64(0),
        ValType::F32 => Val::F32(0),
        ValType::F64 => Val::F64(0),
        _ => Val::Ref,
    }
}

impl<'a> Interp<'a> {
    pub fn new(m: &'a IModule, fuel: u64) -> Self {
        Interp { m, globals: m.globals.clone(), mem: vec![0u8; (m.mem_pages as usize).min(1) * 65536], log: vec![], fuel, steps: 0, events: None }
    }

    fn emit(&mut self, e: Event) {
        if let Some(cb) = self.events.as_mut() {
            cb(&e, &mut self.log);
        }
    }

    fn block_sig(&self, bt: &BlockType) -> (usize, usize) {
        match bt {
            BlockType::Empty => (0, 0),
            BlockType::Type(_) => (0, 1),
            BlockType::FuncType(t) => {
                let (p, r) = &self.m.types[*t as usize];
                (p.len(), r.len())
            }
        }
    }

    pub fn run_export(mut self, name: &str, args: &[Val]) -> Result<RunOutput, InterpError> {
        let f = self.m.exports.iter().find(|(n, _)| n == name).map(|(_, i)| *i).ok_or_else(|| InterpError::Malformed(format!("no export {}", name)))?;
        let mut target = f;
        let mut a = args.to_vec();
        let result = loop {
            match self.call(target, a, 0)? {
                Flow::Normal(v) => break Ok(v),
                Flow::Trap(t) => break Err(t),
                Flow::TailCall(f2, a2) => {
                    target = f2;
                    a = a2;
                }
            }
        };
        let mem_hash = crate::engine::hash_of(&self.mem);
        Ok(RunOutput { result, log: self.log, globals: self.globals, mem_hash, steps: self.steps })
    }

    fn call(&mut self, f: u32, args: Vec<Val>, depth: usize) -> Result<Flow, InterpError> {
        if depth > 200 {
            return Ok(Flow::Trap(Trap::CallDepth));
        }
        let nimp = self.m.func_imports.len() as u32;
        if f < nimp {
            let (mo, na) = &self.m.func_imports[f as usize];
            let v = match args.first() {
                Some(Val::I32(v)) => *v,
                _ => 0,
            };
            match (mo.as_str(), na.as_str()) {
                ("env", "probe") => self.log.push(LogEntry::Probe(v)),
                ("env", "mark") => self.log.push(LogEntry::Mark(v)),
                _ => {}
            }
            let (_, results) = &self.m.types[self.m.func_types[f as usize] as usize];
            return Ok(Flow::Normal(results.iter().map(|t| default_val(*t)).collect()));
        }
        let m: &'a IModule = self.m;
        let func = &m.funcs[(f - nimp) as usize];
        let (params, results) = m.types[func.type_idx as usize].clone();
        let mut locals: Vec<Val> = args;
        if locals.len() != params.len() {
            return Err(InterpError::Malformed("argument count".into()));
        }
        locals.extend(func.locals.iter().map(|t| default_val(*t)));
        let ops = &func.ops;
        let mut stack: Vec<Val> = vec![];
        let mut labels: Vec<Label> = vec![Label { opener: None, is_loop: false, height: 0, arity: results.len(), cont: ops.len() }];
        let mut pc = 0usize;
        self.emit(Event::Enter { f });
        macro_rules! pop {
            () => {
                stack.pop().ok_or_else(|| InterpError::Malformed("stack underflow".into()))?
            };
        }
        macro_rules! pop_i32 {
            () => {
                match pop!() {
                    Val::I32(v) => v,
                    other => return Err(InterpError::Malformed(format!("expected i32 got {:?}", other))),
                }
            };
        }
        macro_rules! pop_i64 {
            () => {
                match pop!() {
                    Val::I64(v) => v,
                    other => return Err(InterpError::Malformed(format!("expected i64 got {:?}", other))),
                }
            };
        }
        macro_rules! bin32 {
            ($e:expr) => {{
                let b = pop_i32!();
                let a = pop_i32!();
                let f: fn(i32, i32) -> i32 = $e;
                stack.push(Val::I32(f(a, b)));
            }};
        }
        macro_rules! cmp32 {
            ($e:expr) => {{
                let b = pop_i32!();
                let a = pop_i32!();
                let f: fn(i32, i32) -> bool = $e;
                stack.push(Val::I32(f(a, b) as i32));
            }};
        }
        // performs a branch to relative depth d; returns Some(flow) if the function is left
        macro_rules! branch {
            ($d:expr, $from:expr) => {{
                let d = $d as usize;
                let li = labels.len() - 1 - d;
                let (opener, is_loop, height, arity, cont) = {
                    let l = &labels[li];
                    (l.opener, l.is_loop, l.height, l.arity, l.cont)
                };
                self.emit(Event::BranchTaken { f, pc: $from, target: opener, is_loop });
                let n = stack.len();
                let carried: Vec<Val> = stack[n - arity..].to_vec();
                stack.truncate(height);
                stack.extend(carried);
                if li == 0 {
                    self.emit(Event::Exit { f, pc: $from, how: ExitHow::BranchToFunctionLabel });
                    return Ok(Flow::Normal(stack));
                }
                if is_loop {
                    labels.truncate(li + 1);
                    pc = cont;
                } else {
                    labels.truncate(li);
                    pc = cont;
                }
                continue;
            }};
        }
        loop {
            if pc >= ops.len() {
                return Err(InterpError::Malformed("fell past the end".into()));
            }
            if self.fuel == 0 {
                return Err(InterpError::Fuel);
            }
            self.fuel -= 1;
            self.steps += 1;
            let op = &ops[pc];
            match op {
                Operator::Unreachable | Operator::Throw { .. } => self.emit(Event::ExplicitTrap { f, pc }),
                _ => {}
            }
            self.emit(Event::Exec { f, pc });
            match op {
                Operator::Unreachable => return Ok(Flow::Trap(Trap::Unreachable)),
                Operator::Throw { tag_index } => return Ok(Flow::Trap(Trap::Exception(*tag_index))),
                Operator::Nop => {}
                Operator::Block { blockty } => {
                    let (p, r) = self.block_sig(blockty);
                    labels.push(Label { opener: Some(pc), is_loop: false, height: stack.len() - p, arity: r, cont: func.end_of[pc] + 1 });
                }
                Operator::Loop { blockty } => {
                    let (p, _r) = self.block_sig(blockty);
                    labels.push(Label { opener: Some(pc), is_loop: true, height: stack.len() - p, arity: p, cont: pc + 1 });
                }
                Operator::If { blockty } => {
                    let c = pop_i32!();
                    let (p, r) = self.block_sig(blockty);
                    labels.push(Label { opener: Some(pc), is_loop: false, height: stack.len() - p, arity: r, cont: func.end_of[pc] + 1 });
                    if c == 0 {
                        if func.else_of[pc] != NONE {
                            let e = func.else_of[pc];
                            self.emit(Event::ElseEntered { f, if_pc: pc, else_pc: e });
                            pc = e + 1;
                        } else {
                            // straight to the end: the construct is left without entering an arm
                            self.emit(Event::IfSkipped { f, if_pc: pc });
                            labels.pop();
                            pc = func.end_of[pc] + 1;
                        }
                        continue;
                    }
                }
                Operator::Else => {
                    // reached sequentially from the then-arm: skip the else-arm
                    labels.pop();
                    pc = func.end_of[pc] + 1;
                    continue;
                }
                Operator::End => {
                    if pc == ops.len() - 1 {
                        self.emit(Event::Exit { f, pc, how: ExitHow::FallOff });
                        return Ok(Flow::Normal(stack));
                    }
                    labels.pop();
                }
                Operator::Br { relative_depth } => branch!(*relative_depth, pc),
                Operator::BrIf { relative_depth } => {
                    let c = pop_i32!();
                    if c != 0 {
                        branch!(*relative_depth, pc);
                    } else {
                        self.emit(Event::BranchNotTaken { f, pc });
                    }
                }
                Operator::BrTable { targets } => {
                    let i = pop_i32!() as u32;
                    let ts: Vec<u32> = targets.targets().map(|t| t.unwrap_or(0)).collect();
                    let d = if (i as usize) < ts.len() { ts[i as usize] } else { targets.default() };
                    branch!(d, pc);
                }
                Operator::Return => {
                    let n = stack.len();
                    let vals = stack[n - results.len()..].to_vec();
                    self.emit(Event::Exit { f, pc, how: ExitHow::Return });
                    return Ok(Flow::Normal(vals));
                }
                Operator::Call { function_index } => {
                    let (p, _) = &self.m.types[self.m.func_types[*function_index as usize] as usize];
                    let n = stack.len();
                    let args: Vec<Val> = stack[n - p.len()..].to_vec();
                    stack.truncate(n - p.len());
                    let mut target = *function_index;
                    let mut a = args;
                    loop {
                        match self.call(target, a, depth + 1)? {
                            Flow::Normal(v) => {
                                stack.extend(v);
                                break;
                            }
                            Flow::Trap(t) => return Ok(Flow::Trap(t)),
                            Flow::TailCall(f2, a2) => {
                                target = f2;
                                a = a2;
                            }
                        }
                    }
                }
                Operator::ReturnCallIndirect { .. } => {
                    let idx = pop_i32!();
                    let Some(target) = self.m.table0.get(idx as usize).copied() else {
                        return Ok(Flow::Trap(Trap::OutOfBounds));
                    };
                    let (p, _) = &self.m.types[self.m.func_types[target as usize] as usize];
                    let n = stack.len();
                    let args: Vec<Val> = stack[n - p.len()..].to_vec();
                    self.emit(Event::Exit { f, pc, how: ExitHow::ReturnCall });
                    return Ok(Flow::TailCall(target, args));
                }
                Operator::ReturnCall { function_index } => {
                    let (p, _) = &self.m.types[self.m.func_types[*function_index as usize] as usize];
                    let n = stack.len();
                    let args: Vec<Val> = stack[n - p.len()..].to_vec();
                    self.emit(Event::Exit { f, pc, how: ExitHow::ReturnCall });
                    return Ok(Flow::TailCall(*function_index, args));
                }
                Operator::Drop => {
                    pop!();
                }
                Operator::Select => {
                    let c = pop_i32!();
                    let b = pop!();
                    let a = pop!();
                    stack.push(if c != 0 { a } else { b });
                }
                Operator::LocalGet { local_index } => stack.push(locals[*local_index as usize]),
                Operator::LocalSet { local_index } => {
                    let v = pop!();
                    locals[*local_index as usize] = v;
                }
                Operator::LocalTee { local_index } => {
                    let v = *stack.last().ok_or_else(|| InterpError::Malformed("tee on empty".into()))?;
                    locals[*local_index as usize] = v;
                }
                Operator::GlobalGet { global_index } => stack.push(self.globals[*global_index as usize]),
                Operator::GlobalSet { global_index } => {
                    let v = pop!();
                    self.globals[*global_index as usize] = v;
                }
                Operator::I32Load { memarg } => {
                    let a = pop_i32!() as u32 as u64 + memarg.offset;
                    if a + 4 > self.mem.len() as u64 {
                        return Ok(Flow::Trap(Trap::OutOfBounds));
                    }
                    let a = a as usize;
                    stack.push(Val::I32(i32::from_le_bytes([self.mem[a], self.mem[a + 1], self.mem[a + 2], self.mem[a + 3]])));
                }
                Operator::I32Store { memarg } => {
                    let v = pop_i32!();
                    let a = pop_i32!() as u32 as u64 + memarg.offset;
                    if a + 4 > self.mem.len() as u64 {
                        return Ok(Flow::Trap(Trap::OutOfBounds));
                    }
                    self.mem[a as usize..a as usize + 4].copy_from_slice(&v.to_le_bytes());
                }
                Operator::I32Const { value } => stack.push(Val::I32(*value)),
                Operator::I64Const { value } => stack.push(Val::I64(*value)),
                Operator::I32Eqz => {
                    let a = pop_i32!();
                    stack.push(Val::I32((a == 0) as i32));
                }
                Operator::I32Add => bin32!(|a, b| a.wrapping_add(b)),
                Operator::I32Sub => bin32!(|a, b| a.wrapping_sub(b)),
                Operator::I32Mul => bin32!(|a, b| a.wrapping_mul(b)),
                Operator::I32And => bin32!(|a, b| a & b),
                Operator::I32Or => bin32!(|a, b| a | b),
                Operator::I32Xor => bin32!(|a, b| a ^ b),
                Operator::I32Eq => cmp32!(|a, b| a == b),
                Operator::I32Ne => cmp32!(|a, b| a != b),
                Operator::I32LtS => cmp32!(|a, b| a < b),
                Operator::I32GtS => cmp32!(|a, b| a > b),
                Operator::I32LeS => cmp32!(|a, b| a <= b),
                Operator::I32GeS => cmp32!(|a, b| a >= b),
                Operator::I32LtU => cmp32!(|a, b| (a as u32) < (b as u32)),
                Operator::I32GtU => cmp32!(|a, b| (a as u32) > (b as u32)),
                Operator::I32DivS => {
                    let b = pop_i32!();
                    let a = pop_i32!();
                    if b == 0 {
                        return Ok(Flow::Trap(Trap::DivByZero));
                    }
                    if a == i32::MIN && b == -1 {
                        return Ok(Flow::Trap(Trap::IntOverflow));
                    }
                    stack.push(Val::I32(a.wrapping_div(b)));
                }
                Operator::I32DivU => {
                    let b = pop_i32!() as u32;
                    let a = pop_i32!() as u32;
                    if b == 0 {
                        return Ok(Flow::Trap(Trap::DivByZero));
                    }
                    stack.push(Val::I32((a / b) as i32));
                }
                Operator::I64Add => {
                    let b = pop_i64!();
                    let a = pop_i64!();
                    stack.push(Val::I64(a.wrapping_add(b)));
                }
                Operator::I64ExtendI32S => {
                    let a = pop_i32!();
                    stack.push(Val::I64(a as i64));
                }
                Operator::I32WrapI64 => {
                    let a = pop_i64!();
                    stack.push(Val::I32(a as i32));
                }
                other => return Err(InterpError::Unsupported(format!("{:?}", other))),
            }
            self.emit(Event::Done { f, pc });
            pc += 1;
        }
    }
}
