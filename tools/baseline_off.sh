#!/bin/bash
# Runs the repository's stable baseline (111 tests) with the verification guard OFF
# and checks that every test of the baseline passes. Exit 0 iff all 111 pass.
set -u
cd /repo || exit 2
unset RUSTFLAGS
export CARGO_NET_OFFLINE=true
export CARGO_TARGET_DIR=${BASELINE_TARGET_DIR:-/repo/target}
rm -f "$CARGO_TARGET_DIR/nextest/pb/junit.xml"
cargo nextest run --workspace --no-fail-fast --tool-config-file pb:/verif/tools/nextest.toml \
    --profile pb --test-threads 8 --offline >"${BASELINE_LOG:-/dev/null}" 2>&1
python3 - "$CARGO_TARGET_DIR/nextest/pb/junit.xml" <<'PY'
import sys, json, xml.etree.ElementTree as ET
want = set(json.load(open('/verif/tools/baseline_stable.json')))
try:
    root = ET.parse(sys.argv[1]).getroot()
except Exception as e:
    print("baseline: no junit report:", e); sys.exit(2)
ok = set()
for ts in root.iter('testsuite'):
    suite = ts.get('name')
    for tc in ts.iter('testcase'):
        name = f"{suite}::{tc.get('name')}"
        bad = any(c.tag in ('failure', 'error') for c in tc)
        if not bad:
            ok.add(name)
missing = sorted(want - ok)
print(f"baseline: {len(want & ok)}/{len(want)} stable tests pass (guard off)")
for m in missing: print("  NOT PASSING:", m)
sys.exit(1 if missing else 0)
PY
