#!/usr/bin/env python3
"""Generates harness/src/props/c24_table.rs: the expectation table of C24.
The mapping helper-name -> wasmparser::Operator variant is stated here by rule, independently
of src/opcode.rs (only the helper *names and arities* were read from it). Run by hand when the
helper set changes; the check itself compares the table's key set with the names scraped from
/repo/src/opcode.rs at run time and exits 2 (machinery) if they differ."""
import re
src=open('/repo/src/opcode.rs').read()
body=src[src.index('pub trait Opcode'):]
names=re.findall(r'^\s+fn (\w+)\(', body, re.M)
def camel(s): return ''.join(p.capitalize() for p in s.split('_'))
TY={'i32':'I32','i64':'I64','f32':'F32','f64':'F64'}
SUF={'div_signed':'DivS','div_unsigned':'DivU','rem_signed':'RemS','rem_unsigned':'RemU',
 'shr_signed':'ShrS','shr_unsigned':'ShrU','lt_signed':'LtS','lt_unsigned':'LtU','gt_signed':'GtS','gt_unsigned':'GtU',
 'lte_signed':'LeS','lte_unsigned':'LeU','gte_signed':'GeS','gte_unsigned':'GeU',
 'wrap_i64':'WrapI64','extend_8s':'Extend8S','extend_16s':'Extend16S',
 'trunc_f32s':'TruncF32S','trunc_f32u':'TruncF32U','trunc_f64s':'TruncF64S','trunc_f64u':'TruncF64U',
 'reinterpret_f32':'ReinterpretF32','reinterpret_f64':'ReinterpretF64','reinterpret_i32':'ReinterpretI32','reinterpret_i64':'ReinterpretI64',
 'extend_i32u':'ExtendI32U','extend_i32s':'ExtendI32S',
 'convert_i32s':'ConvertI32S','convert_i32u':'ConvertI32U','convert_i64s':'ConvertI64S','convert_i64u':'ConvertI64U',
 'demote_f64':'DemoteF64','promote_f32':'PromoteF32',
 'load8_s':'Load8S','load8_u':'Load8U','load16_s':'Load16S','load16_u':'Load16U','load32_s':'Load32S','load32_u':'Load32U'}
SIMPLE={'return_stmt':'Return','nop':'Nop','unreachable':'Unreachable','select':'Select','else_stmt':'Else','end':'End','drop':'Drop',
 'ref_is_null':'RefIsNull','ref_eq':'RefEq','ref_as_non_null':'RefAsNonNull','array_len':'ArrayLen',
 'any_convert_extern':'AnyConvertExtern','extern_convert_any':'ExternConvertAny','ref_i31':'RefI31','i31_get_s':'I31GetS','i31_get_u':'I31GetU'}
out=[]
def E(name, call, exp, vals=None):
    out.append((name,call,exp,vals))
for n in names:
    m=re.match(r'^(i32|i64|f32|f64)_(.+)$',n)
    if n in SIMPLE:
        E(n,f'b.{n}();',f'Operator::{SIMPLE[n]}')
    elif n=='call': E(n,'b.call(FunctionID(v as u32));','Operator::Call{function_index:v as u32}','ENT')
    elif n in('br','br_if'): E(n,f'b.{n}(v as u32);',f'Operator::{camel(n)}{{relative_depth:v as u32}}','U32')
    elif n in('local_get','local_set','local_tee'): E(n,f'b.{n}(LocalID(v as u32));',f'Operator::{camel(n)}{{local_index:v as u32}}','U32')
    elif n in('global_get','global_set'): E(n,f'b.{n}(GlobalID(v as u32));',f'Operator::{camel(n)}{{global_index:v as u32}}','ENT')
    elif n in('if_stmt','block','loop_stmt'):
        var={'if_stmt':'If','block':'Block','loop_stmt':'Loop'}[n]
        E(n,f'b.{n}(bt.0);',f'Operator::{var}{{blockty:bt.1}}','BT')
    elif n=='i32_const': E(n,'b.i32_const(v as i32);','Operator::I32Const{value:v as i32}','I32')
    elif n=='i64_const': E(n,'b.i64_const(v as i64);','Operator::I64Const{value:v as i64}','I64')
    elif n=='f32_const': E(n,'b.f32_const(f32::from_bits(v as u32));','Operator::F32Const{value:wasmparser::Ieee32::from(f32::from_bits(v as u32))}','F32')
    elif n=='f64_const': E(n,'b.f64_const(f64::from_bits(v as u64));','Operator::F64Const{value:wasmparser::Ieee64::from(f64::from_bits(v as u64))}','F64')
    elif n=='u32_const': E(n,'b.u32_const(v as u32);','Operator::I32Const{value:(v as u32) as i32}','U32')
    elif n=='u64_const': E(n,'b.u64_const(v as u64);','Operator::I64Const{value:(v as u64) as i64}','U64')
    elif n=='memory_init': E(n,'b.memory_init(v as u32, w as u32);','Operator::MemoryInit{data_index:v as u32, mem:w as u32}','U32xENT')
    elif n=='memory_copy': E(n,'b.memory_copy(v as u32, w as u32);','Operator::MemoryCopy{dst_mem:v as u32, src_mem:w as u32}','ENTxENT')
    elif n in('memory_size','memory_grow','memory_fill','memory_discard'): E(n,f'b.{n}(v as u32);',f'Operator::{camel(n)}{{mem:v as u32}}','ENT')
    elif n=='data_drop': E(n,'b.data_drop(v as u32);','Operator::DataDrop{data_index:v as u32}','U32')
    elif n=='ref_func': E(n,'b.ref_func(v as u32);','Operator::RefFunc{function_index:v as u32}','ENT')
    elif n=='ref_null': E(n,'b.ref_null(ht.0.clone());','Operator::RefNull{hty:ht.1}','HT')
    elif n=='ref_test': E(n,'b.ref_test(ht.0.clone());','Operator::RefTestNonNull{hty:ht.1}','HT')
    elif n=='ref_test_null': E(n,'b.ref_test_null(ht.0.clone());','Operator::RefTestNullable{hty:ht.1}','HT')
    elif n=='ref_cast': E(n,'b.ref_cast(ht.0.clone());','Operator::RefCastNonNull{hty:ht.1}','HT')
    elif n=='ref_cast_null': E(n,'b.ref_cast_null(ht.0.clone());','Operator::RefCastNullable{hty:ht.1}','HT')
    elif n in('struct_new','struct_new_default'): E(n,f'b.{n}(TypeID(v as u32));',f'Operator::{camel(n)}{{struct_type_index:v as u32}}','U32')
    elif n in('struct_get','struct_get_s','struct_get_u','struct_set'): E(n,f'b.{n}(TypeID(v as u32), FieldID(w as u32));',f'Operator::{camel(n)}{{struct_type_index:v as u32, field_index:w as u32}}','U32x2')
    elif n in('array_new','array_new_default','array_get','array_get_s','array_get_u','array_set','array_fill'): E(n,f'b.{n}(TypeID(v as u32));',f'Operator::{camel(n)}{{array_type_index:v as u32}}','U32')
    elif n=='array_new_fixed': E(n,'b.array_new_fixed(TypeID(v as u32), w as u32);','Operator::ArrayNewFixed{array_type_index:v as u32, array_size:w as u32}','U32x2')
    elif n=='array_new_data': E(n,'b.array_new_data(TypeID(v as u32), DataSegmentID(w as u32));','Operator::ArrayNewData{array_type_index:v as u32, array_data_index:w as u32}','U32x2')
    elif n=='array_new_elem': E(n,'b.array_new_elem(TypeID(v as u32), ElementID(w as u32));','Operator::ArrayNewElem{array_type_index:v as u32, array_elem_index:w as u32}','U32x2')
    elif n=='array_copy': E(n,'b.array_copy(TypeID(v as u32), TypeID(w as u32));','Operator::ArrayCopy{array_type_index_dst:v as u32, array_type_index_src:w as u32}','U32x2')
    elif n=='array_init_data': E(n,'b.array_init_data(TypeID(v as u32), DataSegmentID(w as u32));','Operator::ArrayInitData{array_type_index:v as u32, array_data_index:w as u32}','U32x2')
    elif n=='array_init_elem': E(n,'b.array_init_elem(TypeID(v as u32), ElementID(w as u32));','Operator::ArrayInitElem{array_type_index:v as u32, array_elem_index:w as u32}','U32x2')
    elif m:
        ty,op=m.group(1),m.group(2)
        if op in ('load','store','store8','store16','store32') or op.startswith('load'):
            var=TY[ty]+(SUF[op] if op in SUF else camel(op))
            E(n,f'b.{n}(ma);',f'Operator::{var}{{memarg:ma}}','MA')
        else:
            var=TY[ty]+(SUF[op] if op in SUF else camel(op))
            E(n,f'b.{n}();',f'Operator::{var}')
    else:
        raise SystemExit('no rule for helper '+n)
with open('/verif/harness/src/props/c24_table.rs','w') as f:
    f.write('// @generated by tools/gen_c24_table.py -- expectation table for C24 (helper -> operator)\n')
    f.write('pub const HELPER_NAMES: &[&str] = &[\n'+''.join(f'    "{o[0]}",\n' for o in out)+'];\n\n')
    f.write('pub fn run_helper<\'a>(name: &str, b: &mut FunctionBuilder<\'a>, v: i128, w: i128, ma: MemArg, bt: &(BlockType, wasmparser::BlockType), ht: &(HeapType, wasmparser::HeapType)) -> (Operator<\'static>, &\'static str) {\n    let _ = (v, w, ma, bt, ht);\n    match name {\n')
    for n,call,exp,vals in out:
        f.write(f'        "{n}" => {{ {call} ({exp}, "{vals or "NONE"}") }}\n')
    f.write('        _ => panic!("unknown helper {}", name),\n    }\n}\n')
print(len(out),'helpers')
