#!/usr/bin/env python3
"""seed_keep.py <ID> <variant> <needs> <detected_by csv> [<history note>]
Copies a confirmed seeded change from /tmp/mut/<ID>/deliver/<variant> into /verif/seeded/<ID><variant>/."""
import sys, os, shutil, json, glob, subprocess
ID, V, needs, det = sys.argv[1:5]
note = sys.argv[5] if len(sys.argv) > 5 else ""
src = os.environ.get("MUTROOT","/tmp/mut") + f"/{ID}/deliver/{V}"
dst = f"/verif/seeded/{ID}{V}"
os.makedirs(dst, exist_ok=True)
conf = open(f"{src}/confirm.txt").read()
assert "CONFIRMED" in conf and "NOT CONFIRMED" not in conf, conf
shutil.copy(f"{src}/patch_at_head.diff", f"{dst}/patch.diff")
demo = glob.glob(f"{src}/seeded_demo_*.rs")[0]
shutil.copy(demo, dst)
if os.path.exists(f"{src}/notes.md"):
    shutil.copy(f"{src}/notes.md", dst)
head = subprocess.check_output(["git", "-C", "/repo", "rev-parse", "--short", "HEAD"]).decode().strip()
runs = {}
for f in sorted(glob.glob(f"{src}/run_*.log")):
    cid = os.path.basename(f)[4:-4]
    txt = open(f).read()
    v = [l for l in txt.splitlines() if l.startswith("VIOLATION")]
    runs[cid] = {"violations": len(v), "first": v[0] if v else None}
meta = {
    "seeded_id": f"{ID}{V}",
    "property": ID,
    "breaks": open(f"/tmp/mutkit/{ID}.txt").read().splitlines()[0],
    "needs_to_manifest": needs,
    "origin": "fresh sub-agent given only the property text and a scratch worktree of /repo (nothing from /verif)",
    "applies_to_repo_commit": head,
    "what_was_run": [
        f"scratch worktree at /repo HEAD: git apply patch.diff; /tmp/mutkit/baseline.sh (111/111 pinned tests pass with the change); cargo test --offline --test {os.path.basename(demo)[:-3]} FAILS with the change and PASSES without it",
        "git -C /repo apply patch.diff; /verif/check <id> quick for the checks below; git -C /repo checkout -- .",
    ],
    "confirm_log": conf.strip().splitlines(),
    "detected_by": [d for d in det.split(",") if d],
    "last_run_results": runs,
    "note": note,
}
json.dump(meta, open(f"{dst}/meta.json", "w"), indent=1)
print("kept", dst, "detected_by", meta["detected_by"])
