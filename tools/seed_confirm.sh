#!/bin/bash
# usage: seed_confirm.sh <ID> <variant>      (e.g. C08 a)
# Confirms a delivered mutant in its scratch worktree /tmp/mut/<ID> (brought to /repo's current HEAD):
#   patch applies; baseline 111/111 with the patch; demo FAILS with the patch; demo PASSES without it.
# Writes /tmp/mut/<ID>/deliver/<variant>/confirm.txt ; exit 0 iff all confirmed.
set -u
ID=$1; V=$2
WT=${MUTROOT:-/tmp/mut}/$ID; D=$WT/deliver/$V
export CARGO_NET_OFFLINE=true CARGO_TARGET_DIR=$WT/target
unset RUSTFLAGS
cd $WT || exit 2
git checkout -q -- . ; git clean -fdq tests/ 2>/dev/null
git checkout -q --detach main || exit 2
LOG=$D/confirm.txt; : > $LOG
DEMO=$(ls $D/seeded_demo_*.rs | head -1); T=$(basename $DEMO .rs)
if ! git apply --check $D/patch.diff 2>>$LOG; then
  if ! git apply --3way $D/patch.diff 2>>$LOG; then echo "APPLY: FAILED" | tee -a $LOG; git checkout -q -- .; exit 1; fi
  git reset -q; echo "APPLY: ok (3way)" >> $LOG
else git apply $D/patch.diff; echo "APPLY: ok" >> $LOG; fi
git diff > $D/patch_at_head.diff
/tmp/mutkit/baseline.sh $WT >> $LOG 2>&1; B=$?
echo "BASELINE_WITH_PATCH: rc=$B" >> $LOG
cp $DEMO tests/
cargo test --offline --test $T > $D/demo_with.log 2>&1; W=$?
echo "DEMO_WITH_PATCH: rc=$W (want != 0)" >> $LOG
git apply -R $D/patch_at_head.diff
cargo test --offline --test $T > $D/demo_without.log 2>&1; O=$?
echo "DEMO_WITHOUT_PATCH: rc=$O (want 0)" >> $LOG
rm -f tests/$T.rs
git checkout -q -- .
if [ $B -eq 0 ] && [ $W -ne 0 ] && [ $O -eq 0 ] && grep -q "test result: FAILED" $D/demo_with.log; then echo "CONFIRMED" | tee -a $LOG; exit 0; else echo "NOT CONFIRMED" | tee -a $LOG; cat $LOG; exit 1; fi
