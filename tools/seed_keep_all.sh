#!/bin/bash
# usage: MUTROOT=/tmp/mut2 tools/seed_keep_all.sh c d      (variants)
# Copies every confirmed seeded change of $MUTROOT into /verif/seeded/, with the checks that reported it
# (taken from the run_<check>.log files the last seed_run.sh left next to it).
ROOT=${MUTROOT:-/tmp/mut}
for i in $(seq -w 1 30); do
  for v in "$@"; do
    d=$ROOT/C$i/deliver/$v
    [ -f $d/confirm.txt ] || continue
    det=$(for f in $d/run_C*.log; do [ -f "$f" ] || continue; if grep -q "^VIOLATION" $f; then basename $f .log | sed 's/run_//'; fi; done | tr '\n' ',' | sed 's/,$//')
    needs=$(python3 -c "import json,sys; print(json.load(open('/tmp/mutkit/needs_all.json')).get('C$i$v',''))")
    MUTROOT=$ROOT python3 /verif/tools/seed_keep.py C$i $v "$needs" "$det" 2>&1 | tail -1
  done
done
