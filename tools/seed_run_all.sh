#!/bin/bash
LIGHT="C01 C02 C03 C04 C05 C06 C07 C08 C09 C10 C11 C12 C13 C14 C15 C21 C22 C23 C24 C25 C26 C27 C28 C29 C30"
HEAVY="C16 C17 C18 C19 C20"
for m in "$@"; do
  id=${m%/*}; v=${m#*/}
  case $id in C15|C16|C17|C18|C19|C20|C21|C22|C23|C26) L="$LIGHT $HEAVY";; *) L="$LIGHT";; esac
  echo "### $m"
  /verif/tools/seed_run.sh ${MUTROOT:-/tmp/mut}/$id/deliver/$v quick $L 2>&1 | grep -v "rc=0 nviol=0" | cut -c1-230
done
