#!/usr/bin/env python3
"""Writes /verif/MANIFEST.json from the table below (one entry per claimed property)."""
import json, subprocess
ALL=[f"C{i:02d}" for i in range(1,31)]
# id -> (category, technique, level text, level note, design ref)
CHECKS={
 "C24": ("exploration","exhaustive enumeration of the complete helper alphabet x boundary immediates on the real builder, decoded with wasmparser",
         "Every helper method of the injection API (the set is scraped from src/opcode.rs and must equal the expectation table) is called with a bounded, complete immediate domain; the encoded instruction must equal the tabled operator with bit-exact immediates. Complete over the helper alphabet, bounded over immediates.",
         "Trusts wasmparser's decoder and the hand-stated helper->operator table (tools/gen_c24_table.py).","DESIGN.md §2 C24"),
}
PENDING_REASON="check not built yet in this round (planned in DESIGN.md §2); no claim is made"
repo_commits=subprocess.run(["git","-C","/repo","log","--format=%H %s"],capture_output=True,text=True).stdout.splitlines()
hook_commits=[l.split()[0] for l in repo_commits if l.split(' ',1)[1].startswith("verif hook")]
m={
 "version":1,
 "setup_cmd":"cd /verif/harness && CARGO_NET_OFFLINE=true RUSTFLAGS='--cfg thesuhas_orca_verif' CARGO_TARGET_DIR=/verif/target cargo build --release --offline",
 "hooks":{
   "guard":"thesuhas_orca_verif",
   "enable":"RUSTFLAGS='--cfg thesuhas_orca_verif' (set by /verif/check and /verif/harness/.cargo/config.toml); the harness depends on /repo by path, so every check rebuilds the crate from the working tree",
   "baseline_off_cmd":"/verif/tools/baseline_off.sh",
   "source_commits":hook_commits,
   "add_only":True,
 },
 "engines":[
   {"name":"orca-mc","path":"/verif/harness","serves_properties":sorted(CHECKS),
    "kind_free_text":"hand-rolled exhaustive explorer (case-space DFS / history BFS over the real API with reference-model oracles); one Rust binary, 16-way parallel, per-case catch_unwind"}],
 "checks":[],
 "not_applicable":[],
 "notes":"All checks run through /verif/check <id> <tier>; exit 2 = machinery trouble (never a verdict). Known findings: /verif/known_findings.json.",
}
for pid in ALL:
    if pid in CHECKS:
        cat,tech,text,note,ref=CHECKS[pid]
        m["checks"].append({
          "property_id":pid,
          "quick_cmd":f"/verif/check {pid} quick",
          "thorough_cmd":f"/verif/check {pid} thorough",
          "evidence_file":f"/verif/evidence/{pid}.json",
          "replay_cmd_template":"/verif/check --replay {path}",
          "engine":"orca-mc",
          "level_claimed":{"category":cat,"text":text,"design_ref":ref},
          "level_note":note,
          "technique":tech,
        })
    else:
        m["not_applicable"].append({"property_id":pid,"reason":PENDING_REASON})
json.dump(m,open("/verif/MANIFEST.json","w"),indent=1)
print("checks:",len(m["checks"]),"not_applicable:",len(m["not_applicable"]))
