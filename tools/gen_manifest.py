#!/usr/bin/env python3
"""Writes /verif/MANIFEST.json from the table below (one entry per claimed property)."""
import json, subprocess
ALL=[f"C{i:02d}" for i in range(1,31)]
# id -> (category, technique, level text, level note, design ref)
MC="bounded-exhaustive explicit-state search (BFS) over API-call histories on the real wirm::Module, every state rebuilt by replay and judged against an entity/handle reference model"
EX="exhaustive enumeration of a bounded input/plan space on the real code with an independent decoder/validator oracle"
TB_DEC="Trusts wasmparser 0.235 (decoder, validator) and wasmprinter 0.235 as independent oracles; the harness never decodes with wirm."
CHECKS={
 "C01": ("exploration",EX,"Every in-scope operator of the wasmparser operator table x immediate domains, every value type x syntactic position, every subset of <=1 (quick) / <=2 (thorough) section-shape fragments and (thorough) the repository corpus is parsed and re-encoded by the real library; the output must validate. Exhaustive within those families; inputs that do not validate are excluded and counted.",TB_DEC,"DESIGN.md §2 C01"),
 "C02": ("exploration",EX,"Same families as C01; the decoded output (text of all non-custom sections, decoded name maps, ordered custom-section list) must equal the decoded input.",TB_DEC,"DESIGN.md §2 C02"),
 "C03": ("fault_enumeration","exhaustive enumeration of the 1-byte mutation neighbourhood (substitution, deletion, insertion), all prefixes and a small 2-byte neighbourhood of a bounded family of valid binaries, fed to the three real parsers in isolated worker processes","For 338 (quick) / 406 (thorough) seed binaries (core modules for every section/feature shape, components, nesting ladders, repository corpus) every truncation, every single-byte deletion/insertion and every single-byte substitution (9-value alphabet quick, all 255 values thorough; small 2-byte neighbourhood for seeds <= 64 bytes) is parsed by Module::parse (both flag values) and Component::parse; a panic (caught, signature = source function + message) or a dead worker (stack overflow / allocation failure, attributed to the single input) is a violation. 'Any byte string' is decided on exactly this neighbourhood; nothing is claimed outside it.","Workers run with an 8 MiB stack and a 4 GiB address-space limit. Caps (deep ladders and >4 KiB seeds use reduced alphabets) are listed in the evidence.","DESIGN.md §2 C03"),
 "C05": ("model_checking",MC,"Every state of the C06/C07/C08 history spaces (depth 2 quick / 3 thorough) is encoded three times; all encodings must be byte-identical and none may panic. Findings caused by re-applying the ID mapping are listed in known_findings.json per renumbering operation; histories without such an operation must be clean.",TB_DEC+" Instrumentation plans are covered once the plan explorer exists (see notes).","DESIGN.md §2 C05"),
 "C06": ("model_checking",MC,"All histories of length <=2 (quick) / <=3 (thorough) over add local/import function, delete, local->import, import->local, injected call/return_call/ref.func through iterator and modifier, add/delete export, on 9 base modules that separate every reference-site kind; in every state each function reference must designate the entity whose ID the caller holds, the live-entity multiset must match and the output must validate.",TB_DEC+" Identity tokens (import names, marker constants) are the harness's own convention.","DESIGN.md §2 C06"),
 "C07": ("model_checking",MC,"All histories (depth 2/3) over add global (module- and iterator-level, const / global.get initialiser), add imported global, delete, replace initialiser, injected global.get/set on 8 bases (code, global init, data offset, element offset, table init, exports as separate variants).",TB_DEC+" global.atomic.* operators are not yet in the bases (see notes).","DESIGN.md §2 C07"),
 "C08": ("model_checking",MC,"All histories (depth 2/3) over add local/imported memory, delete, injected memory instructions of 8 classes, add memory export, add data, on 4 multi-memory bases; one base contains EVERY operator of the wasmparser table that carries a memory index (taken mechanically from the operator table), each behind a site marker.",TB_DEC,"DESIGN.md §2 C08"),
 "C09": ("model_checking",MC,"The C06-C08 spaces restricted to histories with >=1 deletion, including deletions of referenced entities: no dangling reference -> exactly the deleted entities are gone; dangling -> encoding must fail loudly and never emit an index for the dangling site.",TB_DEC+" Lenient: a start section of a deleted function may be dropped.","DESIGN.md §2 C09"),
 "C10": ("model_checking",MC,"16 bases = every placement of non-function imports around 3 function imports; all orders and subsets of replace_import_in_module (ImportsID from imports.find) with <=1 other edit, depth 3/4.",TB_DEC,"DESIGN.md §2 C10"),
 "C11": ("model_checking",MC,"All orders and subsets of convert_local_fn_to_import interleaved with <=2 import additions, depth 3/5, on 7 bases with every reference-site kind.",TB_DEC,"DESIGN.md §2 C11"),
 "C12": ("model_checking","bounded-exhaustive enumeration of builder histories (signature x locals x body x surrounding edits) on the real FunctionBuilder, decoded with wasmparser","Every combination within the stated deviation bounds of signature, local list, stack-neutral body, name and one edit before/after on 4 bases; the built function is located by an identity token and must have exactly the requested type, locals, instructions + one end, name; the returned ID is checked through an export.",TB_DEC,"DESIGN.md §2 C12"),
 "C13": ("model_checking","bounded-exhaustive enumeration of type-API histories on the real ModuleTypes, decoded with wasmparser","All histories of length <=3 (quick) / <=4 (thorough) over 22+ type descriptors (func/array/struct, packed and ref fields, supertypes, finality) on 5 bases incl. explicit rec groups and duplicate types: returned index designates exactly the requested type, equal requests dedupe, existing types are an unchanged prefix.",TB_DEC+" Hash-order dependence of deduplication is C04's.","DESIGN.md §2 C13"),
 "C14": ("model_checking","bounded-exhaustive enumeration of add_local sequences through all six local-adding APIs, decoded with wasmparser","All sequences of length <=3 (quick) / <=4 (thorough) over 10 value types through FunctionBuilder, FunctionModifier::add_local/add_locals, ModuleIterator, ComponentIterator and LocalFunction::add_local on functions with 0-2 params x 6 local-declaration shapes x position in the module: returned index = params + declared locals, encoded locals = old ++ requested, nothing else changes.",TB_DEC,"DESIGN.md §2 C14"),
 "C24": ("exploration","exhaustive enumeration of the complete helper alphabet x boundary immediates on the real builder, decoded with wasmparser",
         "Every helper method of the injection API (the set is scraped from src/opcode.rs and must equal the expectation table) is called with a bounded, complete immediate domain; the encoded instruction must equal the tabled operator with bit-exact immediates. Complete over the helper alphabet, bounded over immediates.",
         "Trusts wasmparser's decoder and the hand-stated helper->operator table (tools/gen_c24_table.py).","DESIGN.md §2 C24"),
 "C25": ("exploration",EX,"Modules with 0-2 function imports x 0-3 (thorough 0-5) local functions x body shapes x EVERY skip list (all subsets incl. imports and unknown ids; thorough also orders/duplicates): the visit sequence (location, end flag, operator) until next() returns None, and again after reset() from every prefix, must equal an iterator model over the wasmparser-decoded code section; modules with nothing to visit must not panic.",TB_DEC,"DESIGN.md §2 C25"),
 "C26": ("exploration",EX,"Components of 1-3 generated modules (some nested) x every skip map: ComponentIterator's visit sequence must equal the concatenation of the model's per-module sequences, before and after reset; every plan of <=1 (quick) / <=2 (thorough) before/after/alternate probes applied through ComponentIterator and through per-module ModuleIterators must give byte-identical core modules.",TB_DEC,"DESIGN.md §2 C26"),
 "C27": ("exploration",EX,"All ordered nesting trees (<=6 / <=9 nodes, depth <=4), all section-atom sequences (<=4 / <=5 of 31 atoms, both section framings, named/unnamed), split interleavings, 48 component type forms x 4 positions, 59 canonical-function forms and (thorough) the repository's component corpus: parse, encode, validate, equal text, per-level section skeleton, custom sections and component names.",TB_DEC+" Inputs needing async/extension features are validated with the extension feature set and classed separately.","DESIGN.md §2 C27"),
 "C28": ("model_checking","bounded-exhaustive enumeration of custom-section placements x edit histories on the real API against a list model","<=2 (quick) / <=3 (thorough) custom sections over 5 names x 3 payloads at every position among the 13 standard sections, x all edit sequences of length <=2 / <=3 (add, delete, modify): decoded custom-section list equals the list model and the rest of the module's text is unchanged.",TB_DEC,"DESIGN.md §2 C28"),
 "C29": ("model_checking",MC,"All histories (depth 2/3) over index-shifting edits and naming calls on 2 bases with complete name sections; every function/local/global name must sit on the token it was attached to. Local and global name maps are known findings (replayed verbatim).",TB_DEC,"DESIGN.md §2 C29"),
}
PENDING_REASON="check not built yet in this round (planned in DESIGN.md §2); no claim is made"
repo_commits=subprocess.run(["git","-C","/repo","log","--format=%H %s"],capture_output=True,text=True).stdout.splitlines()
hook_commits=[l.split()[0] for l in repo_commits if l.split(' ',1)[1].startswith("verif hook")]
m={
 "version":1,
 "setup_cmd":"cd /verif/harness && CARGO_NET_OFFLINE=true RUSTFLAGS='--cfg thesuhas_orca_verif' CARGO_TARGET_DIR=/verif/target cargo build --release --offline",
 "hooks":{
   "guard":"thesuhas_orca_verif",
   "enable":"RUSTFLAGS='--cfg thesuhas_orca_verif' (set by /verif/check and /verif/harness/.cargo/config.toml); the harness depends on /repo by path, so every check rebuilds the crate from the working tree",
   "baseline_off_cmd":"/verif/tools/baseline_off.sh",
   "source_commits":hook_commits,
   "add_only":True,
 },
 "engines":[
   {"name":"orca-mc","path":"/verif/harness","serves_properties":sorted(CHECKS),
    "kind_free_text":"hand-rolled exhaustive explorer (case-space DFS / history BFS over the real API with reference-model oracles); one Rust binary, 16-way parallel, per-case catch_unwind"}],
 "checks":[],
 "not_applicable":[],
 "notes":"All checks run through /verif/check <id> <tier>; exit 2 = machinery trouble (never a verdict). Known findings: /verif/known_findings.json.",
}
for pid in ALL:
    if pid in CHECKS:
        cat,tech,text,note,ref=CHECKS[pid]
        m["checks"].append({
          "property_id":pid,
          "quick_cmd":f"/verif/check {pid} quick",
          "thorough_cmd":f"/verif/check {pid} thorough",
          "evidence_file":f"/verif/evidence/{pid}.json",
          "replay_cmd_template":"/verif/check --replay {path}",
          "engine":"orca-mc",
          "level_claimed":{"category":cat,"text":text,"design_ref":ref},
          "level_note":note,
          "technique":tech,
        })
    else:
        m["not_applicable"].append({"property_id":pid,"reason":PENDING_REASON})
json.dump(m,open("/verif/MANIFEST.json","w"),indent=1)
print("checks:",len(m["checks"]),"not_applicable:",len(m["not_applicable"]))
