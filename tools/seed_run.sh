#!/bin/bash
# usage: seed_run.sh <dir-with-patch> <tier> <check-id>...
# Applies <dir>/patch_at_head.diff (or patch.diff) to /repo, runs the listed checks, reverts /repo.
# Prints one line per check: "<id> rc=<rc> <first VIOLATION line>" ; full logs in <dir>/run_<id>.log
set -u
D=$1; TIER=$2; shift 2
P=$D/patch_at_head.diff; [ -f $P ] || P=$D/patch.diff
if [ -n "$(git -C /repo status --porcelain --untracked-files=no)" ]; then echo "/repo not clean"; exit 2; fi
git -C /repo apply $P || { echo "apply failed"; exit 2; }
trap 'git -C /repo checkout -q -- .' EXIT
for id in "$@"; do
  out=$(/verif/check $id $TIER 2>&1); rc=$?
  echo "$out" > $D/run_$id.log
  v=$(echo "$out" | grep -m1 "^VIOLATION" | cut -c1-160)
  n=$(echo "$out" | grep -c "^VIOLATION")
  m=$(echo "$out" | grep -m1 "MACHINERY" | cut -c1-160)
  echo "$id rc=$rc nviol=$n $v $m"
done
