#!/usr/bin/env python3
"""Maintains /verif/known_findings.json (hand-edited list below; run by hand, never by a check)."""
import json
F=[]
def fixed(prop, commit, sig, what):
    F.append({"property":prop,"signature":sig,"what":what,"status":f"fixed: property={prop} {commit} {what}"})
def known(prop, sig, what, witness):
    F.append({"property":prop,"signature":sig,"what":what,"status":"open","witness":witness})

# ---- repaired defects (suppress nothing) ------------------------------------------------------
fixed("C06","d2005c6","site * wrong-entity | after {LocalToImport, LocalToImport} @*","function index space out of step with the import section after conversions/additions in non-positional order; deleted added imports kept an index (history [LocalToImport(2), LocalToImport(1)] on base fn-no-imports)")
fixed("C07","d2005c6","site code.Global* wrong-entity | after {AddImportedGlobal, DeleteGlobal} @*","an imported global that is added and deleted before encoding kept an index, shifting every global reference (history [AddImportedGlobal, DeleteGlobal(new)])")
fixed("C08","d2005c6","site * wrong-entity | after {AddImportMem, DeleteMem} @*","an imported memory that is added and deleted before encoding kept an index, shifting every memory reference (history [AddImportMem, DeleteMem(new)])")
fixed("C09","d2005c6","dangling-emitted * | after {DeleteFunc, LocalToImport} @*","a reference to a deleted function was emitted with another function's index instead of failing when a conversion re-ordered the function vector")
fixed("C11","d2005c6","site * wrong-entity | after {LocalToImport, LocalToImport} @*","converting two local functions to imports in descending order bound every use to the wrong import")
fixed("C10","b51d8e3","* | after {ImportToLocal} @mixed-imports-*","replace_import_in_module used the ImportsID as FunctionID: with a non-function import in front the wrong function (or none) was replaced")
fixed("C06","174155c","panic-op AddLocalFunc* | after {AddLocalFunc*, LocalToImport} @*","FunctionBuilder::finish_module asserted after any convert_local_fn_to_import (function counts out of step)")
fixed("C06","066fc48","site elem.items.expr.ref.func wrong-entity | *","ref.func inside element-segment constant expressions and table initialisers was never re-mapped")
fixed("C07","066fc48","site elem.offset.global.get wrong-entity | *","global.get inside element offsets and table initialisers was never re-mapped")
fixed("C07","d621c1d","site export.global wrong-entity | *","exported globals kept their old index after globals were added or deleted")
fixed("C08","61eb52a","site code.*AtomicRmw* wrong-entity | *","atomic read-modify-write operators and i64.atomic.load kept their old memory index")
fixed("C07","2a82588","duplicate-id global | after {AddGlobal.*.iter, AddImportedGlobal} @gl-imports-only","add_imported_global returned the ID of a global previously added through an iterator")
fixed("C29","7a7f54a","name function wrong-name | after {SetFnName.0} @named-all","set_fn_name on an imported function behind a non-function import dropped the name or named another import")

fixed("C06","ca8bc01","site code.* missing | after {DeleteFunc, InjectFn.*.modifier-fn-entry} @*","function-entry (and every other special-mode) code on the first local functions was silently dropped after an imported function had been deleted: the resolution walk started at a counter that still included the deleted import (witness [DeleteFunc(fspare), InjectFn(func_entry on $l0)] on fn-min)")

fixed("C24","457c7aa","wrong-instruction block","block/loop_stmt/if_stmt helpers (and add_global) given DataType::FuncRef / ExternRef - the non-null (ref func) / (ref extern) - emitted the nullable funcref / externref: the wasmparser-direction conversion of DataType mapped them to ValType::FUNCREF / EXTERNREF (found when the block-type domain of C24 was widened to every value type)")
fixed("C24","457c7aa","wrong-instruction loop_stmt","see wrong-instruction block")
fixed("C24","457c7aa","wrong-instruction if_stmt","see wrong-instruction block")

fixed("C06","96a72e8","panic-encode ir/module/mod.rs:attempt to subtract with overflow | after {*ImportToLocal*} @*","seen only in the debug-assertions build: after replacing an import that had been ADDED through the API with a built function, encoding panicked with 'attempt to subtract with overflow' (num_funcs - num_funcs_added; the counter was adjusted by fix 174155c without its partner). Release builds wrapped silently. Witness [AddImportFunc, ImportToLocal(new)] on fn-no-imports")
fixed("C09","96a72e8","panic-encode ir/module/mod.rs:attempt to subtract with overflow | after {*ImportToLocal*} @*","see the C06 entry")

fixed("C06","a81a104","duplicate-id func | after {*EncodeNow*} @*","an encode() in the middle of a history re-ordered the stored functions / globals / memories while their IDs stayed as they were (a consequence of fix 7322b48): a later add returned an ID another item already had, a later delete or conversion acted on another item (witness [AddImportFunc, DeleteFunc(new), EncodeNow, ...] on fn+code-refs). Encoding now leaves the lists untouched")
fixed("C07","a81a104","duplicate-id global | after {*EncodeNow*} @*","see the C06 entry")
fixed("C08","a81a104","duplicate-id memory | after {*EncodeNow*} @*","see the C06 entry")
fixed("C05","e7f3f2d","reencode differs plan block-alt@*+semantic-after@*","special-mode code on an instruction inside (or on the opener of) a region replaced by a block alternate was skipped but not cleared; the next encoding emitted it (witness: semantic-after and block-alt on one block, encode(); encode())")
fixed("C23","e7f3f2d","encode-after-report differs","pull_side_effects() followed by encode() gave other bytes than encode() alone for [semantic-after on a block, block-alt on the same block]: same cause as the C05 entry")

# ---- open findings ------------------------------------------------------------------------------
for opk,ex in [("AddImportFunc","[AddImportFunc]"),("DeleteFunc","[DeleteFunc(spare)]"),("LocalToImport","[LocalToImport(1)]"),("ImportToLocal","[ImportToLocal(0)]"),
               ("AddImportedGlobal","[AddImportedGlobal]"),("DeleteGlobal","[DeleteGlobal(spare)]"),("AddImportMem","[AddImportMem]"),("DeleteMem","[DeleteMem(spare)]")]:
    fixed("C05","7322b48",f"reencode * | after {{*{opk}*}} @*",
          f"second encode() after a renumbering edit ({opk}; witness {ex} on fn-min / gl-min / mem-min, then encode(); encode()) re-applied the old->new ID mapping to code, start, initialisers and data that the first encode had rewritten in place: different bytes, or a 'Deleted ...' panic")
fixed("C29","a85aa2c","name local * | *","local-name (and label-name) maps were replayed verbatim with the function indices they had in the input: after any edit that renumbers functions the names sat on another function (witness [AddImportFunc] on named-all: local names of $loc_a on the function one index lower)")
fixed("C29","a85aa2c","name global * | *","the global-name map was replayed verbatim with the indices of the input: after adding an imported global or deleting a global the names sat on other globals (witness [AddImportedGlobal] on named-all)")

fixed("C25","92adedc","panic no-local-functions","ModuleIterator::new panicked on a module without local functions (witness: (module))")
fixed("C25","92adedc","panic all-skipped","ModuleIterator panicked when every local function is skipped (witness: (module (func)) with skip [0])")
fixed("C25","92adedc","walk is-end-flag first-visited-after-leading-skip","first visited function after a skipped function 0 was walked with function 0's instruction count")
fixed("C26","e467a5a","visit-sequence early-stop trailing-skipped-nonlast-module","ComponentIterator stopped at a module whose trailing functions are skipped")
fixed("C26","e467a5a","visit-sequence after-reset stale-skip-list","ComponentIterator::reset re-entered module 0 with the skip list of the last module")
fixed("C26","92adedc","panic module-without-local-functions","ComponentIterator panicked on modules without local functions / with all functions skipped")
fixed("C27","1310da4","structure nested-depth>=3","components nested >= 3 levels deep were re-structured by parse (sections of a grandchild's parent attributed to the grandparent)")
fixed("C27","cf00b5f","text-differs in type stream->future","(stream) without payload inside an instance/component type was encoded as (future)")
fixed("C27","91876ce","text-differs item core rec->core type","explicit core rec groups inside instance/component types were flattened into separate core types")
fixed("C28","d111ae9","panic parse ir/module/mod.rs:called `Option::unwrap()` on a `None` value","Module::parse panicked on a valid producers section without fields")
fixed("C03","ae5eedc","panic ir/wrappers.rs:*namemap*","malformed name maps (module and component name sections) panicked in parse")
fixed("C03","d111ae9","panic ir/module/mod.rs:Module::parse_internal:producers field*","producers section decoding panicked (no field / malformed field / malformed values)")
fixed("C03","ce39a86","panic ir/module/mod.rs:Module::parse_internal:Error encored in tag section!*","tag section read error, name of a body-less function (index out of bounds), function with missing or non-function type (no entry found for key / Not a function!) panicked in parse")
fixed("C03","edd268b","panic ir/types.rs:InitExpr::eval:Invalid constant expression*","constant expressions outside the IR's operator list (incl. valid extended-const / any.convert_extern) panicked in parse")
fixed("C03","37ee094","panic ir/component.rs:Component::parse_comp:range end index*","truncated nested module/component section panicked with an out-of-range slice")
fixed("C03","69c00f7","abort SIGSEGV (component) nested-components","2048 nested components overflowed the stack in Component::parse")
known("C03","abort SIGSEGV (component) nested-component-types","a type section with >= ~16000 nested component/instance types (49 KB) overflows the 8 MiB stack inside wasmparser 0.235's recursive type reader, reached through Component::parse (wasmparser's own Validator overflows on the same input); depth 4096 is fine. Not repairable inside wirm without running the parser on a larger stack.",
      {"seed":"ctype-ladder-16384","parser":"Component::parse"})

fixed("C19","c01e8b7","event block-exit if *","block-exit probe of an if fired at the end of a construct nested in the then-arm (or not at all) instead of when the arm fell through (witness: if A { if B {} } with the probe on the outer if, input a=1,b=0)")
fixed("C01","f290405","invalid-output type mismatch: expected (ref exn), found exnref","nullable exnref/nullexnref lost nullability in params/results/locals/fields/block types")
fixed("C02","f290405","text-differs {exnref} -> {exn,ref}","nullable exnref/nullexnref lost nullability in params/results/locals/fields/block types")
known("C20","event semantic-after br*fn-label* missing","a semantic-after probe on a br/br_if/br_table that targets the function body label never fires: its body is scheduled 'after' the function's final end, where the encoder drops after-code",
      {"program":"[Block [Br 1]] (br to the function label)","plan":"semantic-after on the br","input":"any"})
known("C20","event semantic-after br->* in-loop extra","the flag that guards a branch's semantic-after body is set before the branch and only cleared on fall-through: after a taken branch it stays set, so a later arrival at the same label (next loop iteration, branch not executed) runs the body again",
      {"program":"[Loop [Block [If Ctr [Br 1]]]]","plan":"semantic-after on the br","input":"(0,0): 2 executions, 3 firings"})
known("C20","event semantic-after br_if->* in-loop extra","same stale flag as for br (taken br_if in one iteration, not executed in the next)",
      {"program":"[Loop [Block [If Ctr [BrIf A 1]]]]","plan":"semantic-after on the br_if"})
known("C20","event semantic-after br_table->* extra","same stale flag: a br_table's body is registered at every target label; after arriving at an inner target the flag is still set when control reaches the outer target's end",
      {"program":"[Block [Block [BrTable A [0] 1]]]","plan":"semantic-after on the br_table","input":"(0,0): 1 execution, 2 firings"})
known("C20","invalid-instrumented-module else found outside of an `if` block [*semantic-after@br*","three or more flagged bodies resolved at one end are chained as if/else/else: the second else has no matching if and the module does not validate (a br_table contributes one body per target, so two probes suffice)",
      {"program":"[Block [Block [BrTable A [0] 1] ...]]","plan":"two semantic-after probes whose targets meet at one end"})

fixed("C22","8aef522","silently-lost * via function-modifier inject_at","special-mode code injected through FunctionModifier::inject_at / add_instr_at was accepted and never resolved (has_special_instr not set)")
fixed("C22","b1c6560","silently-lost empty-block-alt on * via *","empty_block_alt on a non-block instruction was accepted and silently ignored")
fixed("C17","8591a43","event func-exit * beside-removed-construct extra","a function-exit probe fired twice per activation when a return / unreachable / throw of the function sat inside a construct removed through a block alternate: the copy of the exit body placed in front of the removed instruction stayed and ran in passing (witness: main = [Block [Ret]], func-exit probe, empty block alternate on the block)")
known("C20","event semantic-after br* missing-beside-extra-firing-of-another-branch-probe","second symptom of the stale flag: two flagged bodies that meet at one end are lowered as `if flagA {bodyA} else {if flagB {bodyB}}`; when flagA is stale (set by an earlier taken branch, never cleared) bodyA runs again and bodyB of the branch that really arrived is skipped",
      {"program":"[Block [Block [BrTable A [0,1] 0], BrIf A 0]]","plan":"semantic-after on the outer block, the br_table and the br_if","input":"(2,0): br_table -> inner block (fires, flag stays), br_if taken -> outer end: the br_table's body fires again, the br_if's body does not"})
known("C16","invalid-instrumented-module else found outside of an `if` block [*semantic-after@br*","the C20 finding seen from C16 (an instrumented module must validate and behave like the original): three or more flagged semantic-after bodies resolved at one end are chained as if/else/else and the module does not validate; a br_table contributes one body per target, so two probed br_tables suffice",
      {"program":"[Block [BrTable A [0] 1], ... BrTable ...] (two br_tables whose targets meet at one end)","plan":"semantic-after on both br_tables"})
fixed("C12","4823cf8","panic ir/function.rs:assertion*","FunctionBuilder::finish_component panicked on its own consistency assertion whenever an import had been added to that module through the API before: it counted imports.num_funcs_added on top of imports.num_funcs, which already includes them (finish_module asserts the sum without it); witness: component wrapping an empty module, add_import_func, then a built function finished with finish_component(comp, 0)")
known("C22","silently-lost semantic-after on br->fn-label via *","a semantic-after injection on an unconditional br whose only target is the function body label is accepted by every API path and absent from the encoded function (same cause as the C20 finding: its body is scheduled after the final end, where after-code is dropped)",
      {"program":"[Block [...], If B [Br 1]] (br to the function label)","mode":"semantic-after","api":"any of the 9 paths"})

for m in ["SemanticAfterBlock","SemanticAfterBr","BlockEntry","BlockExit","BlockAlt"]:
    known("C23",f"tagged-item no-record probe {m}","the tag of a special-mode probe is not carried through the resolution into before/after/alternate code: the report contains the resolved pieces with empty tags and no record with the probe's tag",
          {"history":f"[Probe {m} with tag [0xA0,0x5A]] through iterator.append_to_tag or modifier.append_tag_at","then":"pull_side_effects()"})
fixed("C04","2638d18","hash-order-dependent encoded-bytes at ir/module/module_types.rs @dup-types*","with two structurally identical types in the module, add_func_type returned either index depending on HashMap iteration order (ModuleTypes::new), so the encoded bytes depended on the process hash seed")
json.dump(F,open("/verif/known_findings.json","w"),indent=1)
print(len(F),"entries")
