#!/usr/bin/env python3
"""Maintains /verif/known_findings.json (hand-edited list below; run by hand, never by a check)."""
import json
F=[]
def fixed(prop, commit, sig, what):
    F.append({"property":prop,"signature":sig,"what":what,"status":f"fixed: property={prop} {commit} {what}"})
def known(prop, sig, what, witness):
    F.append({"property":prop,"signature":sig,"what":what,"status":"open","witness":witness})

# ---- repaired defects (suppress nothing) ------------------------------------------------------
fixed("C06","d2005c6","site * wrong-entity | after {LocalToImport, LocalToImport} @*","function index space out of step with the import section after conversions/additions in non-positional order; deleted added imports kept an index (history [LocalToImport(2), LocalToImport(1)] on base fn-no-imports)")
fixed("C07","d2005c6","site code.Global* wrong-entity | after {AddImportedGlobal, DeleteGlobal} @*","an imported global that is added and deleted before encoding kept an index, shifting every global reference (history [AddImportedGlobal, DeleteGlobal(new)])")
fixed("C08","d2005c6","site * wrong-entity | after {AddImportMem, DeleteMem} @*","an imported memory that is added and deleted before encoding kept an index, shifting every memory reference (history [AddImportMem, DeleteMem(new)])")
fixed("C09","d2005c6","dangling-emitted * | after {DeleteFunc, LocalToImport} @*","a reference to a deleted function was emitted with another function's index instead of failing when a conversion re-ordered the function vector")
fixed("C11","d2005c6","site * wrong-entity | after {LocalToImport, LocalToImport} @*","converting two local functions to imports in descending order bound every use to the wrong import")
fixed("C10","b51d8e3","* | after {ImportToLocal} @mixed-imports-*","replace_import_in_module used the ImportsID as FunctionID: with a non-function import in front the wrong function (or none) was replaced")
fixed("C06","174155c","panic-op AddLocalFunc* | after {AddLocalFunc*, LocalToImport} @*","FunctionBuilder::finish_module asserted after any convert_local_fn_to_import (function counts out of step)")
fixed("C06","066fc48","site elem.items.expr.ref.func wrong-entity | *","ref.func inside element-segment constant expressions and table initialisers was never re-mapped")
fixed("C07","066fc48","site elem.offset.global.get wrong-entity | *","global.get inside element offsets and table initialisers was never re-mapped")
fixed("C07","d621c1d","site export.global wrong-entity | *","exported globals kept their old index after globals were added or deleted")
fixed("C08","61eb52a","site code.*AtomicRmw* wrong-entity | *","atomic read-modify-write operators and i64.atomic.load kept their old memory index")
fixed("C07","2a82588","duplicate-id global | after {AddGlobal.*.iter, AddImportedGlobal} @gl-imports-only","add_imported_global returned the ID of a global previously added through an iterator")
fixed("C29","7a7f54a","name function wrong-name | after {SetFnName.0} @named-all","set_fn_name on an imported function behind a non-function import dropped the name or named another import")

# ---- open findings ------------------------------------------------------------------------------
for opk,ex in [("AddImportFunc","[AddImportFunc]"),("DeleteFunc","[DeleteFunc(spare)]"),("LocalToImport","[LocalToImport(1)]"),("ImportToLocal","[ImportToLocal(0)]"),
               ("AddImportedGlobal","[AddImportedGlobal]"),("DeleteGlobal","[DeleteGlobal(spare)]"),("AddImportMem","[AddImportMem]"),("DeleteMem","[DeleteMem(spare)]")]:
    known("C05",f"reencode * | after {{*{opk}*}} @*",
          f"second encode() after a renumbering edit ({opk}) re-applies the old->new ID mapping to code, start, initialisers and data that the first encode already rewrote in place: different bytes, or a 'Deleted ...' panic",
          {"base":"fn-min / gl-min / mem-min","history":ex,"then":"encode(); encode()"})
known("C29","name local * | *","local-name (and label-name) maps are replayed verbatim with the function indices they had in the input: after any edit that renumbers functions the names sit on another function",
      {"base":"named-all","history":"[AddImportFunc]","observe":"local names of $loc_a appear on the function one index lower"})
known("C29","name global * | *","the global-name map is replayed verbatim with the indices of the input: after adding an imported global or deleting a global the names sit on other globals",
      {"base":"named-all","history":"[AddImportedGlobal]"})
json.dump(F,open("/verif/known_findings.json","w"),indent=1)
print(len(F),"entries")
